import Zstd.Model.Cli
/-
C19 — Command-line compress then decompress restores the file byte for byte; failures are
reported through the exit status, not by a panic that leaves an empty output behind.

The decision table is read off `cli/src/main.rs` and `frame_compressor.rs` on every run
(`Zstd.Gen.Cli` → `Model.Cli.srcCfg`).  Each property is first proved for EVERY table that passes a
decidable well-formedness test (`tableOk`), then instantiated with today's source by evaluating the
test — so a source change that re-introduces finding F6 (default level not implemented, an
unimplemented level reaching the library, a panicking arm, the output created before the level is
checked) makes `src_table_ok`, and with it the instantiated theorems, fail.
-/
namespace Zstd.Props.C19
open Zstd Zstd.Model.Cli
open Zstd.Gen.Cli (Arm)

/-- an arm is harmless: it maps to a level the library runs to completion on every input, or it is an error return -/
def armOk (c : Cfg) : Arm → Bool
  | .lib l => c.libImplemented.contains l || !c.libFallbackPanics
  | .error => true
  | .panic => false

/-- the decision table can neither panic nor leave an output behind on failure -/
def tableOk (c : Cfg) : Bool :=
  (List.range (2 ^ c.levelBits)).all (fun n => armOk c (c.arm n)) &&
  (match c.arm c.defaultLevel with | .lib l => c.libImplemented.contains l | _ => false) &&
  decide (c.defaultLevel < 2 ^ c.levelBits) &&
  decide (c.compressOrder = ["match", "open", "create", "lib"]) &&
  c.openFailureReturned && c.createFailureReturned

def Clean (o : Outcome) : Prop := o.exit ≠ .ok → o.exit ≠ .panic ∧ o.outputExists = false

theorem arm_of_tableOk (c : Cfg) (h : tableOk c = true) (n : Nat) (hn : n < 2 ^ c.levelBits) : armOk c (c.arm n) = true := by
  simp only [tableOk, Bool.and_eq_true, List.all_eq_true, List.mem_range] at h
  exact h.1.1.1.1.1 n hn

/-- for EVERY well-formed table: whatever the level option, whether or not the input exists and the
output can be created — a run that does not succeed neither panics nor leaves an output file -/
theorem cli_failure_is_clean_of (c : Cfg) (h : tableOk c = true) (level : Option Nat) (env : CompressEnv) :
    Clean (runCompress c level env) := by
  have harm := arm_of_tableOk c h
  simp only [tableOk, Bool.and_eq_true, decide_eq_true_eq] at h
  obtain ⟨⟨⟨⟨⟨_, _⟩, _⟩, hord⟩, hopen⟩, hcreate⟩ := h
  unfold Clean runCompress
  simp only []
  split
  · simp
  · rename_i hlt
    have ha := harm (level.getD c.defaultLevel) (by omega)
    rw [hord]
    cases harm' : c.arm (level.getD c.defaultLevel) with
    | panic => rw [harm'] at ha; simp [armOk] at ha
    | error => simp [compressSteps, harm']
    | lib l =>
      rw [harm'] at ha
      have hl : c.libCompletes l env.inputEmpty = true := by
        simp only [armOk, Bool.or_eq_true, Bool.not_eq_true'] at ha
        simp only [Cfg.libCompletes, Bool.or_eq_true, Bool.and_eq_true, Bool.not_eq_true']
        rcases ha with ha | ha
        · exact Or.inl (Or.inr ha)
        · exact Or.inr ha
      cases hi : env.inputExists <;> cases ho : env.outputCreatable <;>
        simp [compressSteps, harm', hi, ho, hl, hopen, hcreate]

/-- today's source passes the test (FALSE before the repair of F6: see `f6_before_repair`) -/
theorem src_table_ok : tableOk srcCfg = true := by decide +kernel

/-- the property, for the command-line tool as it is in the source today -/
theorem cli_failure_is_clean (level : Option Nat) (env : CompressEnv) : Clean (runCompress srcCfg level env) :=
  cli_failure_is_clean_of srcCfg src_table_ok level env

/-- in the task's wording: a level that is not implemented ⇒ exit ≠ 0, no panic, no output file -/
theorem cli_unimplemented_level_is_refused (level : Option Nat) (env : CompressEnv)
    (h : ∀ l, srcCfg.arm (level.getD srcCfg.defaultLevel) = .lib l → srcCfg.libImplemented.contains l = false) :
    (runCompress srcCfg level env).exit ≠ .ok ∧ (runCompress srcCfg level env).exit ≠ .panic ∧
    (runCompress srcCfg level env).outputExists = false := by
  have hne : (runCompress srcCfg level env).exit ≠ .ok := by
    intro hok
    have hord : srcCfg.compressOrder = ["match", "open", "create", "lib"] := by decide
    unfold runCompress at hok
    simp only [] at hok
    split at hok
    · simp at hok
    · rw [hord] at hok
      have harm := arm_of_tableOk srcCfg src_table_ok (level.getD srcCfg.defaultLevel) (by omega)
      cases harm' : srcCfg.arm (level.getD srcCfg.defaultLevel) with
      | panic => simp [compressSteps, harm'] at hok
      | error => simp [compressSteps, harm'] at hok
      | lib l =>
        have hl := h l harm'
        rw [harm'] at harm
        have : srcCfg.libFallbackPanics = true := by decide
        simp only [armOk, this, Bool.not_true, Bool.or_false] at harm
        rw [hl] at harm
        exact absurd harm (by decide)
  exact ⟨hne, cli_failure_is_clean level env hne⟩

example : (runCompress srcCfg (some 2) ⟨true, false, true⟩).exit = .error := by decide
example : (runCompress srcCfg (some 9) ⟨true, false, true⟩) = ⟨.error, false, false, none⟩ := by decide

/-- exit class and files of an outcome (the library level is left out: which implemented level a
number maps to does not matter for the property) -/
def observable (o : Outcome) : Exit × Bool × Bool := (o.exit, o.outputExists, o.outputComplete)

/-- level number `n` maps to a level the library implements -/
def implementedAt (c : Cfg) (n : Nat) : Bool :=
  match c.arm n with
  | .lib l => c.libImplemented.contains l
  | _ => false

theorem implementedAt_spec (c : Cfg) (n : Nat) (h : implementedAt c n = true) :
    ∃ l, c.arm n = .lib l ∧ l ∈ c.libImplemented := by
  unfold implementedAt at h
  split at h
  · rename_i l hl; exact ⟨l, hl, by simpa using h⟩
  · simp at h

/-- what the tool does today, row by row (level option × input present): exit class, output present, output complete -/
theorem cli_decision_table :
    (∀ lvl, lvl = none ∨ lvl = some 0 ∨ lvl = some 1 →
        observable (runCompress srcCfg lvl ⟨true, false, true⟩) = (Exit.ok, true, true) ∧
        (∃ l, (runCompress srcCfg lvl ⟨true, false, true⟩).libLevel = some l ∧ l ∈ srcCfg.libImplemented)) ∧
    (∀ n, 2 ≤ n → n < 256 → ∀ env, runCompress srcCfg (some n) env = ⟨.error, false, false, none⟩) ∧
    (∀ n, 256 ≤ n → ∀ env, runCompress srcCfg (some n) env = ⟨.usage, false, false, none⟩) ∧
    (∀ lvl, lvl = none ∨ lvl = some 0 ∨ lvl = some 1 → ∀ e o, (runCompress srcCfg lvl ⟨false, e, o⟩).exit = .error ∧
        (runCompress srcCfg lvl ⟨false, e, o⟩).outputExists = false) := by
  refine ⟨?_, ?_, ?_, ?_⟩
  · intro lvl h
    rcases h with h | h | h <;> subst h <;> exact ⟨by decide, by decide⟩
  · intro n h2 h256 env
    have : ∀ n, n < 256 → 2 ≤ n → srcCfg.arm n = .error := by decide +kernel
    have harm := this n h256 h2
    have hord : srcCfg.compressOrder = ["match", "open", "create", "lib"] := by decide
    have hb : srcCfg.levelBits = 8 := by decide
    simp [runCompress, hb, hord, compressSteps, harm]
    omega
  · intro n h env
    have hb : srcCfg.levelBits = 8 := by decide
    simp [runCompress, hb]
    omega
  · intro lvl h e o
    rcases h with h | h | h <;> subst h <;> cases e <;> cases o <;> decide

/-- the table as it was before the repair (finding F6), kept as a regression witness -/
def beforeF6 : Cfg :=
  { defaultLevel := 2, levelBits := 8,
    levelArms := [(0, 0, .lib "Uncompressed"), (1, 1, .lib "Fastest"), (2, 2, .lib "Default"), (3, 3, .lib "Better"), (4, 4, .lib "Best")],
    levelFallback := .panic, compressOrder := ["match", "open", "create", "lib"],
    openFailureReturned := true, createFailureReturned := true,
    libImplemented := ["Uncompressed", "Fastest"], libFallbackPanics := true, libEmptyShortcut := true,
    noSubcommandPanics := true, decompressOpenBeforeCreate := true, decompressCreateBeforeDecode := true,
    decompressRefusesSamePath := false, progressPassThrough := true }

/-- F6: with that table, no `--level` ⇒ panic with an empty output file left behind; `--level 9` ⇒ panic -/
theorem f6_before_repair :
    tableOk beforeF6 = false ∧
    runCompress beforeF6 none ⟨true, false, true⟩ = ⟨.panic, true, false, some "Default"⟩ ∧
    (runCompress beforeF6 (some 9) ⟨true, false, true⟩).exit = .panic ∧
    -- an EMPTY input at the unimplemented default level succeeded (the library's empty-input shortcut)
    (runCompress beforeF6 none ⟨true, true, true⟩).exit = .ok := by decide

/-! ### round trip -/

/-- for EVERY well-formed table and every level option that resolves to an implemented level:
compress succeeds with a complete output (the library's frame of the content at that level),
decompress of that file succeeds, and — given that the library round-trips (C02) — restores the
content -/
theorem cli_roundtrip_of (c : Cfg) (h : tableOk c = true) (level : Option Nat) (l : String)
    (hlt : level.getD c.defaultLevel < 2 ^ c.levelBits)
    (harm : c.arm (level.getD c.defaultLevel) = .lib l)
    (enc : String → List Byte → List Byte) (dec : List Byte → Option (List Byte)) (content : List Byte)
    (hC02 : dec (enc l content) = some content) :
    runCompress c level ⟨true, content.isEmpty, true⟩ = ⟨.ok, true, true, some l⟩ ∧
    compressedFile c enc level content = some (enc l content) ∧
    (compressedFile c enc level content).bind dec = some content ∧
    (c.decompressOpenBeforeCreate = true → c.decompressCreateBeforeDecode = true →
      runDecompress c ⟨true, true, true, false⟩ = ⟨.ok, true, true, false⟩) := by
  have ha := arm_of_tableOk c h _ hlt
  simp only [tableOk, Bool.and_eq_true, decide_eq_true_eq] at h
  obtain ⟨⟨⟨⟨⟨_, _⟩, _⟩, hord⟩, _⟩, _⟩ := h
  rw [harm] at ha
  have hl : c.libCompletes l content.isEmpty = true := by
    simp only [armOk, Bool.or_eq_true, Bool.not_eq_true'] at ha
    simp only [Cfg.libCompletes, Bool.or_eq_true, Bool.and_eq_true, Bool.not_eq_true']
    rcases ha with ha | ha
    · exact Or.inl (Or.inr ha)
    · exact Or.inr ha
  have hrun : runCompress c level ⟨true, content.isEmpty, true⟩ = ⟨.ok, true, true, some l⟩ := by
    unfold runCompress
    simp only []
    rw [if_neg (by omega), hord]
    simp [compressSteps, harm, hl]
  refine ⟨hrun, ?_, ?_, ?_⟩
  · simp [compressedFile, hrun]
  · simp [compressedFile, hrun, hC02]
  · intro h1 h2; simp [runDecompress, h1, h2]

/-- today's tool: no `--level`, `--level 0` and `--level 1` round-trip every content (given C02 for the level used) -/
theorem cli_roundtrip (level : Option Nat) (hlevel : level = none ∨ level = some 0 ∨ level = some 1)
    (enc : String → List Byte → List Byte) (dec : List Byte → Option (List Byte)) (content : List Byte)
    (hC02 : ∀ l, l ∈ srcCfg.libImplemented → dec (enc l content) = some content) :
    (runCompress srcCfg level ⟨true, content.isEmpty, true⟩).exit = .ok ∧
    (compressedFile srcCfg enc level content).bind dec = some content ∧
    runDecompress srcCfg ⟨true, true, true, false⟩ = ⟨.ok, true, true, false⟩ := by
  have key : ∃ l, srcCfg.arm (level.getD srcCfg.defaultLevel) = .lib l ∧ l ∈ srcCfg.libImplemented ∧
      level.getD srcCfg.defaultLevel < 2 ^ srcCfg.levelBits := by
    have hall : ∀ n, n = srcCfg.defaultLevel ∨ n = 0 ∨ n = 1 →
        ∃ l, srcCfg.arm n = .lib l ∧ l ∈ srcCfg.libImplemented ∧ n < 2 ^ srcCfg.levelBits := by
      intro n hn
      have hi : implementedAt srcCfg n = true ∧ n < 2 ^ srcCfg.levelBits := by
        rcases hn with h | h | h <;> subst h <;> decide
      obtain ⟨l, h1, h2⟩ := implementedAt_spec srcCfg n hi.1
      exact ⟨l, h1, h2, hi.2⟩
    rcases hlevel with h | h | h <;> subst h
    · exact hall _ (Or.inl rfl)
    · exact hall _ (Or.inr (Or.inl rfl))
    · exact hall _ (Or.inr (Or.inr rfl))
  obtain ⟨l, harm, hmem, hlt⟩ := key
  have := cli_roundtrip_of srcCfg src_table_ok level l hlt harm enc dec content (hC02 l hmem)
  refine ⟨by rw [this.1], this.2.2.1, this.2.2.2 (by decide) (by decide)⟩

example : compressedFile srcCfg (fun _ c => 0 :: c) none [1, 2] = some [0, 1, 2] := by decide

/-- `ProgressMonitor::read` hands the inner reader's answer through unchanged, for every reader
script and every request, and counts exactly the bytes delivered -/
theorem progress_passthrough (r : Model.Io.Reader) (count req : Nat) :
    (progressRead srcCfg r count req).1 = r.read req ∧
    (progressRead srcCfg r count req).2 = count + (match (r.read req).1 with | Except.ok bs => bs.length | Except.error _ => 0) := by
  have hp : srcCfg.progressPassThrough = true := by decide
  unfold progressRead
  cases hr : r.read req with
  | mk res r' =>
    cases res with
    | ok bs => simp [hp]
    | error k => simp

/-! ### decompress -/

/-- `decompress` never panics on a missing, invalid or unwritable file -/
theorem decompress_reports_failure (env : DecompressEnv) :
    (runDecompress srcCfg env).exit ≠ .panic ∧
    ((runDecompress srcCfg env).exit = .ok → (runDecompress srcCfg env).outputComplete = true) := by
  have h1 : srcCfg.decompressOpenBeforeCreate = true := by decide
  have h2 : srcCfg.decompressCreateBeforeDecode = true := by decide
  unfold runDecompress
  simp only [h1, h2, Bool.and_self, Bool.not_true]
  cases env.inputExists <;> cases env.outputCreatable <;> cases env.samePath <;> cases env.frameValid <;>
    cases srcCfg.decompressRefusesSamePath <;> simp

/-- full strength of "a failing run leaves nothing that looks like a result and destroys nothing" -/
def decompress_never_destroys_input_full : Prop := ∀ env, (runDecompress srcCfg env).inputDestroyed = false

/-- … which holds exactly when `decompress` refuses an output path equal to its input path before
creating it.  Today it does not (`ruzstd-cli decompress ARCHIVE` with an ARCHIVE that has no
extension derives the output name `ARCHIVE` and truncates the archive: new finding, see report). -/
theorem decompress_keeps_input_iff :
    decompress_never_destroys_input_full ↔ srcCfg.decompressRefusesSamePath = true := by
  have h1 : srcCfg.decompressOpenBeforeCreate = true := by decide
  have h2 : srcCfg.decompressCreateBeforeDecode = true := by decide
  constructor
  · intro h
    have := h ⟨true, true, true, true⟩
    revert this
    unfold runDecompress
    simp only [h1, h2, Bool.and_self, Bool.not_true]
    cases srcCfg.decompressRefusesSamePath <;> simp
  · intro h env
    unfold runDecompress
    simp only [h1, h2, h, Bool.and_self, Bool.not_true, Bool.true_and]
    cases env.inputExists <;> cases env.outputCreatable <;> cases env.samePath <;> cases env.frameValid <;> simp

/-! ### default output names -/

/-- `decompress`'s default output name undoes `compress`'s default output name (up to the directory:
`file_stem` drops it, the file is recreated in the current directory) -/
theorem default_names_roundtrip (name : List Char) (h : name ≠ []) :
    fileStem (addExtension Gen.Cli.compressSuffix name) = name := by
  have hs : Gen.Cli.compressSuffix.toList = ['.', 'z', 's', 't'] := by decide
  unfold fileStem addExtension
  rw [hs]
  have hr : (name ++ ['.', 'z', 's', 't']).reverse = 't' :: 's' :: 'z' :: '.' :: name.reverse := by simp
  rw [hr]
  have hsp : List.span (fun x => decide (x ≠ '.')) ('t' :: 's' :: 'z' :: '.' :: name.reverse) = (['t', 's', 'z'], '.' :: name.reverse) := by
    simp [List.span, List.span.loop]
  rw [hsp]
  have : name.reverse.isEmpty = false := by
    cases name with
    | nil => exact absurd rfl h
    | cons a t => simp
  simp [this]

end Zstd.Props.C19
