import Zstd.Model.FrameDecoder
import Zstd.Proofs.FrameDecoderStandIn
import Zstd.Proofs.FrameFaithful
import Zstd.Proofs.FrameDecoderFull
import Zstd.Proofs.DictParse
import Zstd.Proofs.BlockRefines
import Zstd.Proofs.BlkLitFull
import Zstd.Props.C13
/-
C01 — the decoder reproduces the original data for every valid frame.

`Spec.decodeFrame f = some r` IS "f is a conforming encoding of r.content" (RFC 8878 transcription,
validated against libzstd).  The property is the refinement `Spec ok ⇒ Model delivers the same
bytes and metadata`; it is proved component by component.  This file holds the frame-level
components; the entropy stages (FSE: C12, Huffman: C13) and the sequence execution
(`executeSequences_refines`) are in their own files, and the composed statement is `C01_full`
below (kept visible; see `decodeFrame_refines_partial` for what is proved of it so far).
-/
namespace Zstd.Props.C01
open Zstd Zstd.Model

/-- **the full statement, over the EXECUTABLE model** (`DecB`: the frame-level model with the faithful
block decoder `Blk.decompressBlock`, the one engines `dec` / `hostile` compare with the real code line by
line): for every byte string `f` that is exactly one frame the Spec accepts (`Spec.decodeFrame f [] =
some r` with `r.consumed = f.length` — trailing bytes are ignored by `Spec.decodeFrame` but, rightly,
rejected by `decode_all`: see the example below), whose window is within the decoder's limit (a larger
one is refused on purpose: C11),
* `decode_all` into any target of at least the content's size returns exactly the content, and
* `reset` + `decode_blocks(All)` + `collect()` report the frame finished and hand out exactly the content.
Proved: `decoder_reproduces_content` (no stand-in, no hypothesis left).  Dictionaries:
`C01_full_dicts` / `decoder_reproduces_content_dicts`; every drain schedule: C06. -/
def C01_full : Prop :=
  ∀ (f : List Nat) (r : Spec.FrameResult), (∀ x ∈ f, x < 256) → Spec.decodeFrame f [] = some r →
    r.consumed = f.length → r.header.window ≤ ({} : DecB).maxWindow →
    (∀ room, r.content.length ≤ room → ∃ d', ({} : DecB).decodeAll f room = (d', .ok r.content.toArray)) ∧
    (∃ d0 rest d1, ({} : DecB).reset f = (d0, .ok rest) ∧ d0.decodeBlocks rest .all = (d1, .ok ([], true)) ∧
      d1.isFinished = true ∧ (d1.collect).2 = some r.content.toArray ∧ (d1.collect).1.canCollect = 0)

/-- … with dictionaries: the decoder's dictionaries registered through `add_dict` of the parsed bytes
`raws` (`registerDicts`), each of which the Spec parses; the frame valid w.r.t. the Spec's parse of the
same bytes (`specRegisterDicts`) -/
def C01_full_dicts : Prop :=
  ∀ (raws : List (List Nat)) (f : List Nat) (r : Spec.FrameResult),
    (∀ raw ∈ raws, (∀ x ∈ raw, x < 256) ∧ (Spec.parseDict raw).isSome = true) → (∀ x ∈ f, x < 256) →
    Spec.decodeFrame f (specRegisterDicts [] raws) = some r →
    r.consumed = f.length → r.header.window ≤ ({} : DecB).maxWindow →
    (∀ room, r.content.length ≤ room →
      ∃ d', (registerDicts {} raws).decodeAll f room = (d', .ok r.content.toArray)) ∧
    (∃ d0 rest d1, (registerDicts {} raws).reset f = (d0, .ok rest) ∧ d0.decodeBlocks rest .all = (d1, .ok ([], true)) ∧
      d1.isFinished = true ∧ (d1.collect).2 = some r.content.toArray ∧ (d1.collect).1.canCollect = 0)

/-- block headers: on every 3-byte pattern the model (table and guard from the source) agrees with
the RFC bit-fields, and accepts exactly the legal ones (type ≠ reserved, size ≤ 128 KiB) -/
theorem blockHeader_refines (b0 b1 b2 : Nat) (h0 : b0 < 256) (h1 : b1 < 256) (h2 : b2 < 256) :
    let s := Spec.parseBlockHeader b0 b1 b2
    (s.btype ≠ 3 ∧ s.size ≤ Spec.blockMaxSize →
      Model.parseBlockHeader b0 b1 b2 = .ok
        { last := s.last, btype := s.btype,
          decompressedSize := if s.btype = 2 then 0 else s.size,
          contentSize := if s.btype = 1 then 1 else s.size }) ∧
    (s.btype = 3 → Model.parseBlockHeader b0 b1 b2 = .error .reservedBlock) ∧
    (s.btype ≠ 3 ∧ s.size > Spec.blockMaxSize →
      Model.parseBlockHeader b0 b1 b2 = .error (.blockSizeTooLarge s.size)) := by
  have hsz : (b0 + 256 * b1 + 65536 * b2) / 8 = b0 / 8 + b1 * 32 + b2 * 8192 := by omega
  have hty : (b0 + 256 * b1 + 65536 * b2) / 2 % 4 = b0 / 2 % 4 := by omega
  have hla : (b0 + 256 * b1 + 65536 * b2) % 2 = b0 % 2 := by omega
  have htl : b0 / 2 % 4 < 4 := Nat.mod_lt _ (by decide)
  simp only [Spec.parseBlockHeader, Model.parseBlockHeader, Spec.blockMaxSize, hsz, hty, hla]
  generalize b0 / 2 % 4 = t at htl
  generalize b0 / 8 + b1 * 32 + b2 * 8192 = sz
  have ht : t = 0 ∨ t = 1 ∨ t = 2 ∨ t = 3 := by omega
  rcases ht with rfl | rfl | rfl | rfl <;>
    simp [lookupNat, Gen.blockTypeMap, Gen.blockSizeTooLarge, Gen.maxBlockSize] <;>
    omega

/-- window descriptor: for every descriptor byte the model's window equals the RFC formula, and it
is accepted exactly when the RFC's legal range contains it -/
theorem window_refines (desc : Nat) (hd : desc < 256) (dsc fcs : Nat) (did : Option Nat)
    (hs : dsc / 32 % 2 = 0) :
    let h : FHeader := ⟨dsc, desc, did, fcs⟩
    let w := Spec.windowSize desc
    (Spec.windowMin ≤ w ∧ w ≤ Spec.windowMax → h.windowSize = .ok w) ∧
    (w < Spec.windowMin → h.windowSize = .error (.windowTooSmall w)) ∧
    (w > Spec.windowMax → h.windowSize = .error (.windowTooBig w)) := by
  have hs' : (decide (dsc / 32 % 2 = 1)) = false := by simp [hs]
  simp only [FHeader.windowSize, FHeader.singleSegment, hs', Spec.windowSize, Spec.windowMin, Spec.windowMax,
    Gen.windowMinOk, Gen.windowMaxOk, Gen.minWindowSize, Gen.maxWindowSize]
  generalize 2 ^ (10 + desc / 8) + 2 ^ (10 + desc / 8) / 8 * (desc % 8) = w
  refine ⟨?_, ?_, ?_⟩
  · intro h
    have a : w ≥ 1024 := by omega
    have b : w ≤ 4123168604160 := by omega
    simp [a, b]
  · intro h
    have a : ¬ w ≥ 1024 := by omega
    simp [a]
  · intro h
    have a : w ≥ 1024 := by omega
    have b : ¬ w ≤ 4123168604160 := by omega
    simp [a, b]

/-- the only fault site of the frame level (`offset_value - 3` underflow in `do_offset_history`)
is unreachable for offset values the sequence decoder can produce (`2^code + extra ≥ 1`) -/
theorem doOffsetHistory_no_fault (ov ll : Nat) (h : Nat × Nat × Nat) (hov : ov ≥ 1) :
    ∃ r, doOffsetHistory ov ll h = .ok r := by
  unfold doOffsetHistory
  obtain ⟨a, b, c⟩ := h
  have : ov ≠ 0 := by omega
  simp [this]

theorem offsetValue_pos (c e : Nat) : Spec.offsetValue c e ≥ 1 := by
  unfold Spec.offsetValue
  have := Nat.two_pow_pos c
  omega

/-- the offset-history step of the code is the RFC's rule (model side proved equal to
`Spec.repeatOffsets` for every offset value, both literal-length cases, every history) -/
theorem offsetHistory_refines (ov ll : Nat) (h : Spec.OffHist) (hov : ov ≥ 1) :
    doOffsetHistory ov ll (h.r1, h.r2, h.r3) =
      .ok ((Spec.repeatOffsets ov (ll = 0) h).1,
           ((Spec.repeatOffsets ov (ll = 0) h).2.r1, (Spec.repeatOffsets ov (ll = 0) h).2.r2,
            (Spec.repeatOffsets ov (ll = 0) h).2.r3)) := by
  unfold doOffsetHistory Spec.repeatOffsets
  have h0 : ov ≠ 0 := by omega
  simp only [h0, ↓reduceIte]
  by_cases hll : ll = 0
  · subst hll
    by_cases h3 : ov > 3
    · have : ¬ ov = 1 := by omega
      have : ¬ ov = 2 := by omega
      have : ¬ ov = 3 := by omega
      simp [*]
    · have : ov = 1 ∨ ov = 2 ∨ ov = 3 := by omega
      rcases this with rfl | rfl | rfl <;> simp
  · have hpos : ll > 0 := by omega
    by_cases h3 : ov > 3
    · have : ¬ ov = 1 := by omega
      have : ¬ ov = 2 := by omega
      have : ¬ ov = 3 := by omega
      simp [*]
    · have : ov = 1 ∨ ov = 2 ∨ ov = 3 := by omega
      rcases this with rfl | rfl | rfl <;> simp [hpos, hll]

/-! ### sequence execution (agentH) -/

/-- `repeat_eq_overlapCopy`: `DecodeBuffer::repeat` — in-buffer copy, chunked overlapping copy,
`repeat_from_dict` entirely in the dictionary, straddling the boundary — computes the Spec's
byte-by-byte match copy, whenever the Spec's reach-back rule admits the offset (dictionary only while
the whole output lies within the window) and `total_output_counter` does not over-count -/
theorem repeat_refines (b : DBuf) (off ml : Nat) (out2 : Array Nat) (h0 : 0 < off)
    (htot : b.totalOut ≤ b.content.size)
    (hreach : off > b.content.size → b.content.size ≤ b.window ∧ off - b.content.size ≤ b.dict.size)
    (hm : Spec.matchCopy b.dict ml off b.content = some out2) :
    ∃ b2, b.repeat off ml = .ok b2 ∧ b2.content = out2 ∧ b2.dict = b.dict ∧ b2.window = b.window ∧
      b2.hashed = b.hashed ∧ b2.totalOut ≤ b2.content.size :=
  Model.repeat_refines b off ml out2 h0 htot hreach hm

/-- `executeSequences_refines`: whenever the RFC executor accepts a block's sequences on the output
produced so far (`b.content`, nothing drained — C06 lifts this to every drain schedule) and the block
regenerates at most `Block_Maximum_Size` bytes (the Spec checks that in `decodeCompressedBlock`), the
model's `execute_sequences` returns `Ok`, leaves exactly the Spec's output in the buffer and the
Spec's offset history in the scratch; dictionary, window and hasher are untouched and the counter
still does not over-count (so the next block can be chained).  `hov` holds for every sequence the
sequence decoder produces (`C03.decodeSeqLoop_ov_pos`). -/
theorem executeSequences_refines (seqs : List Spec.Seq) (lits : List Nat) (h h' : Spec.OffHist)
    (b : DBuf) (out' : Array Nat)
    (hov : ∀ s ∈ seqs, s.ov ≥ 1) (htot : b.totalOut ≤ b.content.size)
    (hspec : Spec.execSequences b.window b.dict seqs lits h b.content = some (out', h'))
    (hsize : out'.size - b.content.size ≤ Spec.blockMaxSize) :
    ∃ b', executeSequences seqs lits (h.r1, h.r2, h.r3) 0 b = ((b', (h'.r1, h'.r2, h'.r3)), .ok ()) ∧
      b'.content = out' ∧ b'.dict = b.dict ∧ b'.window = b.window ∧ b'.hashed = b.hashed ∧
      b'.totalOut ≤ b'.content.size := by
  have hsz := execSequences_size _ _ _ _ _ _ _ _ hspec
  have e1 : Spec.blockMaxSize = 131072 := by decide
  have e2 : Gen.maxBlockSize = 131072 := by decide
  obtain ⟨b', he, hr⟩ := executeSequences_refines_aux seqs lits h h' 0 b out' hov htot hspec (by omega)
  exact ⟨b', he, hr.content, hr.dict, hr.window, hr.hashed, hr.totalOut⟩

/-- `decompressBlock_refines`: a Compressed_Block body the Spec accepts (`decodeCompressedBlock`, incl. its
`Block_Maximum_Size` check) is decoded by the model's `decompress_block` to the same output with the
same entropy state afterwards (Huffman table, FSE tables, offset history) -/
theorem decompressBlock_refines (bytes : List Nat) (e e' : Spec.Entropy) (b : DBuf) (out' : Array Nat)
    (htot : b.totalOut ≤ b.content.size)
    (hs : Spec.decodeCompressedBlock b.window b.dict bytes e b.content = some (out', e')) :
    ∃ b', decompressBlock bytes e b = ((b', e'), .ok ()) ∧ b'.content = out' ∧ b'.dict = b.dict ∧
      b'.window = b.window ∧ b'.hashed = b.hashed ∧ b'.totalOut ≤ b'.content.size := by
  obtain ⟨b', h1, h2⟩ := Model.decompressBlock_refines bytes e e' b out' htot hs
  exact ⟨b', h1, h2.content, h2.dict, h2.window, h2.hashed, h2.totalOut⟩

/-- `frameHeader_refines`: whenever the Spec parses a frame header the model's `read_frame_header` reads
the same fields from the same number of bytes, and `window_size()` returns the Spec's window -/
theorem frameHeader_refines (bytes : List Nat) (hb : ∀ x ∈ bytes, x < 256) (h : Spec.FrameHeader)
    (hs : Spec.parseFrameHeader bytes = some h) :
    ∃ fh, readFrameHeader bytes = .ok (fh, h.hdrLen, bytes.drop h.hdrLen) ∧
      fh.windowSize = .ok h.window ∧ fh.dictId = h.dictId ∧ fh.checksumFlag = h.desc.checksum := by
  obtain ⟨fh, h1, h2, h3, h4, -, -⟩ := readFrameHeader_refines bytes hb h hs
  exact ⟨fh, h1, h2, h3, h4⟩

/-- `decodeBlocks_refines`: the block loop (`decode_blocks(All)`) follows the Spec's `decodeBlocks`
block by block — raw, RLE and compressed blocks, any number — ending in the code's last-block handling
(`finishFrame`: checksum read when flagged) with the Spec's output in the buffer and exactly the Spec's
byte count consumed -/
theorem decodeBlocks_refines {σ : Type} [BlockDec σ] [BlockContract σ] [RefinesSpec σ]
    (fuelS a c fuel : Nat) (bytes : List Nat) (hb : ∀ x ∈ bytes, x < 256)
    (e : Spec.Entropy) (st : FState σ) (out' : Array Nat) (consumed consumed' : Nat)
    (hf : bytes.length < fuel) (hent : RefinesSpec.coupled st.entropy e) (htot : st.buf.totalOut ≤ st.buf.content.size)
    (hs : Spec.decodeBlocks st.buf.window st.buf.dict fuelS bytes e st.buf.content consumed = some (out', consumed')) :
    ∃ st' n, consumed' = consumed + n ∧ n ≤ bytes.length ∧
      decodeBlocksLoop .all a c fuel st bytes = finishFrame st' (bytes.drop n) ∧
      st'.buf.content = out' ∧ st'.bytesRead = st.bytesRead + n := by
  obtain ⟨st', n, h1, h2, h3, h4, h5, -⟩ :=
    decodeBlocksLoop_refines fuelS a c fuel bytes hb e st out' consumed consumed' hf ⟨rfl, hent, htot⟩ hs
  exact ⟨st', n, h1, h2, h3, h4, h5⟩

/-- `decodeFrame_refines_partial` (C01 at the frame level, for EVERY block decoder with `BlockContract` and
`RefinesSpec` — the stand-in satisfies both, the faithful decoder modulo J's obligations): every frame
the Spec accepts — with dictionaries coupled to the decoder's (`DictsCoupled`; for the stand-in
`dictsCoupled_standIn`), window within the decoder's limit — is
decoded by `reset` + `decode_blocks(All)`: `Ok(true)`, the buffer holds exactly the Spec's content,
`is_finished()`, `bytes_read_from_source()` = the Spec's frame length, the source left is the input
minus exactly that, the stored checksum is the frame's (which the Spec has verified to be
`low32(XXH64(content))`), nothing hashed yet.  `collect()` then hands out the content (C06/C08).
`C01_full` is this theorem at the executable instance, through `decode_all` as well
(`decoder_reproduces_content` at the end of this file). -/
theorem decodeFrame_refines_partial {σ : Type} [BlockDec σ] [BlockContract σ] [RefinesSpec σ]
    (d : Decoder σ) (sdicts : List Spec.Dict) (hdc : DictsCoupled d.dicts sdicts)
    (f : List Nat) (hb : ∀ x ∈ f, x < 256) (r : Spec.FrameResult)
    (hs : Spec.decodeFrame f sdicts = some r) (hlim : r.header.window ≤ d.maxWindow) :
    ∃ d0 d1 rest st1, d.reset f = (d0, .ok rest) ∧
      d0.decodeBlocks rest .all = (d1, .ok (f.drop r.consumed, true)) ∧ d1.state = some st1 ∧
      st1.buf.content.toList = r.content ∧ d1.isFinished = true ∧ st1.bytesRead = r.consumed ∧
      st1.checksum = r.checksum ∧ st1.buf.hashed = #[] ∧ r.consumed ≤ f.length :=
  decodeFrame_refines d sdicts hdc f hb r hs hlim

/-- `decoder_reproduces_content_any_schedule_partial`: C01 + C06 composed — for every frame the Spec
accepts and every documented driver program (any decode strategies / budgets, any interleaving of
collect / read / collect_to_writer with any sink), the bytes delivered are a prefix of the original
content, and all of it once the frame is finished and drained.  Partial only in that the executable
model uses the Spec's entropy decoders as stand-ins (see `decodeFrame_refines_partial`). -/
theorem decoder_reproduces_content_any_schedule_partial {σ : Type} [BlockDec σ] [BlockContract σ] [RefinesSpec σ]
    (d : Decoder σ) (sdicts : List Spec.Dict) (hdc : DictsCoupled d.dicts sdicts) (f : List Nat) (hb : ∀ x ∈ f, x < 256)
    (r : Spec.FrameResult) (hs : Spec.decodeFrame f sdicts = some r)
    (hlim : r.header.window ≤ d.maxWindow) (ops : List SOp) :
    ∃ d0 rest, d.reset f = (d0, .ok rest) ∧ (DocOk d0 rest ops →
      (runSched d0 rest ops).2.2.2 = none ∧
      ∃ st tail, (runSched d0 rest ops).1.state = some st ∧
        r.content = ((runSched d0 rest ops).2.2.1 ++ st.buf.content ++ tail).toList ∧
        (st.finished = true → st.buf.content = #[] → (runSched d0 rest ops).2.2.1.toList = r.content)) := by
  obtain ⟨d0, rest, hres, h⟩ := Model.valid_frame_any_schedule d sdicts hdc f hb r hs hlim ops
  refine ⟨d0, rest, hres, fun hdoc => ?_⟩
  obtain ⟨h1, st, tail, hst, hh, hc, hfin⟩ := h hdoc
  refine ⟨h1, st, tail, hst, by rw [← hh]; exact hc, ?_⟩
  intro hf hempty
  obtain ⟨ht, -⟩ := hfin hf
  rw [hc, ht, hempty, hh]; simp

/-- non-vacuity: the Spec accepts this frame (single segment, raw block "abc", no checksum) -/
example : (Spec.decodeFrame [0x28, 0xB5, 0x2F, 0xFD, 0x20, 3, 0x19, 0, 0, 97, 98, 99] []).map (·.content) = some [97, 98, 99] := by
  decide +kernel

/-- why `C01_full` asks for `r.consumed = f.length`: trailing bytes after a valid frame are ignored by
`Spec.decodeFrame` but rejected by `decode_all` -/
example : (Spec.decodeFrame [0x28, 0xB5, 0x2F, 0xFD, 0x20, 3, 0x19, 0, 0, 97, 98, 99, 0] []).map (·.content) = some [97, 98, 99] ∧
    ((({} : DecA).decodeAll [0x28, 0xB5, 0x2F, 0xFD, 0x20, 3, 0x19, 0, 0, 97, 98, 99, 0] 3).2.isOk) = false := by
  decide +kernel

/-- non-vacuity of `executeSequences_refines`: literals "ab", then a match of length 4 at offset 2 -/
example : Spec.execSequences 1024 #[] [⟨2, 4, 5⟩] [97, 98, 99] ⟨1, 4, 8⟩ #[] = some (#[97, 98, 97, 98, 97, 98, 99], ⟨2, 1, 4⟩) := by
  decide +kernel

/-- non-vacuity: a raw last block header of size 4 -/
example : Model.parseBlockHeader 0x21 0 0 = .ok ⟨true, 0, 4, 4⟩ := by decide


/-! ## block level: the faithful model `Blk.decompressBlock` refines `Spec.decodeCompressedBlock`

The model side is `Zstd/Model/BlockDecode.lean` (statement-by-statement mirror of `decompress_block`,
`decode_literals`, `decode_sequences`, `maybe_update_fse_tables`, both sequence loops; engine `blk`
compares it with the real code block by block).  The entropy states are related by
`Proofs.Blk.Coupled` (Huffman table: same cells; each FSE channel: the Spec's table in force is the
model's built table, or the one-state table of the model's RLE symbol; same offset history).
Helper lemmas: `Proofs/BlkLitRefines` (headers), `Proofs/BlkSeqTables` (table modes),
`Proofs/BlkSeqStream` (bitstream), `Proofs/BlockRefines` (composition). -/

open Zstd.Proofs.Blk Zstd.Proofs.BitIO in
/-- **sequences section** — all four modes per table (Predefined, RLE, FSE_Compressed, Repeat), every
sequence-count encoding, the interleaved three-state bitstream with up to 31 + 16 + 16 extra bits per
sequence: what `Spec.decodeSequences` yields, `parse_from_header` + `decode_sequences` yield, and the
tables left in the scratch are again coupled with the Spec's tables in force -/
theorem decodeSequences_refines {bytes : List Nat} (hb : Bytes bytes) {e e' : Spec.Entropy}
    {s : Blk.FseScratch} {seqs : List Spec.Seq} (hc : FseCoupled e s)
    (hs : Spec.decodeSequences bytes e = some (seqs, e')) :
    ∃ n modes shLen, parseSeqHeader bytes = .ok (n, modes, shLen) ∧
      (n = 0 → seqs = [] ∧ e' = e ∧ (bytes.drop shLen).isEmpty = true) ∧
      (n ≠ 0 → ∃ s', Blk.decodeSequences n modes (bytes.drop shLen) s = (s', .ok seqs) ∧ FseCoupled e' s' ∧
        e'.huf = e.huf ∧ e'.hist = e.hist) :=
  Zstd.Proofs.Blk.decodeSequences_refines hb hc hs

open Zstd.Proofs.Blk Zstd.Proofs.BitIO in
/-- **literals header**: the code's `parse_from_header` returns the RFC's fields (for the transcription
`Spec.parseLitHeader` that `Spec.decodeLiterals` uses; the two transcriptions of §3.1.1.3.1.1 agree:
`Proofs.Blk.specLitHeader_agree`) -/
theorem literalsHeader_refines {bs : List Nat} (hb : Bytes bs) {H : Spec.LitHeader}
    (h : Spec.parseLitHeader bs = some H) :
    ∃ sec, Hdr.parseLitHeader Hdr.LitSection.new bs = .ok (sec, H.hdrLen) ∧ sec.ty = H.ltype ∧ sec.regen = H.regen ∧
      (H.ltype < 2 → sec.comp = none) ∧
      (¬ H.ltype < 2 → sec.comp = some H.comp ∧ sec.streams = some H.streams) :=
  parseLitHeader_refines hb h

open Zstd.Proofs.Blk Zstd.Proofs.BitIO in
/-- **Raw and RLE literals** (all size formats): header, `upper_limit_for_literals`, the length check
and `decode_literals` deliver exactly the Spec's literals, the byte count, and leave the Huffman table
alone -/
theorem decodeLiterals_refines_raw_rle {bytes : List Nat} (hb : Bytes bytes)
    {prev huf' : Option Spec.Huffman.Table} {lits : List Nat} {used : Nat} {t : Huf.DecTable}
    (hc : HufCoupled prev t) (hs : Spec.decodeLiterals bytes prev = some (lits, used, huf'))
    (hty : ∀ H, Spec.parseLitHeader bytes = some H → H.ltype < 2) :
    LitStage bytes t lits used huf' :=
  Zstd.Proofs.Blk.decodeLiterals_refines_raw_rle hb hc hs hty

/-- the literals stage for all four section types (a theorem: `blk_decodeLiterals_refines` below) -/
def decodeLiterals_refines_full : Prop := Zstd.Proofs.Blk.decodeLiterals_refines_full

open Zstd.Proofs.Blk in
/-- **Huffman-coded literals, as far as C13 reaches**: for every weight list the Spec accepts, the
table `build_table_from_weights` builds is coupled with the Spec's (`huf_table_eq_canonical`: same
`Max_Number_of_Bits`, same cells) and well formed for the stream decoder (`HufBuilt`: every cell
consumes 1..max bits, `2^max` cells).  (Kept under its `_partial` name; the rest of the Huffman
literals stage — `read_weights` = `Spec.Huffman.readWeights` in both forms, the one- and four-stream
loops against `Spec.Huffman.decodeStream` — is `decodeLiterals_refines_huffman` below.) -/
theorem decodeLiterals_refines_huffman_table_partial (t : Huf.DecTable) (T : Spec.Huffman.Table)
    (hspec : Spec.Huffman.tableOfWeights t.weights = some T) :
    ∃ t', Huf.buildTableFromWeights t = (t', .ok ()) ∧ HufCoupled (some T) t' := by
  obtain ⟨t', hb, hm, _, _, hcells⟩ := Zstd.Props.C13.huf_table_eq_canonical t T hspec
  have hlen : t.weights.length ≤ 257 := by
    unfold Spec.Huffman.tableOfWeights at hspec
    cases hc : Spec.Huffman.completeWeights t.weights with
    | none => rw [hc] at hspec; cases hspec
    | some p =>
      obtain ⟨m, all⟩ := p
      rw [hc] at hspec
      simp only at hspec
      obtain ⟨_, _, hall⟩ := (Zstd.Props.C13.spec_complete_iff _ _ _).mp hc
      by_cases hl : all.length > 256
      · rw [if_pos hl] at hspec; cases hspec
      · rw [hall] at hl; simp at hl; omega
  have hbuilt := buildTableFromWeights_ok hlen hb
  refine ⟨t', hb, Or.inr hbuilt, ?_⟩
  intro T' hT
  simp only [Option.some.injEq] at hT
  subst hT
  exact ⟨hbuilt, hm, hcells⟩

open Zstd.Proofs.Blk Zstd.Proofs.BitIO Zstd.Proofs.DictCopy in
/-- **the block, given the literals stage** (`_partial`: the hypothesis `hlit` is discharged for Raw/RLE
literals by `decompressBlock_refines_raw_rle` and in general by `blk_decodeLiterals_refines`; the
hypothesis-free statement is `blk_decompressBlock_refines`): whenever the RFC semantics decodes the compressed block `bytes` in
entropy state `e` on top of the output `out` (window and dictionary rules included), the code, in a
coupled state with a buffer holding that output's tail, returns `Ok`, has appended the same bytes, and
leaves the same offset history and coupled tables for the next block -/
theorem decompressBlock_refines_partial {window : Nat} {dict : Array Nat} {bytes : List Nat}
    {e e' : Spec.Entropy} {out out' : Array Nat} {s : Blk.Scratch} {b : DBuf}
    (hb : Bytes bytes) (hc : Coupled e s)
    (hd : b.dict = dict) (hw : b.window = window) (hout : b.hashed ++ b.content = out)
    (hco : CounterOk b) (hre : Retained b)
    (hs : Spec.decodeCompressedBlock window dict bytes e out = some (out', e'))
    (hlit : ∀ lits used huf', Spec.decodeLiterals bytes e.huf = some (lits, used, huf') →
      LitStage bytes s.huf lits used huf') :
    ∃ s' b' lits seqs, Blk.decompressBlock bytes s b = ((s', b', lits, seqs), .ok) ∧ Coupled e' s' ∧
      b'.hashed = b.hashed ∧ b.hashed ++ b'.content = out' ∧ b'.dict = dict ∧ b'.window = window ∧
      CounterOk b' ∧ Retained b' :=
  decompressBlock_refines_of_litStage hb hc hd hw hout hco hre hs hlit

open Zstd.Proofs.Blk Zstd.Proofs.BitIO Zstd.Proofs.DictCopy in
/-- **blocks whose literals are Raw or RLE: full refinement, no hypothesis left** -/
theorem decompressBlock_refines_raw_rle {window : Nat} {dict : Array Nat} {bytes : List Nat}
    {e e' : Spec.Entropy} {out out' : Array Nat} {s : Blk.Scratch} {b : DBuf}
    (hb : Bytes bytes) (hc : Coupled e s)
    (hd : b.dict = dict) (hw : b.window = window) (hout : b.hashed ++ b.content = out)
    (hco : CounterOk b) (hre : Retained b)
    (hs : Spec.decodeCompressedBlock window dict bytes e out = some (out', e'))
    (hty : ∀ H, Spec.parseLitHeader bytes = some H → H.ltype < 2) :
    ∃ s' b' lits seqs, Blk.decompressBlock bytes s b = ((s', b', lits, seqs), .ok) ∧ Coupled e' s' ∧
      b'.hashed = b.hashed ∧ b.hashed ++ b'.content = out' ∧ b'.dict = dict ∧ b'.window = window ∧
      CounterOk b' ∧ Retained b' :=
  Zstd.Proofs.Blk.decompressBlock_refines_raw_rle hb hc hd hw hout hco hre hs hty

/-- the full block statement (every literals type) … -/
def decompressBlock_refines_full : Prop := Zstd.Proofs.Blk.decompressBlock_refines_full

/-- … follows from the full literals stage alone -/
theorem decompressBlock_refines_full_of_literals (h : decodeLiterals_refines_full) :
    decompressBlock_refines_full :=
  Zstd.Proofs.Blk.decompressBlock_refines_full_of_literals h

open Zstd.Proofs.Blk Zstd.Proofs.BitIO in
/-- **Huffman-coded literals** (Compressed and Treeless sections, one stream or four streams with the
jump table, tree description in direct or FSE-compressed form): `decode_literals` delivers the Spec's
literals and byte count and leaves a table coupled with the Spec's table in force -/
theorem decodeLiterals_refines_huffman {bytes : List Nat} (hb : Bytes bytes)
    {prev huf' : Option Spec.Huffman.Table} {lits : List Nat} {used : Nat} {t : Huf.DecTable}
    (hc : HufCoupled prev t) (hs : Spec.decodeLiterals bytes prev = some (lits, used, huf'))
    (hty : ∀ H, Spec.parseLitHeader bytes = some H → ¬ H.ltype < 2) :
    LitStage bytes t lits used huf' :=
  Zstd.Proofs.Blk.decodeLiterals_refines_huffman hb hc hs hty

/-- **`decodeLiterals_refines_full` holds**: the literals stage for all four section types -/
theorem blk_decodeLiterals_refines : decodeLiterals_refines_full :=
  Zstd.Proofs.Blk.decodeLiterals_refines_full_proved

/-- **`decompressBlock_refines_full` holds**: for every block the RFC semantics decodes — Raw, RLE,
Compressed or Treeless literals in one or four streams and every size format, Predefined / RLE /
FSE_Compressed / Repeat sequence tables, repeat offsets, overlapping matches, dictionary reach-back —
`decompress_block` returns `Ok`, has appended the same bytes to the decode buffer, and leaves the
same offset history and an entropy state coupled with the Spec's for the next block -/
theorem blk_decompressBlock_refines : decompressBlock_refines_full :=
  Zstd.Proofs.Blk.decompressBlock_refines_full_proved

/-- non-vacuity: the Spec accepts a compressed block with Raw literals `abcd` and one sequence in RLE
modes (literal length 4, match length 3, offset 1) on the initial state, which is coupled with a
fresh scratch; its literals header is of type Raw -/
example : (Spec.decodeCompressedBlock 1024 #[] [0x20, 0x61, 0x62, 0x63, 0x64, 0x01, 0x54, 0x04, 0x02, 0x00, 0x04]
      {} #[]).isSome = true ∧ Zstd.Proofs.Blk.Coupled {} {} ∧
    (∀ H, Spec.parseLitHeader [0x20, 0x61, 0x62, 0x63, 0x64, 0x01, 0x54, 0x04, 0x02, 0x00, 0x04] = some H → H.ltype < 2) := by
  refine ⟨by decide +kernel, Zstd.Proofs.Blk.coupled_fresh, ?_⟩
  intro H h
  have : H = ⟨0, 4, 0, 0, 1⟩ := by
    have e : Spec.parseLitHeader [0x20, 0x61, 0x62, 0x63, 0x64, 0x01, 0x54, 0x04, 0x02, 0x00, 0x04] = some ⟨0, 4, 0, 0, 1⟩ := by
      decide +kernel
    rw [e] at h; cases h; rfl
  subst this; decide

/-- non-vacuity of `blk_decompressBlock_refines` for Huffman-coded literals: the only block of a real
libzstd frame (zstd level 19 on 180 bytes of English text; Compressed literals, single stream, tree
description in the FSE-compressed form, FSE_Compressed sequence tables) is accepted by the Spec on the
initial entropy state, which is coupled with a fresh scratch -/
example : (Spec.decodeCompressedBlock 1024 #[]
      [34, 134, 18, 18, 144, 207, 1, 96, 131, 13, 54, 216, 34, 139, 12, 250, 255, 255, 224, 250, 131, 28, 135, 145, 225, 151, 132, 156, 76, 211, 51, 191, 120, 4, 216, 71, 98, 151, 236, 1, 238, 120, 200, 16, 180, 224, 142, 95, 220, 241, 99, 129, 23, 54, 110, 47, 72, 231, 142, 127, 60, 217, 97, 83, 242, 188, 50, 242, 69, 217, 11, 71, 194, 72, 119, 238, 24, 5, 0, 210, 131, 156, 58, 91, 48, 10, 243, 86, 13, 33, 9, 19, 10]
      {} #[]).isSome = true ∧ Zstd.Proofs.Blk.Coupled {} {} :=
  ⟨by decide +kernel, Zstd.Proofs.Blk.coupled_fresh⟩

/-! ### instance B: the decoder the drivers run

For `DecB` — the frame-level model over the FAITHFUL block decoder, which engine `dec` compares with
the real code line by line on valid and malformed frames — the frame-level refinement follows from the
block-level one (`blk_decompressBlock_refines` above) through `RefinesObligation` /
`instRefinesSpecFaithful` (Proofs/FrameFaithful.lean).  No stand-in and no hypothesis is left: the
model in the theorem is the model the engine runs. -/

/-- **C01 for the faithful model, with dictionaries**: every frame the Spec accepts — with any
dictionaries the decoder's registered ones are coupled with, window within the decoder's limit — is
decoded by `reset` + `decode_blocks(All)`: `Ok(true)`, the buffer holds exactly the Spec's content,
`is_finished()`, consumed = the frame's length, the stored checksum is the frame's -/
theorem decodeFrame_refines_faithful_dicts (d : DecB) (sdicts : List Spec.Dict) (hdc : DictsCoupled d.dicts sdicts)
    (f : List Nat) (hb : ∀ x ∈ f, x < 256) (r : Spec.FrameResult)
    (hs : Spec.decodeFrame f sdicts = some r) (hlim : r.header.window ≤ d.maxWindow) :
    ∃ d0 d1 rest st1, d.reset f = (d0, .ok rest) ∧
      d0.decodeBlocks rest .all = (d1, .ok (f.drop r.consumed, true)) ∧ d1.state = some st1 ∧
      st1.buf.content.toList = r.content ∧ d1.isFinished = true ∧ st1.bytesRead = r.consumed ∧
      st1.checksum = r.checksum ∧ st1.buf.hashed = #[] ∧ r.consumed ≤ f.length :=
  decodeFrame_refines_partial d sdicts hdc f hb r hs hlim

/-- **C01 for the faithful model**, decoder without dictionaries -/
theorem decodeFrame_refines_faithful (d : DecB) (hnd : d.dicts = [])
    (f : List Nat) (hb : ∀ x ∈ f, x < 256) (r : Spec.FrameResult)
    (hs : Spec.decodeFrame f [] = some r) (hlim : r.header.window ≤ d.maxWindow) :
    ∃ d0 d1 rest st1, d.reset f = (d0, .ok rest) ∧
      d0.decodeBlocks rest .all = (d1, .ok (f.drop r.consumed, true)) ∧ d1.state = some st1 ∧
      st1.buf.content.toList = r.content ∧ d1.isFinished = true ∧ st1.bytesRead = r.consumed ∧
      st1.checksum = r.checksum ∧ st1.buf.hashed = #[] ∧ r.consumed ≤ f.length :=
  decodeFrame_refines_partial d [] (by rw [hnd]; exact .nil) f hb r hs hlim

/-- C01 for EVERY block decoder satisfying the contracts (both instances do): a frame the Spec accepts,
given alone — `decode_all` returns exactly the content; `reset` + `decode_blocks(All)` + `collect()`
hand out exactly the content -/
theorem decoder_reproduces_content_of_contract {σ : Type} [BlockDec σ] [BlockContract σ] [RefinesSpec σ]
    (d : Decoder σ) (sdicts : List Spec.Dict) (hdc : DictsCoupled d.dicts sdicts)
    (f : List Nat) (hb : ∀ x ∈ f, x < 256) (r : Spec.FrameResult)
    (hs : Spec.decodeFrame f sdicts = some r) (hcons : r.consumed = f.length) (hlim : r.header.window ≤ d.maxWindow) :
    (∀ room, r.content.length ≤ room → ∃ d', d.decodeAll f room = (d', .ok r.content.toArray)) ∧
    (∃ d0 rest d1, d.reset f = (d0, .ok rest) ∧ d0.decodeBlocks rest .all = (d1, .ok ([], true)) ∧
      d1.isFinished = true ∧ (d1.collect).2 = some r.content.toArray ∧ (d1.collect).1.canCollect = 0) := by
  refine ⟨fun room hroom => Decoder.decodeAll_valid_frame d sdicts hdc f hb r hs hlim hcons room hroom, ?_⟩
  obtain ⟨d0, rest, d1, h1, h2, h3, h4, h5⟩ := Decoder.reset_blocks_collect_valid_frame d sdicts hdc f hb r hs hlim
  refine ⟨d0, rest, d1, h1, ?_, h3, h4, h5⟩
  rw [h2, hcons]; simp

/-- **`C01_full` holds.** -/
theorem decoder_reproduces_content : C01_full :=
  fun f r hb hs hcons hlim => decoder_reproduces_content_of_contract ({} : DecB) [] .nil f hb r hs hcons hlim

/-- **`C01_full_dicts` holds**: dictionaries registered from parsed bytes need no coupling hypothesis
(`registerDicts_coupled`, from `decodeDict_refines`: the code parses every dictionary the Spec parses, to
coupled tables, the same content, offsets and id) -/
theorem decoder_reproduces_content_dicts : C01_full_dicts := by
  intro raws f r hraws hb hs hcons hlim
  have hdc := registerDicts_coupled ({} : DecB) [] raws (fun raw h => (hraws raw h).1) (fun raw h => (hraws raw h).2) .nil
  have hmw : (registerDicts ({} : DecB) raws).maxWindow = ({} : DecB).maxWindow := (registerDicts_state _ raws).2
  exact decoder_reproduces_content_of_contract _ _ hdc f hb r hs hcons (by rw [hmw]; exact hlim)

/-- the statement as it read over the Spec stand-in (instance A), with the hypothesis it needed -/
theorem decoder_reproduces_content_standIn (f : List Nat) (r : Spec.FrameResult) (hb : ∀ x ∈ f, x < 256)
    (hs : Spec.decodeFrame f [] = some r) (hcons : r.consumed = f.length)
    (hlim : r.header.window ≤ ({} : DecA).maxWindow) :
    ∃ d' out, (({} : DecA).decodeAll f r.content.length) = (d', .ok out) ∧ out.toList = r.content := by
  obtain ⟨d', h⟩ := (decoder_reproduces_content_of_contract ({} : DecA) [] .nil f hb r hs hcons hlim).1 _ (Nat.le_refl _)
  exact ⟨d', _, h, by simp⟩

/-- non-vacuity of `C01_full`: the frame of the first example is exactly one frame, within the limit -/
example : ∃ r, Spec.decodeFrame [0x28, 0xB5, 0x2F, 0xFD, 0x20, 3, 0x19, 0, 0, 97, 98, 99] [] = some r ∧
    r.consumed = 12 ∧ r.header.window ≤ ({} : DecB).maxWindow ∧ r.content = [97, 98, 99] := by
  refine ⟨_, rfl, ?_⟩
  decide +kernel

end Zstd.Props.C01
