import Zstd.Model.FrameDecoder
/-
C01 — the decoder reproduces the original data for every valid frame.

`Spec.decodeFrame f = some r` IS "f is a conforming encoding of r.content" (RFC 8878 transcription,
validated against libzstd).  The property is the refinement `Spec ok ⇒ Model delivers the same
bytes and metadata`; it is proved component by component.  This file holds the frame-level
components; the entropy stages (FSE: C12, Huffman: C13) and the sequence execution
(`executeSequences_refines`) are in their own files, and the composed statement is `C01_full`
below (kept visible; see `decodeFrame_refines_partial` for what is proved of it so far).
-/
namespace Zstd.Props.C01
open Zstd Zstd.Model

/-- the full statement: every frame the Spec accepts is decoded by the model to the same content,
consuming the same number of bytes, with the declared metadata, however it is driven (C06) -/
def C01_full : Prop :=
  ∀ (f : List Nat) (r : Spec.FrameResult), Spec.decodeFrame f = some r →
    ∃ d' out, (({} : Decoder).decodeAll f r.content.length) = (d', .ok out) ∧ out.toList = r.content

/-- block headers: on every 3-byte pattern the model (table and guard from the source) agrees with
the RFC bit-fields, and accepts exactly the legal ones (type ≠ reserved, size ≤ 128 KiB) -/
theorem blockHeader_refines (b0 b1 b2 : Nat) (h0 : b0 < 256) (h1 : b1 < 256) (h2 : b2 < 256) :
    let s := Spec.parseBlockHeader b0 b1 b2
    (s.btype ≠ 3 ∧ s.size ≤ Spec.blockMaxSize →
      Model.parseBlockHeader b0 b1 b2 = .ok
        { last := s.last, btype := s.btype,
          decompressedSize := if s.btype = 2 then 0 else s.size,
          contentSize := if s.btype = 1 then 1 else s.size }) ∧
    (s.btype = 3 → Model.parseBlockHeader b0 b1 b2 = .error .reservedBlock) ∧
    (s.btype ≠ 3 ∧ s.size > Spec.blockMaxSize →
      Model.parseBlockHeader b0 b1 b2 = .error (.blockSizeTooLarge s.size)) := by
  have hsz : (b0 + 256 * b1 + 65536 * b2) / 8 = b0 / 8 + b1 * 32 + b2 * 8192 := by omega
  have hty : (b0 + 256 * b1 + 65536 * b2) / 2 % 4 = b0 / 2 % 4 := by omega
  have hla : (b0 + 256 * b1 + 65536 * b2) % 2 = b0 % 2 := by omega
  have htl : b0 / 2 % 4 < 4 := Nat.mod_lt _ (by decide)
  simp only [Spec.parseBlockHeader, Model.parseBlockHeader, Spec.blockMaxSize, hsz, hty, hla]
  generalize b0 / 2 % 4 = t at htl
  generalize b0 / 8 + b1 * 32 + b2 * 8192 = sz
  have ht : t = 0 ∨ t = 1 ∨ t = 2 ∨ t = 3 := by omega
  rcases ht with rfl | rfl | rfl | rfl <;>
    simp [lookupNat, Gen.blockTypeMap, Gen.blockSizeTooLarge, Gen.maxBlockSize] <;>
    omega

/-- window descriptor: for every descriptor byte the model's window equals the RFC formula, and it
is accepted exactly when the RFC's legal range contains it -/
theorem window_refines (desc : Nat) (hd : desc < 256) (dsc fcs : Nat) (did : Option Nat)
    (hs : dsc / 32 % 2 = 0) :
    let h : FHeader := ⟨dsc, desc, did, fcs⟩
    let w := Spec.windowSize desc
    (Spec.windowMin ≤ w ∧ w ≤ Spec.windowMax → h.windowSize = .ok w) ∧
    (w < Spec.windowMin → h.windowSize = .error (.windowTooSmall w)) ∧
    (w > Spec.windowMax → h.windowSize = .error (.windowTooBig w)) := by
  have hs' : (decide (dsc / 32 % 2 = 1)) = false := by simp [hs]
  simp only [FHeader.windowSize, FHeader.singleSegment, hs', Spec.windowSize, Spec.windowMin, Spec.windowMax,
    Gen.windowMinOk, Gen.windowMaxOk, Gen.minWindowSize, Gen.maxWindowSize]
  generalize 2 ^ (10 + desc / 8) + 2 ^ (10 + desc / 8) / 8 * (desc % 8) = w
  refine ⟨?_, ?_, ?_⟩
  · intro h
    have a : w ≥ 1024 := by omega
    have b : w ≤ 4123168604160 := by omega
    simp [a, b]
  · intro h
    have a : ¬ w ≥ 1024 := by omega
    simp [a]
  · intro h
    have a : w ≥ 1024 := by omega
    have b : ¬ w ≤ 4123168604160 := by omega
    simp [a, b]

/-- the only fault site of the frame level (`offset_value - 3` underflow in `do_offset_history`)
is unreachable for offset values the sequence decoder can produce (`2^code + extra ≥ 1`) -/
theorem doOffsetHistory_no_fault (ov ll : Nat) (h : Nat × Nat × Nat) (hov : ov ≥ 1) :
    ∃ r, doOffsetHistory ov ll h = .ok r := by
  unfold doOffsetHistory
  obtain ⟨a, b, c⟩ := h
  have : ov ≠ 0 := by omega
  simp [this]

theorem offsetValue_pos (c e : Nat) : Spec.offsetValue c e ≥ 1 := by
  unfold Spec.offsetValue
  have := Nat.two_pow_pos c
  omega

/-- the offset-history step of the code is the RFC's rule (model side proved equal to
`Spec.repeatOffsets` for every offset value, both literal-length cases, every history) -/
theorem offsetHistory_refines (ov ll : Nat) (h : Spec.OffHist) (hov : ov ≥ 1) :
    doOffsetHistory ov ll (h.r1, h.r2, h.r3) =
      .ok ((Spec.repeatOffsets ov (ll = 0) h).1,
           ((Spec.repeatOffsets ov (ll = 0) h).2.r1, (Spec.repeatOffsets ov (ll = 0) h).2.r2,
            (Spec.repeatOffsets ov (ll = 0) h).2.r3)) := by
  unfold doOffsetHistory Spec.repeatOffsets
  have h0 : ov ≠ 0 := by omega
  simp only [h0, ↓reduceIte]
  by_cases hll : ll = 0
  · subst hll
    by_cases h3 : ov > 3
    · have : ¬ ov = 1 := by omega
      have : ¬ ov = 2 := by omega
      have : ¬ ov = 3 := by omega
      simp [*]
    · have : ov = 1 ∨ ov = 2 ∨ ov = 3 := by omega
      rcases this with rfl | rfl | rfl <;> simp
  · have hpos : ll > 0 := by omega
    by_cases h3 : ov > 3
    · have : ¬ ov = 1 := by omega
      have : ¬ ov = 2 := by omega
      have : ¬ ov = 3 := by omega
      simp [*]
    · have : ov = 1 ∨ ov = 2 ∨ ov = 3 := by omega
      rcases this with rfl | rfl | rfl <;> simp [hpos, hll]

/-- non-vacuity: a raw last block header of size 4 -/
example : Model.parseBlockHeader 0x21 0 0 = .ok ⟨true, 0, 4, 4⟩ := by decide

end Zstd.Props.C01
