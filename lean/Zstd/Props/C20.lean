import Zstd.Proofs.DictBuilder
/-
C20 — The dictionary builder terminates without panicking and writes no more than the requested size.

Model: `Zstd.Model.DictBuilder.run` (lengths only; scoring, heap order and `fastrand` are arbitrary
parameters; the source is any byte count with any script of short reads).  The constants (16, 2048,
256, 128 000, 100, K = 16, 10 000) and the presence of each guard are extracted from the source on
every run; `src_constants_sane` / `src_is_repaired` evaluate on them, so removing a guard (F7: pool
trimming + truncating write-out + `take(dict_size)`; F9: early return on an empty sample; F11: the
`u32` truncation of the size estimate) makes the theorems below fail.
-/
namespace Zstd.Props.C20
open Zstd Zstd.Model.DictBuilder Zstd.Proofs.DictBuilder

/-- the constants of today's source satisfy what the arithmetic needs (segment size ≥ 2 and not
truncated, K ≥ 1, K ≤ the small-source limit, reservoir minimum ≤ sample minimum, …) -/
theorem src_constants_sane : sane srcCfg = true := by decide

/-- today's source has the guards of the repairs of F7 and F9 (FALSE on the unrepaired tree) -/
theorem src_is_repaired : repaired srcCfg = true := by decide

/-- every division of the parameter derivation (`mod.rs:148-166`, `cover.rs:123-130`) has a non-zero
divisor, for every size estimate that takes the sampled path and every dictionary size; the segment
size is non-zero (so `chunks(segment_size)` does not panic) and the reservoir's size assertion holds -/
theorem divisors_nonzero (est dict : Nat) (h : srcCfg.smallLimit ≤ est) :
    ∃ p, params srcCfg est dict = .ok p ∧ p.seg ≠ 0 ∧ srcCfg.reservoirMin ≤ p.sampleSize :=
  params_ok srcCfg src_constants_sane est dict h

example : params srcCfg 20000 64 = .ok ⟨2048, 9, 78, 1250⟩ := by decide

/-- the builder terminates: the fuel `2·|source| + 4` is never exhausted by any of its loops, for
every source length, every pattern of short reads, every estimate, dictionary size, RNG script,
scoring function and heap order -/
theorem builder_terminates (src : Src) (est dict : Nat) (rng : List (Nat × Nat)) (pick : Nat → Nat) (heap : List Nat) (l : String) :
    run srcCfg (fuelFor src) src est dict rng pick heap ≠ .error (.outOfFuel l) := by
  obtain ⟨r, h, _⟩ := run_ok srcCfg src_constants_sane src_is_repaired src est dict rng pick heap
  rw [h]; simp

/-- … without reaching any panic site of the model (division by zero, `fastrand::usize(0..0)`,
`expect("at least one segment")`, `chunks(0)`, the `Reservoir::new` assertion, the epoch assertion,
`pool_size - lowest_len` underflow) -/
theorem builder_noFault (src : Src) (est dict : Nat) (rng : List (Nat × Nat)) (pick : Nat → Nat) (heap : List Nat) (f : Fault) :
    run srcCfg (fuelFor src) src est dict rng pick heap ≠ .error (.fault f) := by
  obtain ⟨r, h, _⟩ := run_ok srcCfg src_constants_sane src_is_repaired src est dict rng pick heap
  rw [h]; simp

/-- … and writes at most `dict_size` bytes -/
theorem size_bound (src : Src) (est dict : Nat) (rng : List (Nat × Nat)) (pick : Nat → Nat) (heap : List Nat) :
    ∃ r, run srcCfg (fuelFor src) src est dict rng pick heap = .ok r ∧ r.written ≤ dict := by
  obtain ⟨r, h, hb, _⟩ := run_ok srcCfg src_constants_sane src_is_repaired src est dict rng pick heap
  exact ⟨r, h, hb⟩

/-- the length written, exactly: the small path copies `min(|source|, dict_size)` bytes; the sampled
path writes `min(bytes in the pool, dict_size)` -/
theorem output_len_eq (src : Src) (est dict : Nat) (rng : List (Nat × Nat)) (pick : Nat → Nat) (heap : List Nat) :
    ∃ r, run srcCfg (fuelFor src) src est dict rng pick heap = .ok r ∧
      (est < srcCfg.smallLimit → r.written = min src.remaining dict) ∧
      (srcCfg.smallLimit ≤ est → r.written = min r.poolBytes dict) := by
  obtain ⟨r, h, _, h1, h2⟩ := run_ok srcCfg src_constants_sane src_is_repaired src est dict rng pick heap
  exact ⟨r, h, h1, h2⟩

example : run srcCfg (fuelFor ⟨3000, []⟩) ⟨3000, []⟩ 3000 40 [] (fun _ => 0) [] = .ok ⟨40, 16, 3, 48⟩ := by decide +kernel
/-- a reader that returns 7 bytes twice makes `Reservoir::fill` overshoot its 16-byte lake (7 + 7 + … ≠ 16):
it then consumes the whole source as "sample" and the dictionary is empty — within the bound, but useless -/
example : run srcCfg (fuelFor ⟨3000, [7, 7]⟩) ⟨3000, [7, 7]⟩ 3000 64 [] (fun _ => 0) [] = .ok ⟨0, 3000, 0, 0⟩ := by decide +kernel

/-! ### the code before the repairs, as regression witnesses (they compile on every tree) -/

def beforeRepair : Cfg :=
  { smallLimit := 16, smallPathTakesDictSize := false, smallPathTruncates := false, bufCap := 128000,
    maxSegment := 2048, segmentTruncatesU32 := true, minSample := 16, sampleDivCap := 256, epochBuf := 100,
    emptySampleReturns := false, poolTrimmed := false, writeSkipsExcess := false, kmer := 16,
    minEpochSize := 10000, emptyLakeReturns := false, reservoirMin := 16 }

/-- F9: an empty source with an estimate ≥ 16 reached `fastrand::usize(0..0)` -/
theorem f9_before_repair :
    run beforeRepair (fuelFor ⟨0, []⟩) ⟨0, []⟩ 100 64 [] (fun _ => 0) [] =
      .error (.fault (.assert "fastrand::usize(0..0):reservoir.rs:lake_chunks[..]")) := by decide

/-- F7: a 20 000-byte source with `dict_size = 64` wrote 15 600 bytes (200 reads × a 78-byte sample);
the small path wrote the whole source -/
theorem f7_before_repair :
    (run beforeRepair (fuelFor ⟨20000, []⟩) ⟨20000, []⟩ 20000 64 [] (fun _ => 0) []).map (·.written) = .ok 15600 ∧
    (run beforeRepair (fuelFor ⟨10, []⟩) ⟨10, []⟩ 10 4 [] (fun _ => 0) []).map (·.written) = .ok 10 := by
  constructor <;> decide +kernel

/-- F11 (new): an estimate that is a multiple of 2³² was truncated to a segment size of 0 -/
theorem f11_before_repair :
    run beforeRepair (fuelFor ⟨1000, []⟩) ⟨1000, []⟩ (2 ^ 32) 64 [] (fun _ => 0) [] =
      .error (.fault (.divZero "dictionary/mod.rs:num_segments")) ∧
    run beforeRepair (fuelFor ⟨1000, []⟩) ⟨1000, []⟩ (2 ^ 32 + 1) 64 [] (fun _ => 0) [] =
      .error (.fault (.divZero "dictionary/mod.rs:sample_size:outer")) := by
  constructor <;> decide

end Zstd.Props.C20
