import Zstd.Proofs.EncStructure
/-
C15 — compressor output is structurally valid and never larger than raw framing.

The block encoder `enc` is an ARBITRARY function in every theorem of this file: nothing here depends
on what `compress_block` writes, only on what `compress_fastest` / `compress` do with it.  The guard
operators and the presence of the raw fallback come from `Zstd.Gen.Guards` / `Zstd.Gen.Enc`
(source text): without the fallback `block_overhead` does not hold; with `>=` weakened to `>` it does.

Section self-consistency and "every offset within the window and the data produced so far" are
Spec-strict validity of the frame, i.e. C02 (`compress_*_roundtrip*`): `Spec.decodeFrame` rejects
anything else.
-/
namespace Zstd.Props.C15
open Zstd Zstd.Model.Enc Zstd.Proofs.Enc

/-- **three bytes per block, at most**: whatever the block encoder returns, an emitted block is never
more than its 3-byte header larger than the block it encodes (RLE: 4 ≤ 3 + |blk| since |blk| ≥ 1;
compressed only when not larger than the block; raw otherwise) -/
theorem block_overhead {H : Type} (lvl : Level) (enc : BlockEnc H) (last : Bool) (blk : List Byte) (p : Parse)
    (st st' : EncState H) (bytes : List Byte) (hne : blk ≠ [])
    (hem : emitBlock lvl enc last blk p st = .ok (bytes, st')) : bytes.length ≤ 3 + blk.length := by
  cases lvl with
  | uncompressed =>
    simp only [emitBlock] at hem
    split at hem
    · cases hem
    · simp only [Except.ok.injEq, Prod.mk.injEq] at hem
      rw [← hem.1]; simp [blockHeader_length]
  | fastest =>
    simp only [emitBlock, compressFastest] at hem
    cases blk with
    | nil => exact absurd rfl hne
    | cons b t =>
      simp only at hem
      split at hem
      · simp only [Except.ok.injEq, Prod.mk.injEq] at hem
        rw [← hem.1]; simp [blockHeader_length]; omega
      · split at hem
        · cases hem
        · rename_i compressed st1 _
          simp only [fastestRawFallbackPresent_eq, Bool.true_and] at hem
          split at hem
          · simp only [Except.ok.injEq, Prod.mk.injEq] at hem
            rw [← hem.1]; simp [blockHeader_length]
          · rename_i hg
            simp only [Bool.or_eq_true, not_or, Bool.not_eq_true] at hg
            have h1 := rawFallbackVsBlock_false _ _ hg.1
            have h2 : (b :: t).length % 2 ^ 32 ≤ (b :: t).length := Nat.mod_le _ _
            simp only [Except.ok.injEq, Prod.mk.injEq] at hem
            rw [← hem.1]; simp only [List.length_append, blockHeader_length]; omega
  | default => simp [emitBlock] at hem
  | better => simp [emitBlock] at hem
  | best => simp [emitBlock] at hem

/-- every emitted block is a well-formed raw / RLE / compressed block with Block_Size ≤ 128 KiB and
exactly the announced number of bytes behind the header (blocks of at most 128 KiB in) -/
theorem emit_shaped {H : Type} (lvl : Level) (enc : BlockEnc H) : EmitShaped (emitBlock lvl enc) 131072 := by
  intro last blk p st st' bytes hne hle hem
  refine ⟨block_overhead lvl enc last blk p st st' bytes hne hem, ?_⟩
  have hmod : blk.length % 2 ^ 32 = blk.length := Nat.mod_eq_of_lt (by omega)
  cases lvl with
  | uncompressed =>
    simp only [emitBlock] at hem
    split at hem
    · cases hem
    · simp only [Except.ok.injEq, Prod.mk.injEq, blockTypeRaw_eq] at hem
      exact ⟨0, blk.length, blk, by omega, hle, hem.1.symm, by simp, fun _ => rfl⟩
  | fastest =>
    simp only [emitBlock, compressFastest, hmod] at hem
    cases blk with
    | nil => exact absurd rfl hne
    | cons b t =>
      simp only at hem
      split at hem
      · simp only [Except.ok.injEq, Prod.mk.injEq, blockTypeRle_eq] at hem
        exact ⟨1, (b :: t).length, [b], by omega, hle, hem.1.symm, by simp, fun _ => rfl⟩
      · split at hem
        · cases hem
        · rename_i compressed st1 _
          simp only [fastestRawFallbackPresent_eq, Bool.true_and] at hem
          split at hem
          · simp only [Except.ok.injEq, Prod.mk.injEq, blockTypeRaw_eq] at hem
            exact ⟨0, (b :: t).length, b :: t, by omega, hle, hem.1.symm, by simp, fun _ => rfl⟩
          · rename_i hg
            simp only [Bool.or_eq_true, not_or, Bool.not_eq_true] at hg
            have h2 := rawFallbackVsMax_false _ _ hg.2
            rw [maxBlockSize_eq] at h2
            have hcm : compressed.length % 2 ^ 32 = compressed.length := Nat.mod_eq_of_lt (by omega)
            simp only [Except.ok.injEq, Prod.mk.injEq, blockTypeCompressed_eq, hcm] at hem
            exact ⟨2, compressed.length, compressed, by omega, h2, hem.1.symm, by simp, fun h => absurd rfl h⟩
  | default => simp [emitBlock] at hem
  | better => simp [emitBlock] at hem
  | best => simp [emitBlock] at hem

/-- what the matcher must respect for the structural properties: non-empty spaces of at most 128 KiB
and a window the one-byte descriptor can express -/
def SaneMatcher (w : Nat) (script : Nat → MBlock) : Prop :=
  w ≤ 2 ^ 41 ∧ ∀ i, 0 < (script i).space ∧ (script i).space ≤ 131072

/-- **Structure of every emitted frame** (any level that returns, any block encoder, any compressor
state, any fragmentation): 6 header bytes that the strict Spec parses to the expected header; then a
walk over block headers finds `c'.matcherIdx` blocks, all of type raw/RLE/compressed with Block_Size
and stored size ≤ 128 KiB, exactly the last of them flagged last; what follows is exactly the
checksum of the input (or nothing without the `hash` feature); and the size accounting. -/
theorem frame_structure {H : Type} (hash : Bool) (enc : BlockEnc H) (c : Compressor H) (w : Nat)
    (script : Nat → MBlock) (data : List Byte) (frags : List Nat) (hm : SaneMatcher w script)
    (frame : List Byte) (c' : Compressor H)
    (hrun : compressFrame hash enc c w script data frags = .ok (frame, c')) :
    Spec.parseFrameHeader frame = some (specHeader hash w) ∧
    ∃ recs trailer, walkBlocks frame.length (frame.drop 6) = some (recs, trailer) ∧
      OneLast recs ∧ recs.length = c'.matcherIdx ∧
      (∀ rec ∈ recs, rec.btype < 3 ∧ rec.size ≤ 131072 ∧ rec.stored ≤ 131072) ∧
      trailer = (if hash then leBytes 4 (Spec.Xxh64.checksum32 data) else []) ∧
      frame.length ≤ data.length + 6 + 3 * recs.length + trailer.length := by
  obtain ⟨hw, hsp⟩ := hm
  obtain ⟨e, r, he1, he31, _, hdw, hloop, hframe, hidx⟩ := compressFrame_parts hash enc c w script data frags hw frame c' hrun
  obtain ⟨hh, _, hlen, hwalk⟩ := compressLoop_structure (emitBlock c.level enc) script 131072 (fun i => (hsp i).1)
    (fun i => (hsp i).2) (emit_shaped c.level enc) (data.length + 1) 0 _ [] data frags r (by omega) hloop
  simp only [List.nil_append] at hh
  have hparse := parseFrameHeader_ours hash e he1 he31
    (r.bytes ++ (if hash then leBytes 4 (Spec.Xxh64.checksum32 r.hashed) else []))
  rw [magic_bytes] at hparse
  have hframe' : frame = [40, 181, 47, 253] ++ [frameDescriptor hash, e * 8] ++
      (r.bytes ++ (if hash then leBytes 4 (Spec.Xxh64.checksum32 r.hashed) else [])) := by
    rw [hframe]; simp
  refine ⟨by rw [hframe', hparse, specHeader, hdw], ?_⟩
  have hdrop : frame.drop 6 = r.bytes ++ (if hash then leBytes 4 (Spec.Xxh64.checksum32 r.hashed) else []) := by
    rw [hframe']; rfl
  obtain ⟨recs, hrecs, hcount, hall⟩ := hwalk (if hash then leBytes 4 (Spec.Xxh64.checksum32 r.hashed) else [])
    frame.length (by rw [hframe]; simp; omega)
  refine ⟨recs, _, by rw [hdrop]; exact hrecs, walkBlocks_oneLast _ _ _ _ hrecs, by rw [hcount, hidx]; omega, hall,
    by rw [hh], ?_⟩
  rw [hframe, hcount]
  simp only [List.length_append, List.length_cons, List.length_nil]
  omega

/-- exactly one block is flagged last, and it is the final one -/
theorem one_last_block {H : Type} (hash : Bool) (enc : BlockEnc H) (c : Compressor H) (w : Nat)
    (script : Nat → MBlock) (data : List Byte) (frags : List Nat) (hm : SaneMatcher w script)
    (frame : List Byte) (c' : Compressor H)
    (hrun : compressFrame hash enc c w script data frags = .ok (frame, c')) :
    ∃ recs trailer, walkBlocks frame.length (frame.drop 6) = some (recs, trailer) ∧ OneLast recs := by
  obtain ⟨_, recs, trailer, h1, h2, _⟩ := frame_structure hash enc c w script data frags hm frame c' hrun
  exact ⟨recs, trailer, h1, h2⟩

/-- every block's Block_Size field and stored size are at most 128 KiB; the regenerated size of a
raw/RLE block IS its Block_Size field, the regenerated size of a compressed block is the length of
the input block it was made from (C02), which is at most its space -/
theorem stored_and_regenerated_le_128k {H : Type} (hash : Bool) (enc : BlockEnc H) (c : Compressor H) (w : Nat)
    (script : Nat → MBlock) (data : List Byte) (frags : List Nat) (hm : SaneMatcher w script)
    (frame : List Byte) (c' : Compressor H)
    (hrun : compressFrame hash enc c w script data frags = .ok (frame, c')) :
    (∃ recs trailer, walkBlocks frame.length (frame.drop 6) = some (recs, trailer) ∧
      ∀ rec ∈ recs, rec.btype < 3 ∧ rec.size ≤ 131072 ∧ rec.stored ≤ 131072) ∧
    ∀ i, (blockAt script data i).length ≤ 131072 := by
  obtain ⟨_, recs, trailer, h1, _, _, h3, _⟩ := frame_structure hash enc c w script data frags hm frame c' hrun
  exact ⟨⟨recs, trailer, h1, h3⟩, fun i => Nat.le_trans (List.length_take_le _ _) (hm.2 i).2⟩

/-- after the last block there is nothing but the checksum of the input -/
theorem nothing_after_last_but_checksum {H : Type} (hash : Bool) (enc : BlockEnc H) (c : Compressor H) (w : Nat)
    (script : Nat → MBlock) (data : List Byte) (frags : List Nat) (hm : SaneMatcher w script)
    (frame : List Byte) (c' : Compressor H)
    (hrun : compressFrame hash enc c w script data frags = .ok (frame, c')) :
    ∃ recs, walkBlocks frame.length (frame.drop 6) =
      some (recs, if hash then leBytes 4 (Spec.Xxh64.checksum32 data) else []) := by
  obtain ⟨_, recs, trailer, h1, _, _, _, h4, _⟩ := frame_structure hash enc c w script data frags hm frame c' hrun
  exact ⟨recs, by rw [← h4]; exact h1⟩

/-- magic number, descriptor (no dictionary id, no content size, not single-segment, reserved bits
zero, checksum flag = `hash` feature), window descriptor: the declared window covers the matcher's
window AND the largest possible block, 128 KiB (the repair of F13; with the unrepaired code only
`2048 ≤ declaredWindow w` held and a matcher with a small window got blocks above the declared window) -/
theorem header_consistent {H : Type} (hash : Bool) (enc : BlockEnc H) (c : Compressor H) (w : Nat)
    (script : Nat → MBlock) (data : List Byte) (frags : List Nat) (hw : w ≤ 2 ^ 41)
    (frame : List Byte) (c' : Compressor H)
    (hrun : compressFrame hash enc c w script data frags = .ok (frame, c')) :
    frame.take 4 = leBytes 4 Spec.magic ∧
    Spec.parseFrameHeader frame =
      some { desc := ⟨0, false, hash, 0⟩, window := declaredWindow w, dictId := none, contentSize := none, hdrLen := 6 } ∧
    w ≤ declaredWindow w ∧ Gen.maxBlockSize ≤ declaredWindow w := by
  obtain ⟨e, r, he1, he31, hwe, hdw, _, hframe, _⟩ := compressFrame_parts hash enc c w script data frags hw frame c' hrun
  have hparse := parseFrameHeader_ours hash e he1 he31
    (r.bytes ++ (if hash then leBytes 4 (Spec.Xxh64.checksum32 r.hashed) else []))
  rw [magic_bytes] at hparse
  have hframe' : frame = [40, 181, 47, 253] ++ [frameDescriptor hash, e * 8] ++
      (r.bytes ++ (if hash then leBytes 4 (Spec.Xxh64.checksum32 r.hashed) else [])) := by
    rw [hframe]; simp
  have hmagic : leBytes 4 Spec.magic = [40, 181, 47, 253] := by decide
  refine ⟨by rw [hframe', hmagic]; rfl, by rw [hframe', hparse, hdw], by rw [hdw]; exact hwe.1, ?_⟩
  rw [hdw, maxBlockSize_eq]
  exact hwe.2

/-- **never larger than raw framing** (any matcher): input + 6 header bytes + 3 bytes per block + the
checksum, where the number of blocks is the number of spaces the matcher was asked for -/
theorem frame_size_bound_any_matcher {H : Type} (hash : Bool) (enc : BlockEnc H) (c : Compressor H) (w : Nat)
    (script : Nat → MBlock) (data : List Byte) (frags : List Nat) (hm : SaneMatcher w script)
    (frame : List Byte) (c' : Compressor H)
    (hrun : compressFrame hash enc c w script data frags = .ok (frame, c')) :
    frame.length ≤ data.length + 6 + 3 * c'.matcherIdx + 4 := by
  obtain ⟨_, recs, trailer, _, _, h2, _, h4, h5⟩ := frame_structure hash enc c w script data frags hm frame c' hrun
  rw [h2] at h5
  have : trailer.length ≤ 4 := by rw [h4]; cases hash <;> simp
  omega

/-- **C15 size bound, built-in matcher**: `|frame| ≤ |data| + 6 + 3·(⌈|data| / 128 KiB⌉ + 1) + 4`
(frame header, three bytes per 128 KiB block, an optional empty final block, the checksum) -/
theorem frame_size_bound {H : Type} (hash : Bool) (enc : BlockEnc H) (parse : Nat → Parse) (c : Compressor H)
    (data : List Byte) (frags : List Nat) (frame : List Byte) (c' : Compressor H)
    (hrun : compressFrame hash enc c builtinWindow (builtinScript parse) data frags = .ok (frame, c')) :
    frame.length ≤ data.length + 6 + 3 * ((data.length + 131071) / 131072 + 1) + 4 := by
  have hm : SaneMatcher builtinWindow (builtinScript parse) :=
    ⟨by decide, fun i => ⟨by show 0 < Gen.prodSliceSize; decide, by show Gen.prodSliceSize ≤ 131072; decide⟩⟩
  have hb := frame_size_bound_any_matcher hash enc c _ _ data frags hm frame c' hrun
  obtain ⟨e, r, _, _, _, _, hloop, _, hidx⟩ := compressFrame_parts hash enc c _ _ data frags hm.1 frame c' hrun
  have hcount := compressLoop_block_count (emitBlock c.level enc) (builtinScript parse) 131072 (by omega)
    (fun i => by show Gen.prodSliceSize = 131072; decide) (data.length + 1) 0 _ [] data frags r (by omega) hloop
  rw [hidx, hcount] at hb
  have : data.length / 131072 ≤ (data.length + 131071) / 131072 := Nat.div_le_div_right (by omega)
  omega

/-- non-vacuity / sensitivity witness: a block encoder that always returns one byte more than the
block makes `compress_fastest` store the block raw — the frame is input + 6 + 3·2 + 4 -/
example :
    ((compress (H := Unit) true (fun p st => .ok (List.replicate (p.tail.length + 1) 0, st)) .fastest 4096
        (fun _ => ⟨4, ⟨[], [1, 2, 3, 4]⟩⟩) [1, 2, 3, 4] []).toOption.map List.length) = some (4 + 6 + 3 * 2 + 4) := by
  decide +kernel

end Zstd.Props.C15
