import Zstd.Model.SeqCodes
import Zstd.Model.Headers
import Zstd.Spec.Tables
import Zstd.Spec.Headers
import Zstd.Proofs.SeqCodes
import Zstd.Proofs.Headers
/-
C14 — Sequence codes, repeat-offset rules and section headers match the specification.

Property theorems only (helper lemmas live in `Zstd/Proofs/`).  Every table row, range arm,
shift/mask expression, threshold and guard operator on the model side comes from `Zstd.Gen.*`,
i.e. from the current source text of /repo, so these theorems are re-checked by the kernel against
what the code says now.  All statements are for the WHOLE range of the quantifier (no bound, no
sampling): finite tables are checked by `decide` on the table rows and lifted by induction.
-/
set_option linter.unusedSimpArgs false
set_option linter.unusedVariables false
namespace Zstd.Props.C14
open Zstd Zstd.Model Zstd.Model.Hdr Zstd.Proofs.SeqCodes

/-! ## Code tables -/

/-- the literal-length decode table of the code is the RFC's table, for every code -/
theorem ll_dec_eq_rfc : ∀ c, c < 36 → lookupLL c = .ok (Spec.llCodeTable.getD c (0, 0)) := by
  decide

/-- the match-length decode table of the code is the RFC's table, for every code -/
theorem ml_dec_eq_rfc : ∀ c, c < 53 → lookupML c = .ok (Spec.mlCodeTable.getD c (0, 0)) := by
  decide

/-- codes beyond the tables hit the `unreachable!` arm (the callers bound the code first) -/
theorem ll_dec_out_of_range : ∀ c, c > Gen.maxLiteralLengthCode → ∃ f, lookupLL c = .error f := by
  intro c hc
  have h1 : ¬ (c ≤ Gen.llDecIdentHi) := by simp only [Gen.llDecIdentHi, Gen.maxLiteralLengthCode] at *; omega
  have h2 : ∀ (rows : List (Nat × Nat × Nat)), (∀ r ∈ rows, r.1 ≤ 35) → lookupRow rows c = none := by
    intro rows
    induction rows with
    | nil => intro _; rfl
    | cons r rest ih =>
      intro h
      obtain ⟨a, b, n⟩ := r
      have ha : a ≤ 35 := h (a, b, n) (by simp)
      have : ¬ (a = c) := by simp only [Gen.maxLiteralLengthCode] at hc; omega
      simp only [lookupRow, this, if_false]
      exact ih (fun r hr => h r (by simp [hr]))
  simp only [lookupLL, h1, if_false, h2 Gen.llDecRows (by decide)]
  exact ⟨_, rfl⟩

theorem ml_dec_out_of_range : ∀ c, c > Gen.maxMatchLengthCode → ∃ f, lookupML c = .error f := by
  intro c hc
  have h1 : ¬ (c ≤ Gen.mlDecIdentHi) := by simp only [Gen.mlDecIdentHi, Gen.maxMatchLengthCode] at *; omega
  have h2 : ∀ (rows : List (Nat × Nat × Nat)), (∀ r ∈ rows, r.1 ≤ 52) → lookupRow rows c = none := by
    intro rows
    induction rows with
    | nil => intro _; rfl
    | cons r rest ih =>
      intro h
      obtain ⟨a, b, n⟩ := r
      have ha : a ≤ 52 := h (a, b, n) (by simp)
      have : ¬ (a = c) := by simp only [Gen.maxMatchLengthCode] at hc; omega
      simp only [lookupRow, this, if_false]
      exact ih (fun r hr => h r (by simp [hr]))
  simp only [lookupML, h1, if_false, h2 Gen.mlDecRows (by decide)]
  exact ⟨_, rfl⟩

/-! ## Literal lengths: encoder and decoder are mutual inverses on 0..=131071 -/

/-- the finite check on the extracted rows (20 rows): contiguous, `base = lo`, width `2^bits`,
codes consecutive, and the DECODER's row for the code is `(lo, bits)` -/
theorem ll_rows_ok : rowsOk lookupLL Gen.llEncRows (Gen.llEncIdentHi + 1) (Gen.llDecIdentHi + 1) = true := by decide
theorem ll_rows_end : rowsEnd Gen.llEncRows (Gen.llEncIdentHi + 1) = Gen.llEncUpper := by decide
theorem ll_ident : ∀ v, v ≤ Gen.llEncIdentHi → encodeLL v = .ok (v, 0, 0) ∧ lookupLL v = .ok (v, 0) := by decide

/-- every literal length 0..=131071 is encoded (no `unreachable!`, no underflow) to a code ≤ 35
whose decoder row gives the value back; the extra value fits the row's bit count -/
theorem ll_roundtrip : ∀ v, v ≤ 131071 →
    ∃ c e b base, encodeLL v = .ok (c, e, b) ∧ c ≤ 35 ∧ lookupLL c = .ok (base, b) ∧ base + e = v ∧ e < 2 ^ b := by
  intro v hv
  by_cases h : v ≤ Gen.llEncIdentHi
  · obtain ⟨h1, h2⟩ := ll_ident v h
    exact ⟨v, 0, 0, v, h1, by simp only [Gen.llEncIdentHi] at h; omega, h2, by omega, by omega⟩
  · have hs : Gen.llEncIdentHi + 1 ≤ v := by omega
    have he : v < rowsEnd Gen.llEncRows (Gen.llEncIdentHi + 1) := by
      rw [ll_rows_end]; simp only [Gen.llEncUpper]; omega
    obtain ⟨c, base, b, g1, g2, g3, g4, _, g6⟩ := enc_of_rowsOk lookupLL _ _ _ v ll_rows_ok hs he
    refine ⟨c, v - base, b, base, ?_, ?_, g2, by omega, g4⟩
    · have n1 : ¬ (v < Gen.llEncMin) := by simp only [Gen.llEncMin]; omega
      have n2 : ¬ (Gen.llEncIdentLo ≤ v ∧ v ≤ Gen.llEncIdentHi) := by omega
      have n3 : ¬ (v ≥ Gen.llEncUpper) := by simp only [Gen.llEncUpper]; omega
      simp only [encodeLL, encodeWith, n1, n2, n3, if_false, g1]
    · have : Gen.llEncRows.length = 20 := by decide
      simp only [Gen.llDecIdentHi] at g6
      omega

example : encodeLL 131071 = .ok (35, 65535, 16) := by decide

/-- conversely: every code ≤ 35 with every in-range extra value is produced by the encoder from
the decoded value, with exactly that code, extra value and bit count -/
theorem ll_enc_dec : ∀ c base bits e, c ≤ 35 → lookupLL c = .ok (base, bits) → e < 2 ^ bits →
    encodeLL (base + e) = .ok (c, e, bits) := by
  intro c base bits e hc hl he
  by_cases h : c ≤ Gen.llEncIdentHi
  · obtain ⟨h1, h2⟩ := ll_ident c h
    rw [h2] at hl
    injection hl with hl
    injection hl with hb hn
    subst hb hn
    have : e = 0 := by simpa using he
    subst this
    exact h1
  · have hs : Gen.llDecIdentHi + 1 ≤ c := by simp only [Gen.llEncIdentHi, Gen.llDecIdentHi] at *; omega
    have hlen : Gen.llEncRows.length = 20 := by decide
    have hu : c < Gen.llDecIdentHi + 1 + Gen.llEncRows.length := by rw [hlen]; simp only [Gen.llDecIdentHi]; omega
    obtain ⟨b, n, g1, g2, g3, g4⟩ := dec_of_rowsOk lookupLL _ _ _ c ll_rows_ok hs hu
    rw [hl] at g1
    injection g1 with g1
    injection g1 with hb hn
    subst hb hn
    have v1 : ¬ (base + e < Gen.llEncMin) := by simp only [Gen.llEncMin]; omega
    have v2 : ¬ (Gen.llEncIdentLo ≤ base + e ∧ base + e ≤ Gen.llEncIdentHi) := by omega
    have v3 : ¬ (base + e ≥ Gen.llEncUpper) := by rw [ll_rows_end] at g3; omega
    simp only [encodeLL, encodeWith, v1, v2, v3, if_false, g4 e he]

example : lookupLL 25 = .ok (64, 6) ∧ (63 : Nat) < 2 ^ 6 := by decide

/-- values outside the range reach the `unreachable!` arm: a `Fault`, never a wrong code -/
theorem ll_out_of_range : ∀ v, v > 131071 → ∃ f, encodeLL v = .error f := by
  intro v hv
  have n1 : ¬ (v < Gen.llEncMin) := by simp only [Gen.llEncMin]; omega
  have n2 : ¬ (Gen.llEncIdentLo ≤ v ∧ v ≤ Gen.llEncIdentHi) := by simp only [Gen.llEncIdentHi]; omega
  have n3 : v ≥ Gen.llEncUpper := by simp only [Gen.llEncUpper]; omega
  simp only [encodeLL, encodeWith, n1, n2, n3, if_false, if_true]
  exact ⟨_, rfl⟩

/-! ## Match lengths: mutual inverses on 3..=131074 -/

theorem ml_rows_ok : rowsOk lookupML Gen.mlEncRows (Gen.mlEncIdentHi + 1) (Gen.mlDecIdentHi + 1) = true := by decide
theorem ml_rows_end : rowsEnd Gen.mlEncRows (Gen.mlEncIdentHi + 1) = Gen.mlEncUpper := by decide
theorem ml_ident : ∀ v, v ≤ Gen.mlEncIdentHi → Gen.mlEncMin ≤ v →
    encodeML v = .ok (v - 3, 0, 0) ∧ lookupML (v - 3) = .ok (v, 0) := by decide

theorem ml_roundtrip : ∀ v, 3 ≤ v → v ≤ 131074 →
    ∃ c e b base, encodeML v = .ok (c, e, b) ∧ c ≤ 52 ∧ lookupML c = .ok (base, b) ∧ base + e = v ∧ e < 2 ^ b := by
  intro v hv3 hv
  by_cases h : v ≤ Gen.mlEncIdentHi
  · obtain ⟨h1, h2⟩ := ml_ident v h (by simp only [Gen.mlEncMin]; omega)
    exact ⟨v - 3, 0, 0, v, h1, by simp only [Gen.mlEncIdentHi] at h; omega, h2, by omega, by omega⟩
  · have hs : Gen.mlEncIdentHi + 1 ≤ v := by omega
    have he : v < rowsEnd Gen.mlEncRows (Gen.mlEncIdentHi + 1) := by
      rw [ml_rows_end]; simp only [Gen.mlEncUpper]; omega
    obtain ⟨c, base, b, g1, g2, g3, g4, _, g6⟩ := enc_of_rowsOk lookupML _ _ _ v ml_rows_ok hs he
    refine ⟨c, v - base, b, base, ?_, ?_, g2, by omega, g4⟩
    · have n1 : ¬ (v < Gen.mlEncMin) := by simp only [Gen.mlEncMin]; omega
      have n2 : ¬ (Gen.mlEncIdentLo ≤ v ∧ v ≤ Gen.mlEncIdentHi) := by omega
      have n3 : ¬ (v ≥ Gen.mlEncUpper) := by simp only [Gen.mlEncUpper]; omega
      simp only [encodeML, encodeWith, n1, n2, n3, if_false, g1]
    · have : Gen.mlEncRows.length = 21 := by decide
      simp only [Gen.mlDecIdentHi] at g6
      omega

example : encodeML 131074 = .ok (52, 65535, 16) := by decide

theorem ml_enc_dec : ∀ c base bits e, c ≤ 52 → lookupML c = .ok (base, bits) → e < 2 ^ bits →
    encodeML (base + e) = .ok (c, e, bits) := by
  intro c base bits e hc hl he
  by_cases h : c ≤ Gen.mlDecIdentHi
  · have h' : c + 3 ≤ Gen.mlEncIdentHi := by simp only [Gen.mlEncIdentHi, Gen.mlDecIdentHi] at *; omega
    obtain ⟨h1, h2⟩ := ml_ident (c + 3) h' (by simp only [Gen.mlEncMin]; omega)
    have e3 : c + 3 - 3 = c := by omega
    rw [e3] at h1 h2
    rw [h2] at hl
    injection hl with hl
    injection hl with hb hn
    subst hb hn
    have : e = 0 := by simpa using he
    subst this
    exact h1
  · have hs : Gen.mlDecIdentHi + 1 ≤ c := by omega
    have hlen : Gen.mlEncRows.length = 21 := by decide
    have hu : c < Gen.mlDecIdentHi + 1 + Gen.mlEncRows.length := by rw [hlen]; simp only [Gen.mlDecIdentHi]; omega
    obtain ⟨b, n, g1, g2, g3, g4⟩ := dec_of_rowsOk lookupML _ _ _ c ml_rows_ok hs hu
    rw [hl] at g1
    injection g1 with g1
    injection g1 with hb hn
    subst hb hn
    have v1 : ¬ (base + e < Gen.mlEncMin) := by simp only [Gen.mlEncMin, Gen.mlEncIdentHi] at *; omega
    have v2 : ¬ (Gen.mlEncIdentLo ≤ base + e ∧ base + e ≤ Gen.mlEncIdentHi) := by omega
    have v3 : ¬ (base + e ≥ Gen.mlEncUpper) := by rw [ml_rows_end] at g3; omega
    simp only [encodeML, encodeWith, v1, v2, v3, if_false, g4 e he]

example : lookupML 43 = .ok (131, 7) ∧ (127 : Nat) < 2 ^ 7 := by decide

theorem ml_out_of_range : ∀ v, v < 3 ∨ v > 131074 → ∃ f, encodeML v = .error f := by
  intro v hv
  by_cases h0 : v < Gen.mlEncMin
  · simp only [encodeML, encodeWith, h0, if_true]
    exact ⟨_, rfl⟩
  · have hv' : v > 131074 := by simp only [Gen.mlEncMin] at h0; omega
    have n2 : ¬ (Gen.mlEncIdentLo ≤ v ∧ v ≤ Gen.mlEncIdentHi) := by simp only [Gen.mlEncIdentHi]; omega
    have n3 : v ≥ Gen.mlEncUpper := by simp only [Gen.mlEncUpper]; omega
    simp only [encodeML, encodeWith, h0, n2, n3, if_false, if_true]
    exact ⟨_, rfl⟩

/-! ## Offsets: all codes 0..=31, every offset value 1 .. 2^32-1 -/

/-- `encode_offset` yields the RFC's (code, extra bits) split of the offset value, and the
decoder's `(1 << code) + extra` gives the value back -/
theorem of_roundtrip : ∀ v c e b, 1 ≤ v → v < 2 ^ 32 → encodeOffset v = .ok (c, e, b) →
    c ≤ 31 ∧ 2 ^ c + e = v ∧ e < 2 ^ c ∧ b = c ∧ decodeOffsetValue c e = some v ∧
      Spec.offsetValue c e = v := by
  intro v c e b h1 h2 h
  have hv : v ≠ 0 := by omega
  simp only [encodeOffset, hv, if_false] at h
  injection h with h
  injection h with hc h
  injection h with he hb
  subst hc
  have l1 : 2 ^ Nat.log2 v ≤ v := Nat.log2_self_le hv
  have l2 : v < 2 ^ (Nat.log2 v + 1) := Nat.lt_log2_self
  have l3 : Nat.log2 v < 32 := (Nat.log2_lt hv).2 h2
  have hm : v % 2 ^ Nat.log2 v = v - 2 ^ Nat.log2 v := by
    rw [Nat.pow_succ] at l2
    rw [Nat.mod_eq_sub_mod l1, Nat.mod_eq_of_lt (by omega)]
  rw [Nat.and_two_pow_sub_one_eq_mod, hm] at he
  have hsum : 2 ^ Nat.log2 v + e = v := by omega
  refine ⟨by omega, hsum, ?_, hb.symm, ?_, hsum⟩
  · rw [Nat.pow_succ] at l2; omega
  · have : ¬ (Nat.log2 v > Gen.maxOffsetCode) := by simp only [Gen.maxOffsetCode]; omega
    simp only [decodeOffsetValue, this, if_false, Nat.shiftLeft_eq, Nat.one_mul, hsum]

example : encodeOffset 4294967295 = .ok (31, 2147483647, 31) := by decide

/-- `encode_offset` never faults on a non-zero value (so `of_roundtrip` is not vacuous) -/
theorem of_total : ∀ v, 1 ≤ v → ∃ c e b, encodeOffset v = .ok (c, e, b) := by
  intro v h
  have hv : v ≠ 0 := by omega
  simp only [encodeOffset, hv, if_false]
  exact ⟨_, _, _, rfl⟩

/-- conversely, every code ≤ 31 and extra value below `2^code` is what the encoder produces -/
theorem of_enc_dec : ∀ c e, c ≤ 31 → e < 2 ^ c → encodeOffset (2 ^ c + e) = .ok (c, e, c) := by
  intro c e _ he
  have hp : 0 < 2 ^ c := Nat.two_pow_pos c
  have hv : 2 ^ c + e ≠ 0 := by omega
  have hl : Nat.log2 (2 ^ c + e) = c := by
    rw [Nat.log2_eq_iff hv, Nat.pow_succ]; omega
  simp only [encodeOffset, hv, if_false, hl, Nat.and_two_pow_sub_one_eq_mod]
  have : (2 ^ c + e) % 2 ^ c = e := by
    rw [Nat.add_mod_left, Nat.mod_eq_of_lt he]
  rw [this]

/-- the decoder's offset value is never 0 (offset value 0 would underflow in the history step) -/
theorem decodeOffsetValue_pos : ∀ c e v, decodeOffsetValue c e = some v → 1 ≤ v := by
  intro c e v h
  simp only [decodeOffsetValue] at h
  split at h
  · cases h
  · injection h with h
    have : 0 < 1 <<< c := by rw [Nat.shiftLeft_eq, Nat.one_mul]; exact Nat.two_pow_pos c
    omega

/-- codes above 31 are refused -/
theorem decodeOffsetValue_limit : ∀ c e, c > 31 → decodeOffsetValue c e = none := by
  intro c e h
  have : c > Gen.maxOffsetCode := by simp only [Gen.maxOffsetCode]; omega
  simp only [decodeOffsetValue, this, if_true]

/-! ## Repeat-offset history -/

/-- `do_offset_history` = RFC 8878 §3.1.1.5 for EVERY offset value ≥ 1, both literal-length
cases and every history (zeros from a hostile dictionary included) -/
theorem offsetHistory_eq_rfc : ∀ ov ll (h : Spec.OffHist), 1 ≤ ov →
    doOffsetHistory ov ll (h.r1, h.r2, h.r3) =
      .ok ((Spec.repeatOffsets ov (ll == 0) h).1,
           ((Spec.repeatOffsets ov (ll == 0) h).2.r1, (Spec.repeatOffsets ov (ll == 0) h).2.r2,
            (Spec.repeatOffsets ov (ll == 0) h).2.r3)) := by
  intro ov ll h hov
  have h0 : ov ≠ 0 := by omega
  by_cases hll : ll = 0
  · subst hll
    by_cases h1 : ov = 1
    · subst h1; simp [doOffsetHistory, Spec.repeatOffsets]
    · by_cases h2 : ov = 2
      · subst h2; simp [doOffsetHistory, Spec.repeatOffsets]
      · by_cases h3 : ov = 3
        · subst h3; simp [doOffsetHistory, Spec.repeatOffsets]
        · have h4 : ov > 3 := by omega
          simp [doOffsetHistory, Spec.repeatOffsets, h0, h1, h2, h3, h4]
  · have hpos : ll > 0 := by omega
    by_cases h1 : ov = 1
    · subst h1; simp [doOffsetHistory, Spec.repeatOffsets, hll, hpos]
    · by_cases h2 : ov = 2
      · subst h2; simp [doOffsetHistory, Spec.repeatOffsets, hll, hpos]
      · by_cases h3 : ov = 3
        · subst h3; simp [doOffsetHistory, Spec.repeatOffsets, hll, hpos]
        · have h4 : ov > 3 := by omega
          simp [doOffsetHistory, Spec.repeatOffsets, h0, h1, h2, h3, h4, hll, hpos]

/-- offset value 0 (which the decoder can never produce, `decodeOffsetValue_pos`) would be an
arithmetic underflow -/
theorem offsetHistory_zero_faults : ∀ ll s, ∃ f, doOffsetHistory 0 ll s = .error f := by
  intro ll s
  obtain ⟨a, b, c⟩ := s
  simp only [doOffsetHistory, if_true]
  exact ⟨_, rfl⟩

/-! ## Number_of_Sequences -/

theorem or128 : ∀ x, x < 128 → x ||| 0x80 = x + 128 := by decide

theorem parse2 (b0 b1 m : Nat) (h1 : 128 ≤ b0) (h2 : b0 ≤ 254) (hn : (b0 - 128) * 256 + b1 ≠ 0) :
    parseSeqHeader [b0, b1, m] = .ok ((b0 - 128) * 256 + b1, some m, 3) := by
  have c1 : ¬ b0 = 0 := by omega
  have c2 : ¬ b0 ≤ 127 := by omega
  simp only [parseSeqHeader, c1, c2, h2, hn, if_false, if_true, ne_eq, not_false_eq_true]

theorem spec2 (b0 b1 : Nat) (rest : List Nat) (h1 : 128 ≤ b0) (h2 : b0 ≤ 254) :
    Spec.parseSeqCount (b0 :: b1 :: rest) = some ((b0 - 128) * 256 + b1, 2) := by
  have c1 : ¬ b0 = 0 := by omega
  have c2 : ¬ b0 < 128 := by omega
  have c3 : b0 < 255 := by omega
  simp only [Spec.parseSeqCount, c1, c2, c3, if_false, if_true]

/-- every count the compressor may be asked to write (1 ..= 0xFFFF + 0x7F00) is written as bytes
that the decoder reads back to the same count, consuming exactly those bytes plus the modes byte -/
theorem seqnum_roundtrip : ∀ n m, 1 ≤ n → n ≤ 0xFFFF + 0x7F00 →
    ∃ bs, encodeSeqnum n = .ok bs ∧ (∀ b ∈ bs, b < 256) ∧
      parseSeqHeader (bs ++ [m]) = .ok (n, some m, bs.length + 1) ∧
      Spec.parseSeqCount (bs ++ [m]) = some (n, bs.length) := by
  intro n m h1 h2
  by_cases a1 : n ≤ 127
  · refine ⟨[n % 256], ?_, ?_, ?_, ?_⟩
    · simp [encodeSeqnum, Gen.seqnumArms, h1, a1]
    · intro b hb; simp at hb; omega
    · have e : n % 256 = n := by omega
      have z : n ≠ 0 := by omega
      simp [parseSeqHeader, e, z, a1]
    · have e : n % 256 = n := by omega
      have z : n ≠ 0 := by omega
      have l : n < 128 := by omega
      simp [Spec.parseSeqCount, e, z, l]
  · by_cases a2 : n ≤ 32511
    · have hx : n / 256 < 128 := by omega
      refine ⟨[(n / 256 ||| 0x80) % 256, n % 256], ?_, ?_, ?_, ?_⟩
      · have : ¬ (1 ≤ n ∧ n ≤ 127) := by omega
        have : 128 ≤ n := by omega
        simp [encodeSeqnum, Gen.seqnumArms, a1, a2, *]
      · intro b hb; simp at hb; omega
      · rw [or128 _ hx]
        have e : (n / 256 + 128) % 256 = n / 256 + 128 := by omega
        rw [e]
        have g3 : (n / 256 + 128 - 128) * 256 + n % 256 = n := by omega
        have := parse2 (n / 256 + 128) (n % 256) m (by omega) (by omega) (by omega)
        simp only [List.cons_append, List.nil_append, List.length_cons, List.length_nil]
        rw [this, g3]
      · rw [or128 _ hx]
        have e : (n / 256 + 128) % 256 = n / 256 + 128 := by omega
        rw [e]
        have g3 : (n / 256 + 128 - 128) * 256 + n % 256 = n := by omega
        have := spec2 (n / 256 + 128) (n % 256) [m] (by omega) (by omega)
        simp only [List.cons_append, List.nil_append, List.length_cons, List.length_nil]
        rw [this, g3]
    · refine ⟨[255, (n - 32512) % 256, (n - 32512) / 256 % 256], ?_, ?_, ?_, ?_⟩
      · have : ¬ (1 ≤ n ∧ n ≤ 127) := by omega
        have : ¬ (128 ≤ n ∧ n ≤ 32511) := by omega
        have : 32512 ≤ n := by omega
        have : n ≤ 98047 := by omega
        have : ¬ (n < 32512) := by omega
        simp [encodeSeqnum, Gen.seqnumArms, Gen.seqnumSub, Gen.seqnumLowFirst, *]
      · intro b hb; simp at hb; omega
      · have g : (n - 32512) % 256 + (n - 32512) / 256 % 256 * 256 + 0x7F00 = n := by omega
        simp [parseSeqHeader, g]
      · have g : (n - 32512) % 256 + (n - 32512) / 256 % 256 * 256 + 0x7F00 = n := by omega
        simp [Spec.parseSeqCount, g]

example : encodeSeqnum 0x7F00 = .ok [255, 0, 0] ∧ encodeSeqnum 98047 = .ok [255, 255, 255] := by decide

/-- counts the format cannot express (0 is written elsewhere as a single zero byte; above
0xFFFF + 0x7F00 there is no encoding) fault instead of producing a wrong header -/
theorem seqnum_out_of_range : ∀ n, n = 0 ∨ n > 0xFFFF + 0x7F00 → ∃ f, encodeSeqnum n = .error f := by
  intro n h
  have : ¬ (1 ≤ n ∧ n ≤ 127) := by omega
  have : ¬ (128 ≤ n ∧ n ≤ 32511) := by omega
  have : ¬ (32512 ≤ n ∧ n ≤ 98047) := by omega
  simp only [encodeSeqnum, Gen.seqnumArms, *, if_false]
  exact ⟨_, rfl⟩

/-- the decoder's count parser agrees with RFC 8878 §3.1.1.3.2.1 on EVERY byte sequence:
where the RFC defines a count the parser returns it (consuming the count bytes, plus the modes
byte when the count is non-zero), and it fails exactly when bytes are missing -/
theorem seqnum_parse_eq_rfc : ∀ bs : List Nat,
    match Spec.parseSeqCount bs with
    | none => ∃ need got, parseSeqHeader bs = .error (.notEnoughBytes need got)
    | some (n, k) =>
      if n = 0 then parseSeqHeader bs = .ok (0, none, k)
      else match bs[k]? with
        | some m => parseSeqHeader bs = .ok (n, some m, k + 1)
        | none => ∃ need got, parseSeqHeader bs = .error (.notEnoughBytes need got) := by
  intro bs
  match bs with
  | [] => exact ⟨_, _, rfl⟩
  | [b0] =>
    simp only [Spec.parseSeqCount, parseSeqHeader]
    by_cases h0 : b0 = 0
    · simp [h0]
    · by_cases h1 : b0 < 128
      · have : b0 ≤ 127 := by omega
        simp [h0, h1, this]
      · by_cases h2 : b0 < 255
        · have : ¬ b0 ≤ 127 := by omega
          have : b0 ≤ 254 := by omega
          simp [h0, h1, h2, *]
        · have : ¬ b0 ≤ 127 := by omega
          have : ¬ b0 ≤ 254 := by omega
          simp [h0, h1, h2, *]
  | [b0, b1] =>
    simp only [Spec.parseSeqCount, parseSeqHeader]
    by_cases h0 : b0 = 0
    · simp [h0]
    · by_cases h1 : b0 < 128
      · have : b0 ≤ 127 := by omega
        simp [h0, h1, this]
      · by_cases h2 : b0 < 255
        · have : ¬ b0 ≤ 127 := by omega
          have : b0 ≤ 254 := by omega
          by_cases hn : (b0 - 128) * 256 + b1 = 0
          · simp [h0, h1, h2, hn, *]
          · have hn' : (b0 - 128) * 256 = 0 → ¬ b1 = 0 := by omega
            simp [h0, h1, h2, hn, *]
            intro _
            rw [if_pos hn']
            exact ⟨_, _, rfl⟩
        · have : ¬ b0 ≤ 127 := by omega
          have : ¬ b0 ≤ 254 := by omega
          simp [h0, h1, h2, *]
  | [b0, b1, b2] =>
    simp only [Spec.parseSeqCount, parseSeqHeader]
    by_cases h0 : b0 = 0
    · simp [h0]
    · by_cases h1 : b0 < 128
      · have : b0 ≤ 127 := by omega
        simp [h0, h1, this]
      · by_cases h2 : b0 < 255
        · have : ¬ b0 ≤ 127 := by omega
          have : b0 ≤ 254 := by omega
          by_cases hn : (b0 - 128) * 256 + b1 = 0
          · simp [h0, h1, h2, hn, *]
          · simp [h0, h1, h2, hn, *]
        · have : ¬ b0 ≤ 127 := by omega
          have : ¬ b0 ≤ 254 := by omega
          simp [h0, h1, h2, *]
  | b0 :: b1 :: b2 :: b3 :: rest =>
    simp only [Spec.parseSeqCount, parseSeqHeader]
    by_cases h0 : b0 = 0
    · simp [h0]
    · by_cases h1 : b0 < 128
      · have : b0 ≤ 127 := by omega
        simp [h0, h1, this]
      · by_cases h2 : b0 < 255
        · have : ¬ b0 ≤ 127 := by omega
          have : b0 ≤ 254 := by omega
          by_cases hn : (b0 - 128) * 256 + b1 = 0
          · simp [h0, h1, h2, hn, *]
          · simp [h0, h1, h2, hn, *]
        · have : ¬ b0 ≤ 127 := by omega
          have : ¬ b0 ≤ 254 := by omega
          simp [h0, h1, h2, *]

/-! ## Block header -/

open Zstd.Proofs.Headers in
/-- every three-byte pattern is parsed to exactly the RFC's fields (Last_Block bit 0, Block_Type
bits 1-2, Block_Size bits 3-23); the reserved type and sizes above 128 KiB are refused; the
derived sizes are those of the block type -/
theorem blockHeader_parse_eq_rfc : ∀ b0 b1 b2 rest, b0 < 256 → b1 < 256 → b2 < 256 →
    readBlockHeader (b0 :: b1 :: b2 :: rest) =
      (let h := Spec.parseBlockHeader b0 b1 b2
       if h.btype = 3 then .error .reserved
       else if h.size > Spec.blockMaxSize then .error (.tooLarge h.size)
       else .ok ({ last := h.last, btype := h.btype,
                   decompressedSize := if h.btype = 2 then 0 else h.size,
                   contentSize := if h.btype = 1 then 1 else h.size }, 3)) :=
  fun b0 b1 b2 rest h0 h1 h2 => readBlockHeader_eq b0 b1 b2 rest h0 h1 h2

/-- fewer than three bytes: a read error, never a header -/
theorem blockHeader_short : ∀ src : List Nat, src.length < 3 → readBlockHeader src = .error (.readError src.length) := by
  intro src h
  match src with
  | [] => rfl
  | [_] => rfl
  | [_, _] => rfl
  | _ :: _ :: _ :: _ => simp at h; omega

/-- sizes the format forbids are refused: Block_Size > 128 KiB or the reserved type ⇒ error
(guard operator from the source: `Gen.blockSizeTooLarge`) -/
theorem block_limits : ∀ b0 b1 b2 rest, b0 < 256 → b1 < 256 → b2 < 256 →
    ((Spec.parseBlockHeader b0 b1 b2).size > 131072 ∨ (Spec.parseBlockHeader b0 b1 b2).btype = 3 ↔
      ∃ e, readBlockHeader (b0 :: b1 :: b2 :: rest) = .error e) := by
  intro b0 b1 b2 rest h0 h1 h2
  rw [blockHeader_parse_eq_rfc b0 b1 b2 rest h0 h1 h2]
  simp only [Spec.blockMaxSize]
  by_cases h3 : (Spec.parseBlockHeader b0 b1 b2).btype = 3
  · simp [h3]
  · by_cases hs : (Spec.parseBlockHeader b0 b1 b2).size > 131072
    · simp [h3, hs]
    · simp [h3, hs]

example : (Spec.parseBlockHeader 0x08 0x00 0x10).size = 131073 := by decide

open Zstd.Proofs.Headers in
/-- every header the encoder can be asked to write (any last flag, Raw/RLE/Compressed, any size the
21-bit field can hold) is read back to the same values — or refused when the size exceeds
128 KiB, never silently altered -/
theorem blockHeader_roundtrip : ∀ (last : Bool) t size rest, t ≤ 2 → size < 2 ^ 21 →
    ∃ bs, serializeBlockHeader last t size = .ok bs ∧ bs.length = 3 ∧ (∀ b ∈ bs, b < 256) ∧
      readBlockHeader (bs ++ rest) =
        if size > 131072 then .error (.tooLarge size)
        else .ok ({ last := last, btype := t, decompressedSize := if t = 2 then 0 else size,
                    contentSize := if t = 1 then 1 else size }, 3) := by
  intro last t size rest ht hs
  have hl : last.toNat < 2 := by cases last <;> decide
  refine ⟨_, serializeBlockHeader_eq last t size ht hs, rfl, ?_, ?_⟩
  · intro b hb; simp at hb; omega
  · generalize hV : size * 8 + t * 2 + last.toNat = V
    have hV24 : V < 2 ^ 24 := by omega
    simp only [List.cons_append, List.nil_append]
    rw [blockHeader_parse_eq_rfc _ _ _ rest (by omega) (by omega) (by omega)]
    have e : V % 256 + 256 * (V / 256 % 256) + 65536 * (V / 65536 % 256) = V := by omega
    simp only [Spec.parseBlockHeader, e, Spec.blockMaxSize]
    have e1 : V / 2 % 4 = t := by omega
    have e2 : V / 8 = size := by omega
    have e3 : (V % 2 = 1) = (last = true) := by
      cases last <;> simp [Bool.toNat] at hV ⊢ <;> omega
    have n3 : ¬ t = 3 := by omega
    simp only [e1, e2, e3, n3, if_false, decide_eq_true_eq, Bool.decide_eq_true]

/-- the reserved type cannot be written: the encoder panics (a `Fault`) instead -/
theorem blockHeader_reserved_faults : ∀ (last : Bool) size, ∃ f, serializeBlockHeader last 3 size = .error f := by
  intro last size
  exact ⟨_, rfl⟩

/-! ## Literals section header -/

open Zstd.Proofs.Headers in
/-- every byte pattern (all 4 types × all size formats, any number of bytes) is parsed to exactly
the RFC's fields; too few bytes give `NotEnoughBytes {have, need}` with the RFC's header size;
`num_streams` is left as it was for Raw/RLE sections (the code does not reset it) -/
theorem literalsHeader_parse_eq_rfc : ∀ (self : LitSection) (raw : List Nat), (∀ b ∈ raw, b < 256) →
    parseLitHeader self raw =
      match raw with
      | [] => .error (.getBits 2 0)
      | r0 :: _ =>
        match Spec.Hdr.parseLitHeader raw with
        | none => .error (.notEnoughBytes raw.length (Spec.Hdr.litHeaderSize r0))
        | some h => .ok ({ ty := h.ltype, regen := h.regen, comp := h.comp,
                           streams := if h.ltype < 2 then self.streams else h.streams }, h.size) :=
  fun self raw hb => by
    cases raw with
    | nil => exact parseLitHeader_eq self [] hb
    | cons r0 tail => exact parseLitHeader_eq self (r0 :: tail) hb

/-- the parser never panics (no index out of range, no `panic!` arm) on any byte sequence -/
theorem literalsHeader_no_fault : ∀ (self : LitSection) (raw : List Nat) f, (∀ b ∈ raw, b < 256) →
    parseLitHeader self raw ≠ .error (.fault f) := by
  intro self raw f hb
  rw [literalsHeader_parse_eq_rfc self raw hb]
  match raw with
  | [] => intro h; cases h
  | r0 :: tail =>
    simp only []
    cases Spec.Hdr.parseLitHeader (r0 :: tail) <;> (intro h; cases h)

open Zstd.Proofs.Headers in
/-- raw literals: every count below 2^20 (the compressor writes at most 128 KiB) is written as a
3-byte header that reads back as (Raw, count) -/
theorem literalsHeader_roundtrip_raw : ∀ n (self : LitSection) rest, n < 2 ^ 20 → (∀ b ∈ rest, b < 256) →
    ∃ bs, rawLiteralsHeader n = .ok bs ∧
      parseLitHeader self (bs ++ rest) = .ok ({ ty := 0, regen := n, comp := none, streams := self.streams }, 3) ∧
      Spec.Hdr.parseLitHeader (bs ++ rest) = some ⟨0, n, none, none, 3⟩ := by
  intro n self rest hn hr
  obtain ⟨f1, f2, f3⟩ := spec_fields_raw n hn
  have hs : Spec.Hdr.parseLitHeader (leBytes 3 (12 + 16 * n) ++ rest) = some ⟨0, n, none, none, 3⟩ := by
    rw [spec_parse_leBytes 3 _ rest (by decide) f1 f2, f3]
  refine ⟨_, rawLiteralsHeader_eq n hn, ?_, hs⟩
  rw [literalsHeader_parse_eq_rfc self _ (bytes_append_lt 3 _ rest hr)]
  rw [show leBytes 3 (12 + 16 * n) ++ rest = ((12 + 16 * n) % 256) :: (leBytes 2 ((12 + 16 * n) / 256) ++ rest) from rfl] at hs ⊢
  simp only [hs]
  rfl

open Zstd.Proofs.Headers in
/-- Huffman-compressed and treeless literals: for every literal count the compressor accepts
(< 262144; the size format is the one the source's thresholds select) and every compressed size
that fits the format's field, the header reads back to the same (type, regenerated size,
compressed size) with the stream count the format implies -/
theorem literalsHeader_roundtrip : ∀ (newTable : Bool) regen comp sf sb (self : LitSection) rest,
    litSizeFormat Gen.litSizeFormatArms regen = some (sf, sb) → comp < 2 ^ sb → (∀ b ∈ rest, b < 256) →
    ∃ bs, compressedLiteralsHeader newTable regen comp = .ok bs ∧ bs.length = (4 + 2 * sb) / 8 ∧
      parseLitHeader self (bs ++ rest) =
        .ok ({ ty := if newTable then 2 else 3, regen := regen, comp := some comp,
               streams := some (if regen < 6 then 1 else 4) }, bs.length) := by
  intro newTable regen comp sf sb self rest harm hc hr
  obtain ⟨a1, a2, a3, a4⟩ := size_arms_cases regen sf sb harm
  have hsf : sf < 4 := by omega
  have hsb : sb = 10 ∨ sb = 14 ∨ sb = 18 := by omega
  have hT : (if newTable then 2 else 3) = 2 ∨ (if newTable then 2 else 3) = 3 := by cases newTable <;> simp
  obtain ⟨f1, f2, f3⟩ := spec_fields (if newTable then 2 else 3) sf sb regen comp hT a4 a1 hc
  have hk1 : 1 ≤ (4 + 2 * sb) / 8 := by omega
  have hs := spec_parse_leBytes _ _ rest hk1 f1 f2
  rw [f3] at hs
  refine ⟨_, compressedLiteralsHeader_eq newTable regen comp sf sb harm hsf hsb a1 hc, leBytes_length _ _, ?_⟩
  rw [literalsHeader_parse_eq_rfc self _ (bytes_append_lt _ _ rest hr)]
  obtain ⟨j, hj⟩ : ∃ j, (4 + 2 * sb) / 8 = j + 1 := ⟨(4 + 2 * sb) / 8 - 1, by omega⟩
  rw [hj] at hs ⊢
  rw [show ∀ V, leBytes (j + 1) V ++ rest = (V % 256) :: (leBytes j (V / 256) ++ rest) from fun _ => rfl] at hs ⊢
  simp only [hs, leBytes_length]
  have nT : ¬ ((if newTable then 2 else 3) < 2) := by cases newTable <;> simp
  have hst : (if sf = 0 then 1 else 4) = (if regen < 6 then 1 else 4) := by
    by_cases h6 : regen < 6
    · simp [h6, a3.2 h6]
    · have : ¬ sf = 0 := fun h => h6 (a3.1 h)
      simp [h6, this]
  simp only [nT, if_false, hst, List.length_cons, leBytes_length, hj]

/-- any header that survives `compress_literals`' own fallback (`total_len >= literals.len()` ⇒ raw)
has a compressed size below the literal count, which always fits the field -/
theorem literalsHeader_kept_fits : ∀ regen comp sf sb,
    litSizeFormat Gen.litSizeFormatArms regen = some (sf, sb) → comp < regen → comp < 2 ^ sb := by
  intro regen comp sf sb h hc
  have := (Zstd.Proofs.Headers.size_arms_cases regen sf sb h).1
  omega

/-- the size-format thresholds of the source are those at which the RFC's fields run out
(10-bit sizes below 1024, 14-bit below 16384, 18-bit below 262144; single stream below 6) -/
theorem literals_thresholds : ∀ regen, regen < 262144 →
    litSizeFormat Gen.litSizeFormatArms regen =
      some (if regen < 6 then (0, 10) else if regen < 1024 then (1, 10) else if regen < 16384 then (2, 14) else (3, 18)) :=
  Zstd.Proofs.Headers.size_arms

/-- 262144 literals or more: `unimplemented!` (a `Fault`), not a wrong header -/
theorem literals_too_many : ∀ (newTable : Bool) regen comp, 262144 ≤ regen →
    ∃ f, compressedLiteralsHeader newTable regen comp = .error f := by
  intro newTable regen comp h
  simp only [compressedLiteralsHeader, Zstd.Proofs.Headers.size_arms_none regen h]
  exact ⟨_, rfl⟩

/-! ## Frame header -/

open Zstd.Proofs.Headers in
/-- after the magic number, every descriptor byte and every following byte sequence is parsed to
exactly the RFC's fields: Window_Descriptor present iff not single-segment, Dictionary_ID field
of 0/1/2/4 bytes, Frame_Content_Size field of 0/1/2/4/8 bytes with the +256 rule for the 2-byte
form; a dictionary id of 0 is reported as "none"; the window the decoder will require is the RFC's
(Window_Size, or Frame_Content_Size for single-segment frames); missing bytes give a read error -/
theorem frameHeader_parse_eq_rfc : ∀ d rest, d < 256 → (∀ b ∈ rest, b < 256) →
    match Spec.Hdr.parseFrameHeader (d :: rest) with
    | none => ∃ e, (e = .windowRead ∨ e = .dictIdRead ∨ e = .fcsRead) ∧
        readFrameHeader (leBytes 4 Gen.magicNum ++ d :: rest) = .error e
    | some h => ∃ hd, readFrameHeader (leBytes 4 Gen.magicNum ++ d :: rest) = .ok (hd, 4 + h.size, rest.drop (h.size - 1)) ∧
        hd.desc = d ∧ Gen.fdChecksum d = h.desc.checksum ∧ Gen.fdSingleSegment d = h.desc.singleSegment ∧
        hd.dictId = (match h.dictId with | some 0 => none | x => x) ∧
        hd.fcs = h.fcs.getD 0 ∧
        hd.windowSize = .ok h.requiredWindow := by
  intro d rest hd hr
  rw [readFrameHeader_eq d rest hd]
  have hs := fd_sizes d hd
  have hsingle := fd_single d hd
  have hck := fd_checksum d hd
  simp only [Spec.Hdr.parseFrameHeader]
  generalize hnd : Spec.didFieldSize (Spec.parseFrameDesc d) = nd at *
  generalize hnf : Spec.fcsFieldSize (Spec.parseFrameDesc d) = nf at *
  -- a single-segment frame always has a Frame_Content_Size field
  have hnf0 : (Spec.parseFrameDesc d).singleSegment = true → nf ≠ 0 := by
    intro h; rw [← hnf]; unfold Spec.fcsFieldSize; rw [h]; split <;> simp
  generalize hnw : (if (Spec.parseFrameDesc d).singleSegment = true then 0 else 1) = nw at *
  by_cases h1 : rest.length < nw
  · have : rest.length < nw + nd + nf := by omega
    simp only [h1, this, if_true]
    exact ⟨_, Or.inl rfl, rfl⟩
  · by_cases h2 : rest.length < nw + nd
    · have : rest.length < nw + nd + nf := by omega
      simp only [h1, h2, this, if_true, if_false]
      exact ⟨_, Or.inr (Or.inl rfl), rfl⟩
    · by_cases h3 : rest.length < nw + nd + nf
      · simp only [h1, h2, h3, if_true, if_false]
        exact ⟨_, Or.inr (Or.inr rfl), rfl⟩
      · simp only [h1, h2, h3, if_false]
        refine ⟨{ desc := d, windowDescriptor := leNat (List.take nw rest),
                  dictId := if nd ≠ 0 ∧ leNat (List.take nd (List.drop nw rest)) ≠ 0 then
                      some (leNat (List.take nd (List.drop nw rest))) else none,
                  fcs := if nf = 2 then leNat (List.take nf (List.drop (nw + nd) rest)) + 256
                      else leNat (List.take nf (List.drop (nw + nd) rest)) }, ?_, ?_, hck, hsingle, ?_, ?_, ?_⟩
        · refine congrArg Except.ok (Prod.ext rfl (Prod.ext ?_ ?_))
          · show 5 + nw + nd + nf = 4 + (1 + nw + nd + nf); omega
          · show List.drop (nw + nd + nf) rest = List.drop (1 + nw + nd + nf - 1) rest
            congr 1; omega
        · rfl
        · by_cases hn0 : nd = 0
          · simp [hn0]
          · by_cases hz : leNat (List.take nd (List.drop nw rest)) = 0
            · simp [hn0, hz]
            · simp only [hn0, hz, ne_eq, not_false_eq_true, and_self, if_true, if_false]
              split
              · rename_i heq; injection heq with heq; exact absurd heq hz
              · rfl
        · by_cases hn0 : nf = 0
          · have : ¬ nf = 2 := by omega
            simp [hn0, this, leNat]
          · simp only [hn0, if_false, Option.getD_some]
        · simp only [DecFrameHeader.windowSize, hsingle, Spec.Hdr.FrameHeader.requiredWindow]
          cases hss : (Spec.parseFrameDesc d).singleSegment
          · simp only [Bool.false_eq_true, if_false]
            rw [hss] at hnw
            simp only [Bool.false_eq_true, if_false] at hnw
            subst hnw
            match rest, h1, hr with
            | w :: tl, _, hr =>
              have hw : w < 256 := hr w (by simp)
              simp only [List.take_succ_cons, List.take_zero, leNat, Nat.mul_zero, Nat.add_zero]
              exact window_check w hw
          · have := hnf0 hss
            simp only [if_true, this, if_false, Option.getD_some]

example : Spec.Hdr.parseFrameHeader [0x20, 5] = some ⟨⟨0, true, false, 0⟩, none, none, some 5, 2⟩ := by decide

/-- other magic numbers: the skippable range is reported as a skip frame with its length, anything
else as a bad magic number -/
theorem frameHeader_magic : ∀ (m : Nat) rest, m < 2 ^ 32 → m ≠ Gen.magicNum →
    readFrameHeader (leBytes 4 m ++ rest) =
      if 0x184D2A50 ≤ m ∧ m ≤ 0x184D2A5F then
        (if rest.length < 4 then .error .descRead else .error (.skipFrame m (leNat (rest.take 4))))
      else .error (.badMagic m) := by
  intro m rest hm hne
  have h1 : readExact 4 (leBytes 4 m ++ rest) = some (leBytes 4 m, rest) := by
    simp only [readExact, List.length_append, leBytes_length]
    have : ¬ (4 + rest.length < 4) := by omega
    simp only [this, if_false]
    rw [List.take_append_of_le_length (by simp), List.take_of_length_le (by simp), List.drop_append_of_le_length (by simp),
      List.drop_of_length_le (by simp)]
    rfl
  have h2 : leNat (leBytes 4 m) = m := by rw [leNat_leBytes, Nat.mod_eq_of_lt (by omega)]
  simp only [readFrameHeader, h1, h2, Gen.skipMagicLo, Gen.skipMagicHi]
  by_cases hs : 407710288 ≤ m ∧ m ≤ 407710303
  · simp only [hs, and_self, if_true, readExact]
    by_cases hl : rest.length < 4 <;> simp [hl]
  · simp only [hs, if_false, hne, ne_eq, not_false_eq_true, if_true]

open Zstd.Proofs.Headers in
/-- all 256 window descriptors: `FrameHeader::window_size` = RFC `windowBase + windowAdd` -/
theorem window_of_descriptor : ∀ wd (h : DecFrameHeader), wd < 256 → Gen.fdSingleSegment h.desc = false →
    h.windowDescriptor = wd → h.windowSize = .ok (Spec.windowSize wd) := by
  intro wd h hwd hs he
  simp only [DecFrameHeader.windowSize, hs, Bool.false_eq_true, if_false, he]
  exact window_check wd hwd

/-- single-segment frames: the window is the frame content size, whatever its value (the code
applies NO minimum or maximum here; content sizes below 1 KiB, including 0, are accepted) -/
theorem window_single_segment : ∀ (h : DecFrameHeader), Gen.fdSingleSegment h.desc = true → h.windowSize = .ok h.fcs := by
  intro h hs
  simp only [DecFrameHeader.windowSize, hs, if_true]

/-- the legal range: every descriptor-encoded window lies in [1 KiB, (1<<41) + 7·(1<<38)], the
extracted limits are the RFC's, and the range check (operators from the source text) accepts
exactly that range for EVERY value -/
theorem window_legal_range :
    (∀ wd, wd < 256 → Spec.windowMin ≤ Spec.windowSize wd ∧ Spec.windowSize wd ≤ Spec.windowMax) ∧
    Gen.minWindowSize = Spec.windowMin ∧ Gen.maxWindowSize = Spec.windowMax ∧
    (∀ w, checkWindowRange w =
      if w < Spec.windowMin then .error (.tooSmall w) else if w > Spec.windowMax then .error (.tooBig w) else .ok w) := by
  refine ⟨Zstd.Proofs.Headers.window_range, by decide, by decide, ?_⟩
  intro w
  simp only [checkWindowRange, Gen.windowMinOk, Gen.windowMaxOk, Gen.minWindowSize, Gen.maxWindowSize,
    Spec.windowMin, Spec.windowMax, decide_eq_true_eq]
  by_cases h1 : w < 1024
  · have : ¬ w ≥ 1024 := by omega
    simp [h1, this]
  · have h1' : w ≥ 1024 := by omega
    by_cases h2 : w > 2 ^ 41 + 7 * 2 ^ 38
    · have : ¬ w ≤ 4123168604160 := by omega
      simp [h1, h1', h2, this]
    · have : w ≤ 4123168604160 := by omega
      simp [h1, h1', h2, this]

example : Spec.windowSize 0xFF = Spec.windowMax ∧ Spec.windowSize 0 = Spec.windowMin := by decide

open Zstd.Proofs.Headers in
/-- every header `FrameCompressor::compress` can write (no content size, no dictionary, checksum
flag = the `hash` feature, window from `Matcher::window_size()`) for every requested window up to
2^41: six bytes, read back with the same flags, and the DECLARED window is legal, at least the
requested one, and less than twice it (above the 2 KiB floor) -/
theorem frameHeader_roundtrip : ∀ (hash : Bool) w rest, w ≤ 2 ^ 41 →
    ∃ bs hd W, (compressFrameHeader hash w).serialize = .ok bs ∧ bs.length = 6 ∧
      readFrameHeader (bs ++ rest) = .ok (hd, 6, rest) ∧
      hd.dictId = none ∧ hd.fcs = 0 ∧ Gen.fdChecksum hd.desc = hash ∧ Gen.fdSingleSegment hd.desc = false ∧
      Gen.fdFcsFlag hd.desc = 0 ∧ Gen.fdDictIdFlag hd.desc = 0 ∧
      hd.windowSize = .ok W ∧ w ≤ W ∧ Spec.windowMin ≤ W ∧ W ≤ Spec.windowMax ∧ (2048 < w → W < 2 * w) := by
  intro hash w rest hw
  have hl : winLog w ≤ 41 := winLog_le w 41 hw
  obtain ⟨s1, s2⟩ := winLog_spec w
  generalize hE : (if winLog w > 10 then winLog w else 11) - 10 = E
  have hE31 : E ≤ 31 := by subst hE; split <;> omega
  have hser : (compressFrameHeader hash w).serialize = .ok (leBytes 4 Gen.magicNum ++ [4 * hash.toNat] ++ [8 * E] ++ [] ++ []) := by
    have hwb : (compressFrameHeader hash w).windowBytes = .ok [8 * E] := by
      simp only [EncFrameHeader.windowBytes, compressFrameHeader, encWindowDescriptor_eq w hw, hE]
    simp only [EncFrameHeader.serialize, compress_descriptor, hwb]
    rfl
  have hd4 : 4 * hash.toNat < 256 := by cases hash <;> decide
  have hread := readFrameHeader_eq (4 * hash.toNat) (8 * E :: rest) hd4
  have hdesc : Spec.parseFrameDesc (4 * hash.toNat) = ⟨0, false, hash, 0⟩ := by cases hash <;> decide
  simp only [hdesc, Spec.didFieldSize, Spec.fcsFieldSize, Bool.false_eq_true, if_false, List.length_cons] at hread
  have c1 : ¬ (rest.length + 1 < 1) := by omega
  have c2 : ¬ (rest.length + 1 < 1 + 0) := by omega
  have c3 : ¬ (rest.length + 1 < 1 + 0 + 0) := by omega
  simp only [c1, c2, c3, if_false, List.take_zero, leNat, ne_eq, not_true_eq_false, false_and, List.take_succ_cons,
    Nat.mul_zero, Nat.add_zero, List.drop_succ_cons, List.drop_zero, Nat.reduceAdd, Nat.reduceEqDiff] at hread
  have hW : Gen.windowSizeExpr (8 * E) = 2 ^ (10 + E) := windowSizeExpr_of_exp E hE31
  have hpow : (2:Nat) ^ (10 + E) ≤ 2 ^ 41 := Nat.pow_le_pow_right (by decide) (by omega)
  have hpow2 : (2:Nat) ^ 10 ≤ 2 ^ (10 + E) := Nat.pow_le_pow_right (by decide) (by omega)
  refine ⟨_, { desc := 4 * hash.toNat, windowDescriptor := 8 * E, dictId := none, fcs := 0 }, 2 ^ (10 + E), hser,
    by simp [leBytes_length], ?_, rfl, rfl, ?_, ?_, ?_, ?_, ?_, ?_, ?_, ?_, ?_⟩
  · rw [← hread]; simp only [List.append_assoc, List.cons_append, List.nil_append, List.append_nil]
  · show Gen.fdChecksum (4 * hash.toNat) = hash
    cases hash <;> decide
  · show Gen.fdSingleSegment (4 * hash.toNat) = false
    cases hash <;> decide
  · show Gen.fdFcsFlag (4 * hash.toNat) = 0
    cases hash <;> decide
  · show Gen.fdDictIdFlag (4 * hash.toNat) = 0
    cases hash <;> decide
  · have hs : Gen.fdSingleSegment (4 * hash.toNat) = false := by cases hash <;> decide
    simp only [DecFrameHeader.windowSize, hs, Bool.false_eq_true, if_false, hW, checkWindowRange, Gen.windowMinOk,
      Gen.windowMaxOk, Gen.minWindowSize, Gen.maxWindowSize, decide_eq_true_eq]
    have a1 : (2:Nat) ^ (10 + E) ≥ 1024 := by omega
    have a2 : (2:Nat) ^ (10 + E) ≤ 4123168604160 := by omega
    simp only [a1, a2, if_true]
  · subst hE
    by_cases h10 : winLog w > 10
    · simp only [h10, if_true]
      have : 10 + (winLog w - 10) = winLog w := by omega
      rw [this]; exact s1
    · simp only [h10, if_false]
      have : winLog w ≤ 10 := by omega
      have : (2:Nat) ^ winLog w ≤ 2 ^ 10 := Nat.pow_le_pow_right (by decide) this
      have : (2:Nat) ^ (10 + (11 - 10)) = 2048 := by decide
      omega
  · simp only [Spec.windowMin]; omega
  · simp only [Spec.windowMax]; omega
  · intro hbig
    subst hE
    have h10 : winLog w > 10 := by
      apply Classical.byContradiction
      intro hc
      have : winLog w ≤ 10 := by omega
      have : (2:Nat) ^ winLog w ≤ 2 ^ 10 := Nat.pow_le_pow_right (by decide) this
      omega
    simp only [h10, if_true]
    have : 10 + (winLog w - 10) = winLog w := by omega
    rw [this]
    exact s2 (by omega)

example : (compressFrameHeader true 131072).serialize = .ok [40, 181, 47, 253, 4, 56] := by decide

/-- observation (not reachable with the built-in matcher, whose window is 128 KiB): a user
`Matcher` reporting a window above 2^41 gets a header that DECLARES LESS than requested — the
exponent is shifted out of the byte (`exponent << 3` on a `u8`): 2^41+1 is declared as 1 KiB -/
theorem frameHeader_window_above_2p41_wraps :
    encWindowDescriptor (2 ^ 41 + 1) = .ok 0 ∧ Spec.windowSize 0 = 1024 := by decide

/-- observation: an 8-byte frame content size cannot be written — `descriptor` has the arm
`3 => 8` where `8 => 3` is meant, so a size ≥ 2^32 panics (the struct is crate-private and
`compress` never sets a content size) -/
theorem frameHeader_fcs8_faults :
    (EncFrameHeader.serialize ⟨some (2 ^ 32), true, false, none, none⟩).toOption = none ∧
    (EncFrameHeader.serialize ⟨some (2 ^ 32 - 1), true, false, none, none⟩).toOption =
      some [40, 181, 47, 253, 0xA0, 255, 255, 255, 255] := by decide

/-- observation: with `single_segment = false` a content size below 256 is written as one byte
although the descriptor then announces no Frame_Content_Size field: the decoder reads content
size 0 (same unreachable struct) -/
theorem frameHeader_fcs1_not_announced :
    EncFrameHeader.serialize { fcs := some 7, singleSegment := false, checksum := false, dictId := none, windowSize := some 1024 }
      = .ok [40, 181, 47, 253, 0, 8, 7] ∧
    (readFrameHeader [40, 181, 47, 253, 0, 8, 7]).toOption.map (fun r => (r.1.fcs, r.2.1)) = some (0, 6) := by decide

end Zstd.Props.C14
