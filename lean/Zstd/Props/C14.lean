import Zstd.Model.SeqCodes
import Zstd.Spec.Tables
/-
C14 — Sequence codes, repeat-offset rules and section headers match the specification.

Property theorems only (helper lemmas live in `Zstd/Proofs/`).  Every table row and range arm
on the model side comes from `Zstd.Gen.*`, i.e. from the current source text of /repo, so these
theorems are re-checked by the kernel against what the code says now.
-/
namespace Zstd.Props.C14
open Zstd Zstd.Model

/-- the literal-length decode table of the code is the RFC's table, for every code -/
theorem ll_dec_eq_rfc : ∀ c, c < 36 → lookupLL c = .ok (Spec.llCodeTable.getD c (0, 0)) := by
  decide

/-- the match-length decode table of the code is the RFC's table, for every code -/
theorem ml_dec_eq_rfc : ∀ c, c < 53 → lookupML c = .ok (Spec.mlCodeTable.getD c (0, 0)) := by
  decide

end Zstd.Props.C14
