import Zstd.Proofs.MatchValid
/-
C17 — The built-in match finder reports only true, in-window matches that tile the block.

Property theorems only (helper lemmas live in `Zstd/Proofs/Match*.lean`).  The model is
`Zstd/Model/MatchGenerator.lean`; constants and comparison operators come from `Zstd.Gen.*`, i.e.
from the current source text.

Quantification.  Every theorem holds
* for EVERY hash function `key` (the soundness theorems need no assumption on it at all: a hash
  that leaves the slot array makes the code panic = the model return a `Fault`, and the theorems
  speak about calls that return; the no-panic theorems assume `KeyOk key`, which `realKey` — the
  hash of the code — satisfies: `realKey_in_range`);
* for EVERY history: `Reachable key sliceSize maxSlices d` means that `d` is the state of a driver
  created by `MatchGeneratorDriver::new(sliceSize, maxSlices)` after ANY finite sequence of calls of
  `reset / get_next_space / commit_space (any vector) / start_matching / skip_matching` none of which
  panicked.  This covers eviction, skipped blocks, reset and reuse with recycled buffers and stores,
  and also call orders that `FrameCompressor` never uses.

Vocabulary (definitions in the model file): `d.windowBytes` = the bytes the matcher retains, oldest
first (the debug build's `concat_window`); `d.block` = the last committed block (`get_last_space`);
`d.retainedBefore` = number of retained bytes in front of it; `startOf seqs i` = position in the block
where sequence `i` starts; `p0 = d.mg.suffixIdx` = position in the block where reporting starts
(`0` right after `commit_space`: theorem `commit_fresh`).
-/
namespace Zstd.Props.C17
open Zstd Zstd.Model Zstd.Model.MG Zstd.Proofs.MG

variable (key : KeyFn) (sl n : Nat) (d d' : Driver) (seqs : List Seq)

/-! ### the block is tiled -/

/-- the literal runs and matches account for exactly the bytes of the block -/
theorem tiling_lengths (hr : Reachable key sl n d) (h : d.startMatching key = .ok (d', seqs)) :
    d.mg.suffixIdx + (seqs.map Seq.span).sum = d.block.length := by
  obtain ⟨last, hl, _, hp, _⟩ := start_core key sl n d d' seqs hr h
  rw [block_eq d last hl]
  simpa using (parse_index _ _ seqs _ hp).1

/-- every literal run is the run of block bytes at its place, and the sequence stays inside the block -/
theorem tiling_literals (hr : Reachable key sl n d) (h : d.startMatching key = .ok (d', seqs))
    (i : Nat) (sq : Seq) (hi : seqs[i]? = some sq) :
    sq.lits = (d.block.drop (d.mg.suffixIdx + startOf seqs i)).take sq.lits.length ∧
    d.mg.suffixIdx + startOf seqs i + sq.span ≤ d.block.length := by
  obtain ⟨last, hl, _, hp, _⟩ := start_core key sl n d d' seqs hr h
  rw [block_eq d last hl]
  obtain ⟨h1, h2, _, _⟩ := (parse_index _ _ seqs _ hp).2 i sq hi
  refine ⟨?_, by simpa using h2⟩
  rw [lits_eq] at h1
  have : d.mg.suffixIdx + startOf seqs i + sq.lits.length - (d.mg.suffixIdx + startOf seqs i) = sq.lits.length := by
    omega
  rw [this] at h1
  exact h1

/-- a `Literals` sequence is the last one reported and is never empty -/
theorem literals_only_last (hr : Reachable key sl n d) (h : d.startMatching key = .ok (d', seqs))
    (i : Nat) (l : List Byte) (hi : seqs[i]? = some (.literals l)) : i + 1 = seqs.length ∧ l ≠ [] := by
  obtain ⟨last, _, _, hp, _⟩ := start_core key sl n d d' seqs hr h
  exact ((parse_index _ _ seqs _ hp).2 i _ hi).2.2.2 l rfl

/-! ### every match is true, in the window, in the retained data -/

/-- the facts about one reported match, in one place -/
theorem match_facts (hr : Reachable key sl n d) (h : d.startMatching key = .ok (d', seqs))
    (i : Nat) (l : List Byte) (off ml : Nat) (hi : seqs[i]? = some (.triple l off ml)) :
    let p := d.retainedBefore + (d.mg.suffixIdx + startOf seqs i + l.length)
    minMatchLen ≤ ml ∧ ml ≤ off ∧ off ≤ p ∧ p + ml ≤ d.windowBytes.length ∧ off ≤ d.windowSize ∧
    ∀ k, k < ml → d.windowBytes[p + k - off]? = d.windowBytes[p + k]? := by
  obtain ⟨last, hl, hb, hp, hs, htot, _⟩ := start_core key sl n d d' seqs hr h
  obtain ⟨_, h2, h3, _⟩ := (parse_index _ _ seqs _ hp).2 i _ hi
  have hg := h3 l off ml rfl
  obtain ⟨g1, g2, g3, g4, g5⟩ := goodIn_bytes _ last.data last.baseOffset _ off ml hb (shape_getLast? _ _ hl) hg
  have hsplit := (windowBytes_split d last hl).2
  rw [block_eq d last hl] at hsplit
  simp only [Array.length_toList] at hsplit
  have hwl : d.windowBytes.length = total (shape d.mg.window) := by rw [windowBytes_eq]; simp
  simp only []
  rw [retainedBefore_eq, windowBytes_eq]
  rw [retainedBefore_eq] at hsplit
  refine ⟨g1, g2, g3, by simp only [flat_length]; omega, by omega, ?_⟩
  intro k hk
  have := g5 k hk
  simpa [Nat.add_assoc] using this

/-- `true_match`: the `match_len` bytes at distance `offset` before the match position in the
retained window are the matched bytes (this is the `debug_assert_eq!` of `next_sequence`) -/
theorem true_match (hr : Reachable key sl n d) (h : d.startMatching key = .ok (d', seqs))
    (i : Nat) (l : List Byte) (off ml : Nat) (hi : seqs[i]? = some (.triple l off ml)) :
    let p := d.retainedBefore + (d.mg.suffixIdx + startOf seqs i + l.length)
    d.windowBytes.extract (p - off) (p - off + ml) = d.windowBytes.extract p (p + ml) ∧
    (d.windowBytes.extract p (p + ml)).length = ml := by
  obtain ⟨_, h2, h3, h4, _, h6⟩ := match_facts key sl n d d' seqs hr h i l off ml hi
  simp only [] at h3 h4 h6 ⊢
  constructor
  · apply List.ext_getElem?
    intro k
    simp only [List.extract_eq_take_drop, List.getElem?_take, List.getElem?_drop]
    have e1 : ∀ a, a + ml - a = ml := by intro a; omega
    rw [e1, e1]
    by_cases hk : k < ml
    · simp only [hk, if_true]
      have := h6 k hk
      have e2 : d.retainedBefore + (d.mg.suffixIdx + startOf seqs i + l.length) - off + k
          = d.retainedBefore + (d.mg.suffixIdx + startOf seqs i + l.length) + k - off := by omega
      rw [e2]; exact this
    · simp [hk]
  · simp [List.extract_eq_take_drop]; omega

/-- `offset_le_window`: the distance never exceeds the window size the matcher advertises
(`Matcher::window_size`) -/
theorem offset_le_window (hr : Reachable key sl n d) (h : d.startMatching key = .ok (d', seqs))
    (i : Nat) (l : List Byte) (off ml : Nat) (hi : seqs[i]? = some (.triple l off ml)) :
    off ≤ d.windowSize :=
  (match_facts key sl n d d' seqs hr h i l off ml hi).2.2.2.2.1

/-- `offset_le_retained`: the distance never exceeds the number of bytes still retained in front
of the match position -/
theorem offset_le_retained (hr : Reachable key sl n d) (h : d.startMatching key = .ok (d', seqs))
    (i : Nat) (l : List Byte) (off ml : Nat) (hi : seqs[i]? = some (.triple l off ml)) :
    off ≤ d.retainedBefore + (d.mg.suffixIdx + startOf seqs i + l.length) :=
  (match_facts key sl n d d' seqs hr h i l off ml hi).2.2.1

/-- `match_len ≥ MIN_MATCH_LEN` (= 5 in the current source) -/
theorem match_len_ge_min (hr : Reachable key sl n d) (h : d.startMatching key = .ok (d', seqs))
    (i : Nat) (l : List Byte) (off ml : Nat) (hi : seqs[i]? = some (.triple l off ml)) :
    Zstd.Gen.minMatchLen ≤ ml ∧ 5 ≤ ml := by
  have := (match_facts key sl n d d' seqs hr h i l off ml hi).1
  exact ⟨this, this⟩

/-- the source of a match never overlaps the match itself -/
theorem match_len_le_offset (hr : Reachable key sl n d) (h : d.startMatching key = .ok (d', seqs))
    (i : Nat) (l : List Byte) (off ml : Nat) (hi : seqs[i]? = some (.triple l off ml)) : ml ≤ off :=
  (match_facts key sl n d d' seqs hr h i l off ml hi).2.1

/-- `offset_pos`: the distance is at least 1 (in fact at least `MIN_MATCH_LEN`) -/
theorem offset_pos (hr : Reachable key sl n d) (h : d.startMatching key = .ok (d', seqs))
    (i : Nat) (l : List Byte) (off ml : Nat) (hi : seqs[i]? = some (.triple l off ml)) : 1 ≤ off ∧ 5 ≤ off := by
  have h1 := (match_len_ge_min key sl n d d' seqs hr h i l off ml hi).2
  have h2 := match_len_le_offset key sl n d d' seqs hr h i l off ml hi
  omega

/-- The decoder's view, all of the above in one statement: executing the reported sequences the way
a decoder does (`execSeqs`: append literals, copy `match_len` bytes from `offset` back) on top of the
retained bytes and the part of the block that precedes the reporting position yields exactly the
retained bytes followed by the block. -/
theorem replay_reconstructs_block (hr : Reachable key sl n d) (h : d.startMatching key = .ok (d', seqs)) :
    execSeqs (d.windowBytes.take (d.retainedBefore + d.mg.suffixIdx)) seqs = some d.windowBytes ∧
    d.windowBytes = d.windowBytes.take d.retainedBefore ++ d.block := by
  obtain ⟨last, hl, hb, hp, _⟩ := start_core key sl n d d' seqs hr h
  refine ⟨?_, (windowBytes_split d last hl).1⟩
  rw [windowBytes_eq, retainedBefore_eq]
  exact parse_exec _ last.data last.baseOffset hb (shape_getLast? _ _ hl) seqs _ hp

/-- matching changes neither the retained bytes nor the block; afterwards the block counts as processed -/
theorem matching_keeps_window (hr : Reachable key sl n d) (h : d.startMatching key = .ok (d', seqs)) :
    d'.windowBytes = d.windowBytes ∧ d'.block = d.block ∧ d'.mg.processed = true :=
  matching_keeps_window_core key sl n d d' seqs hr h

/-! ### the window across `commit_space` (eviction), `skip_matching`, `reset` -/

/-- `commit_space` drops whole blocks from the front of the window (eviction), appends the new block,
keeps at most the advertised window size, and reporting for the new block starts at position 0 -/
theorem commit_fresh (hr : Reachable key sl n d) (space : Array Byte) (cap : Nat)
    (h : d.commitSpace space cap = .ok d') :
    d'.mg.suffixIdx = 0 ∧ d'.block = space.toList ∧
    (∃ k, d'.windowBytes = d.windowBytes.drop k ++ space.toList) ∧
    d'.windowBytes.length ≤ d'.windowSize ∧ d'.windowSize = d.windowSize :=
  commit_fresh_core key sl n d d' hr space cap h

/-- a skipped block stays in the window (later blocks may match into it) and counts as processed -/
theorem skip_keeps_window (hr : Reachable key sl n d) (h : d.skipMatching key = .ok d') :
    d'.windowBytes = d.windowBytes ∧ d'.mg.processed = true :=
  skip_keeps_window_core key sl n d d' hr h

/-- after `reset` nothing is retained -/
theorem reset_empties_window : d.reset.windowBytes = [] ∧ d.reset.mg.processed = true :=
  reset_empties_window_core d

/-! ### the invariant -/

/-- base offsets, window-size accounting and indices, in every reachable state, for every hash:
`base_offset` of an entry = number of bytes from its start to the start of the last entry;
`window_size = Σ|entry| ≤ max_window_size = maxSlices * sliceSize`;
`last_idx_in_sequence = suffix_idx ≤ |last entry|` between calls -/
theorem invariant_wf (hr : Reachable key sl n d) :
    BaseOk (shape d.mg.window) ∧ d.mg.windowSize = d.windowBytes.length ∧ d.mg.windowSize ≤ d.windowSize ∧
    d.windowSize = n * sl ∧ d.mg.lastIdxInSequence = d.mg.suffixIdx ∧
    (d.mg.window ≠ [] → d.mg.suffixIdx ≤ d.block.length) := by
  obtain ⟨hwf, hm⟩ := reachable_wf key sl n d hr
  refine ⟨hwf.base, by rw [windowBytes_eq, flat_length]; exact hwf.size, hwf.le_max, hm, hwf.idx_eq, ?_⟩
  intro hne
  cases hl : d.mg.window.getLast? with
  | none => exact absurd (List.getLast?_eq_none_iff.mp hl) hne
  | some last =>
    rw [block_eq d last hl]
    simpa using hwf.idx_le last hl

/-- the content of the suffix stores, in every reachable state, for every hash that stays inside the
slot array: every stored index `idx` of an entry satisfies `idx + MIN_MATCH_LEN ≤ |entry.data|`
(and `idx < |entry.data|`), in the entry being matched additionally `idx < suffix_idx`; every store
has `len_log > 0` and at least one slot; older entries have `base_offset ≥ |data|`; every pooled
(recycled) store is empty -/
theorem invariant_stores (hk : KeyOk key) (hr : Reachable key sl n d) :
    (∀ e ∈ d.mg.window.dropLast, StoreOk e.suffixes ∧ IdxOk e.suffixes e.data.size e.data.size ∧
      e.data.size ≤ e.baseOffset) ∧
    (∀ last, d.mg.window.getLast? = some last →
      StoreOk last.suffixes ∧ IdxOk last.suffixes d.mg.suffixIdx last.data.size) ∧
    (∀ st ∈ d.suffixPool, StoreOk st ∧ StoreEmpty st) := by
  have := reachable_inv key hk sl n d hr
  exact ⟨this.sok.older, this.sok.last, this.pool⟩

/-! ### no panic under the documented call order -/

/-- the hash of the code stays inside the slot array (so every `KeyOk` theorem applies to it) -/
theorem realKey_in_range : KeyOk realKey := realKey_ok

/-- `start_matching` on a non-empty window never panics and terminates (the fuel of the model never
runs out), whatever happened before -/
theorem start_matching_no_fault (hk : KeyOk key) (hr : Reachable key sl n d) (hne : d.mg.window ≠ []) :
    ∃ d' seqs, d.startMatching key = .ok (d', seqs) := by
  have hinv := reachable_inv key hk sl n d hr
  obtain ⟨g', seqs, e, _⟩ := startMatching_ok key hk d.mg hinv.wf hinv.sok hne
  exact ⟨{ d with mg := g' }, seqs, by simp [Driver.startMatching, e]⟩

/-- `skip_matching` on a non-empty window never panics -/
theorem skip_matching_no_fault (hk : KeyOk key) (hr : Reachable key sl n d) (hne : d.mg.window ≠ []) :
    ∃ d', d.skipMatching key = .ok d' := by
  have hinv := reachable_inv key hk sl n d hr
  obtain ⟨g', e, _⟩ := skipMatching_ok key hk d.mg hinv.wf hinv.sok hne
  exact ⟨{ d with mg := g' }, by simp [Driver.skipMatching, e]⟩

/-- `add_data_assert_holds`: `commit_space` never panics (neither the `assert!` of `add_data`, nor the
one of `reserve`, nor `window.remove(0)` on an empty window, nor the `window_size` subtraction) when
the previous block was matched or skipped (or there is none) and the space is not larger than the
advertised window.  By `matching_keeps_window`, `skip_keeps_window`, `reset_empties_window` the first
condition holds under the call order of `FrameCompressor::compress`. -/
theorem add_data_assert_holds (hk : KeyOk key) (hr : Reachable key sl n d) (space : Array Byte) (cap : Nat)
    (hp : d.mg.processed = true) (hsz : space.size ≤ d.windowSize) :
    ∃ d', d.commitSpace space cap = .ok d' := by
  obtain ⟨d', e, _⟩ := commitSpace_ok d space cap (reachable_inv key hk sl n d hr) hp hsz
  exact ⟨d', e⟩

/-- conversely, a `commit_space` that does not panic was called in a processed state with a space
that fits the window: the two assertions are exactly the documented protocol -/
theorem commit_requires_protocol (space : Array Byte) (cap : Nat) (h : d.commitSpace space cap = .ok d') :
    d.mg.processed = true ∧ space.size ≤ d.windowSize :=
  commitSpace_asserts d d' space cap h

/-! ### the documented call order (`FrameCompressor::compress`): spaces come from `get_next_space` -/

/-- `slice_size` never changes -/
theorem slice_size_const (hr : Reachable key sl n d) : d.sliceSize = sl :=
  slice_size_const_core key sl n d hr

/-- As long as every committed vector has capacity `slice_size` (true when only spaces obtained from
`get_next_space` are committed, truncated but never reallocated), every vector the driver owns has
that capacity (`CapsOk`), through eviction, reset and recycling. -/
theorem protocol_caps_preserved (hc : CapsOk d) (op : Op) (h : d.step key op = .ok d')
    (hop : ∀ space cap, op = .commitSpace space cap → space.size ≤ cap ∧ cap = d.sliceSize) :
    CapsOk d' ∧ d'.sliceSize = d.sliceSize :=
  protocol_caps_preserved_core key d d' hc op h hop

/-- under the protocol `get_next_space` always hands out exactly `slice_size` bytes -/
theorem protocol_next_space (hc : CapsOk d) : d.getNextSpace.2.size = d.sliceSize :=
  protocol_next_space_core d hc

/-- `add_data_assert_holds` under the driver protocol: with at least one slice, after `new`, `reset`,
`start_matching` or `skip_matching` (`processed`), committing any data that fits the space handed out
by `get_next_space` never panics -/
theorem protocol_commit_no_fault (hk : KeyOk key) (hr : Reachable key sl n d) (hn : 1 ≤ n) (hc : CapsOk d)
    (hp : d.mg.processed = true) (data : Array Byte) (hfit : data.size ≤ d.getNextSpace.2.size) :
    ∃ d', d.getNextSpace.1.commitSpace data d.sliceSize = .ok d' := by
  have hr1 : Reachable key sl n d.getNextSpace.1 := .step .getNextSpace hr rfl
  have hmg : d.getNextSpace.1.mg = d.mg := by unfold Driver.getNextSpace; split <;> rfl
  have hsz := protocol_next_space d hc
  have hsl := slice_size_const key sl n d hr
  have hws := (invariant_wf key sl n _ hr1).2.2.2.1
  apply add_data_assert_holds key sl n _ hk hr1 data d.sliceSize (by rw [hmg]; exact hp)
  rw [hws]
  have : sl ≤ n * sl := Nat.le_mul_of_pos_left sl hn
  omega

example : CapsOk (Driver.new 1000 1) := ⟨by simp [Driver.new], by simp [Driver.new, MatchGenerator.new, caps]⟩

/-! ### production constants (`MatchGeneratorDriver::new(128 KiB, 1)` in `FrameCompressor::new`) -/

/-- with the production constants every reported offset is at most 131072 (so `of = offset + 3`
fits the window descriptor the frame header announces) -/
theorem prod_offset_le (hr : Reachable key Zstd.Gen.prodSliceSize Zstd.Gen.prodMaxSlices d)
    (h : d.startMatching key = .ok (d', seqs))
    (i : Nat) (l : List Byte) (off ml : Nat) (hi : seqs[i]? = some (.triple l off ml)) : off ≤ 131072 := by
  have h1 := offset_le_window key _ _ d d' seqs hr h i l off ml hi
  have h2 := (invariant_wf key _ _ d hr).2.2.2.1
  have : Zstd.Gen.prodMaxSlices * Zstd.Gen.prodSliceSize = 131072 := by decide
  omega

/-- If nothing is retained in front of the block (always the case at production size under the call
order of `FrameCompressor::compress`: `prod_window_is_current_block`), no match reaches into a
previous block: its source lies inside the current block, and the first sequence of the block
carries at least 5 literals. -/
theorem single_entry_matches_in_block (hr : Reachable key sl n d) (h : d.startMatching key = .ok (d', seqs))
    (hsingle : d.retainedBefore = 0)
    (i : Nat) (l : List Byte) (off ml : Nat) (hi : seqs[i]? = some (.triple l off ml)) :
    off ≤ d.mg.suffixIdx + startOf seqs i + l.length ∧ (d.mg.suffixIdx = 0 → i = 0 → 5 ≤ l.length) := by
  have h1 := offset_le_retained key sl n d d' seqs hr h i l off ml hi
  have h2 := (offset_pos key sl n d d' seqs hr h i l off ml hi).2
  rw [hsingle] at h1
  refine ⟨by omega, ?_⟩
  intro h0 hi0
  subst hi0
  rw [h0, startOf_zero] at h1
  omega

/-- At production size (one slice) a non-empty block committed after a FULL block (or into an empty
window) evicts everything: the window is the current block only.  `FrameCompressor::compress` fills
every block but the last of a frame completely and resets the matcher between frames, so there the
hypothesis always holds. -/
theorem prod_window_is_current_block (hr : Reachable key sl 1 d) (space : Array Byte) (cap : Nat)
    (h : d.commitSpace space cap = .ok d') (hne : 0 < space.size)
    (hfull : d.mg.window = [] ∨ d.block.length = sl) :
    d'.retainedBefore = 0 ∧ d'.windowBytes = space.toList := by
  obtain ⟨hwf, hmax⟩ := reachable_wf key sl 1 d hr
  have hcf := commit_fresh key sl 1 d d' hr space cap h
  obtain ⟨_, hblk, ⟨k, hk⟩, hlen, hws⟩ := hcf
  have hmax' : d'.windowSize = sl := by rw [hws]; simpa [Driver.windowSize] using hmax
  -- the new window is a suffix of the old one plus the block and has at most `sl` bytes
  have hl : d'.mg.window.getLast? ≠ none := by
    intro hnone
    have : d'.block = [] := by simp [Driver.block, hnone]
    rw [this] at hblk
    have : space.size = 0 := by simpa using congrArg List.length hblk.symm
    omega
  cases hl' : d'.mg.window.getLast? with
  | none => exact absurd hl' hl
  | some last' =>
    obtain ⟨hsplit, hsum⟩ := windowBytes_split d' last' hl'
    rw [hblk] at hsum
    simp only [Array.length_toList] at hsum
    -- how much of the old window can remain
    have hdrop : (d.windowBytes.drop k).length + space.size = d'.windowBytes.length := by
      rw [hk]; simp
    have hkeep : ∀ last, d.mg.window.getLast? = some last → d.windowBytes.length ≤ k ∨ True := fun _ _ => Or.inr trivial
    -- eviction removes whole blocks: what remains of the old window is `flat` of a suffix of entries
    unfold Driver.commitSpace at h
    split at h
    · simp at h
    · rename_i g released hadd
      simp only [Except.ok.injEq] at h
      subst h
      obtain ⟨hwf', _, _, ⟨kept, hw, hw'⟩, hle⟩ := addData_spec _ _ _ _ _ _ hwf hadd
      have hkeptnil : kept = [] := by
        rcases hfull with hnil | hfullb
        · rw [hnil] at hw
          have := congrArg List.length hw
          simp at this
          exact List.eq_nil_of_length_eq_zero (by omega)
        · -- the old last block is full, so it cannot stay together with a non-empty new block
          cases hkl : kept.getLast? with
          | none => exact List.getLast?_eq_none_iff.mp hkl
          | some lastk =>
            exfalso
            have hgl : d.mg.window.getLast? = some lastk := by rw [hw, List.getLast?_append, hkl]; simp
            rw [block_eq d lastk hgl] at hfullb
            simp only [Array.length_toList] at hfullb
            have hsz := hwf'.size
            simp only [hw', shape_append, total_append, shape_cons, shape_nil, total_cons, total_nil] at hsz
            have hmem : total (shape (shiftBases kept)) ≥ lastk.data.size := by
              have hts : total (shape (shiftBases kept)) = total (shape kept) := by
                unfold shiftBases
                split
                · rfl
                · simp [shape, total, List.map_map, Function.comp_def]
              rw [hts, eq_dropLast_append_of_getLast? kept lastk hkl]
              simp
            have hle' : g.windowSize ≤ sl := by
              have := hle
              simp only [hmax] at this
              omega
            omega
      subst hkeptnil
      constructor
      · simp [Driver.retainedBefore, Driver.recycle, hw', shiftBases]
      · rw [windowBytes_eq]
        simp [Driver.recycle, hw', shiftBases, flat]

/-! ### `common_prefix_len` -/

/-- `common_prefix_len(xs, ys) = mismatch_chunks::<8>(xs, ys)` with `xs = a[i..ihi]`, `ys = b[j..jhi]`
(8-byte chunks first, then single bytes from where the chunk phase stopped) is exactly the length
of the MAXIMAL common prefix: all bytes before it agree, and it stops only at the end of one of the
slices or at a differing byte; it equals the plain byte-by-byte count.  Holds for every chunk size. -/
theorem common_prefix_len_maximal (a : Array Byte) (i ihi : Nat) (b : Array Byte) (j jhi : Nat)
    (ha : ihi ≤ a.size) (hb : jhi ≤ b.size) (hi : i ≤ ihi) (hj : j ≤ jhi) :
    IsMaxCommonPrefix a i ihi b j jhi (mismatchChunks 8 a i ihi b j jhi) ∧
    mismatchChunks 8 a i ihi b j jhi = commonPrefixLen a i ihi b j jhi :=
  ⟨mismatchChunks_isMax 8 a i ihi b j jhi ha hb hi hj, mismatchChunks_eq_commonPrefixLen 8 a i ihi b j jhi ha hb hi hj⟩

example : mismatchChunks 8 #[1,2,3,4,5,6,7,8,9,10,11,0] 0 12 #[1,2,3,4,5,6,7,8,9,10,12] 0 11 = 10 := by decide

/-! ### the compressor's call protocol (`FrameCompressor::compress` / `compress_fastest`):
the built-in matcher is a VALID MATCHER in the sense of the encoder model (C16 / C02) and never panics

`Enc.builtinFrame lvl d data` (Model/EncCoders.lean) drives this model the way `compress` does:
`reset`, then per block `get_next_space`, `commit_space` of the block read into that space,
`skip_matching` when the block is constant (RLE) and `start_matching` otherwise, stopping after the
first block that is not full (or the extra empty block).  `BuiltinState sl n d` = `d` is reachable from
`MatchGeneratorDriver::new(sl, n)` with the code's hash and every vector it owns has capacity `sl`
(only spaces from `get_next_space` were committed).  It holds for a new compressor
(`builtin_state_fresh`), is re-established by every frame at every level (`builtin_no_fault`), hence
holds after ANY history of frames (`builtin_state_history`), including frames that panicked outside the
matcher (the matcher is then simply in a reachable state, and the next frame starts with `reset`).
Read fragmentation does not reach the matcher: `compress` fills every space completely before it
commits it.

`Enc.ValidMatcher W script data`: every space has 1..=128 KiB, `W ≤ 2^41`, and for every block that
is not constant the reported sequences, executed on top of the WHOLE frame before the block
(`3 ≤ match_len`, `1 ≤ offset ≤ min W (bytes before the match position in the frame)`), regenerate
exactly the block.  What the matcher retains is a suffix of the frame so far whatever was evicted
(`commit_fresh`), so a true match at distance `offset` in the retained window (`true_match`,
`offset_le_retained`, `offset_le_window`) is one in the frame.  With the production constants
(one slice of 128 KiB) that suffix is the current block (`prod_window_is_current_block`). -/

theorem builtin_state_fresh : BuiltinState sl n (Driver.new sl n) := builtinState_new sl n

/-- `builtin_no_fault`: for every level, input and state the protocol can produce, no call the
compressor makes on the built-in matcher panics (asserts of `add_data`/`reserve`, slices, `unwrap`s,
slot indexing with the code's hash; the model's fuel does not run out), and the state stays in the
protocol -/
theorem builtin_no_fault (hsl : 0 < sl) (hn : 1 ≤ n) (lvl : Enc.Level) (hbs : BuiltinState sl n d) (data : List Byte) :
    ∃ d' arr, Enc.builtinFrame lvl d data = .ok (d', arr) ∧ BuiltinState sl n d' :=
  builtinFrame_no_fault sl n hsl hn lvl d hbs data

/-- after any history of frames (any levels, any inputs) through one compressor -/
theorem builtin_state_history (hsl : 0 < sl) (hn : 1 ≤ n) (jobs : List (Enc.Level × List Byte)) :
    BuiltinState sl n (builtinHistory jobs (Driver.new sl n)) :=
  builtinHistory_state sl n hsl hn jobs _ (builtinState_new sl n)

/-- `builtin_valid_matcher`, any slice size / slice count: the script of a Fastest frame is a
`ValidMatcher` for the advertised window `n * sl` -/
theorem builtin_valid_matcher_general (hsl : 0 < sl) (hn : 1 ≤ n) (hmax : sl ≤ Zstd.Gen.maxBlockSize)
    (hw : n * sl ≤ 2 ^ 41) (hbs : BuiltinState sl n d) (data : List Byte) :
    ∃ d' arr, Enc.builtinFrame .fastest d data = .ok (d', arr) ∧ BuiltinState sl n d' ∧
      Enc.ValidMatcher (n * sl) (Enc.scriptOfArray arr sl) data :=
  builtinFrame_fastest_valid sl n hsl hn hmax hw d hbs data

/-- **`builtin_valid_matcher`** with the production constants (`FrameCompressor::new`:
`MatchGeneratorDriver::new(128 KiB, 1)`), in the form C02 needs it: for every input and every state
of the matcher the compressor's protocol can produce -/
theorem builtin_valid_matcher (hbs : BuiltinState Zstd.Gen.prodSliceSize Zstd.Gen.prodMaxSlices d) (data : List Byte) :
    ∃ d' arr, Enc.builtinFrame .fastest d data = .ok (d', arr) ∧
      BuiltinState Zstd.Gen.prodSliceSize Zstd.Gen.prodMaxSlices d' ∧
      Enc.ValidMatcher Enc.builtinWindow (Enc.scriptOfArray arr Zstd.Gen.prodSliceSize) data :=
  builtinFrame_fastest_valid Zstd.Gen.prodSliceSize Zstd.Gen.prodMaxSlices (by decide) (by decide) (by decide)
    (by decide) d hbs data

/-- … in particular for every input, after every history of frames through the same compressor -/
theorem builtin_valid_matcher_history (jobs : List (Enc.Level × List Byte)) (data : List Byte) :
    ∃ d' arr, Enc.builtinFrame .fastest
        (builtinHistory jobs (Driver.new Zstd.Gen.prodSliceSize Zstd.Gen.prodMaxSlices)) data = .ok (d', arr) ∧
      Enc.ValidMatcher Enc.builtinWindow (Enc.scriptOfArray arr Zstd.Gen.prodSliceSize) data := by
  obtain ⟨d', arr, h1, _, h3⟩ := builtin_valid_matcher _
    (builtin_state_history Zstd.Gen.prodSliceSize Zstd.Gen.prodMaxSlices (by decide) (by decide) jobs) data
  exact ⟨d', arr, h1, h3⟩

/-- one block, the statement the loop is built from: what `start_matching` reports right after
`commit_space` is a valid parse of the block on top of ANYTHING that ends with the retained bytes -/
theorem start_matching_valid_parse (hr : Reachable key sl n d) (h : d.startMatching key = .ok (d', seqs))
    (h0 : d.mg.suffixIdx = 0) (X : List Byte) :
    Enc.validParse d.windowSize (X ++ d.windowBytes.take d.retainedBefore) d.block (Enc.parseOfSeqs seqs [] []) = true :=
  start_validParse key sl n d d' seqs hr h h0 X

/-! ### non-vacuity: the hypotheses are satisfiable and the conclusions are about real matches -/

/-- the trace of the crate's unit test, first block: `[0; 10]` yields literals `[0; 5]` and the
match (offset 5, length 5) -/
example : (do
    let d ← (Driver.new 1000 1).commitSpace (Array.replicate 10 0) 1000
    let (_, s) ← d.startMatching realKey
    pure s) = Except.ok [.triple [0, 0, 0, 0, 0] 5 5] := by decide +kernel

/-- a match into an older window entry (second block repeats the first; window of two slices) -/
example : (do
    let d ← (Driver.new 8 2).commitSpace #[1, 2, 3, 4, 5, 6, 7, 8] 8
    let (d, _) ← d.startMatching realKey
    let d ← d.commitSpace #[1, 2, 3, 4, 5, 6, 7, 9] 8
    let (_, s) ← d.startMatching realKey
    pure s) = Except.ok [.triple [] 8 7, .literals [9]] := by decide +kernel

/-- input of the example below: 16 distinct bytes, 16 equal bytes, a block repeating parts of both, a short constant block -/
def exampleFrameData : List Byte :=
  [1,2,3,4,5,6,7,8,9,10,11,12,13,14,15,16, 7,7,7,7,7,7,7,7,7,7,7,7,7,7,7,7] ++
  [30,31,5,6,7,8,9,10,11,40,7,7,7,7,7,7, 9,9]

/-- non-vacuity of `builtin_valid_matcher_general`: a four-block frame through a fresh 16 × 3 driver;
the third block is reported as a match into the first block (offset 30, length 7) and one into the
SKIPPED constant second block (offset 26, length 6); the encoder model's executable `ValidMatcher`
check accepts the script -/
example :
    (Enc.builtinFrame .fastest (Driver.new 16 3) exampleFrameData).map (fun r =>
      Enc.validMatcherB 48 (Enc.scriptOfArray r.2 16) exampleFrameData 10 0) = .ok true := by
  decide +kernel

/-- … and these are the (literal count, offset, match length) triples per block of that script -/
example :
    (Enc.builtinFrame .fastest (Driver.new 16 3) exampleFrameData).map (fun r =>
      r.2.toList.map (fun b => b.parse.seqs.map (fun s => [s.lits.length, s.offset, s.matchLen])))
    = .ok [[], [], [[2, 30, 7], [1, 26, 6]], []] := by
  decide +kernel

example : BuiltinState Zstd.Gen.prodSliceSize Zstd.Gen.prodMaxSlices
    (builtinHistory [(.fastest, [1, 2, 3]), (.uncompressed, [4]), (.best, [5])]
      (Driver.new Zstd.Gen.prodSliceSize Zstd.Gen.prodMaxSlices)) :=
  builtin_state_history _ _ (by decide) (by decide) _

example : Reachable realKey 1000 1 (Driver.new 1000 1) := .init

end Zstd.Props.C17
