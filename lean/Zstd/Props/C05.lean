import Zstd.Proofs.FrameDecoderStandIn
import Zstd.Proofs.FrameFaithful
/-
C05 — Decoder σ memory is bounded by the window limit plus what the caller asked for plus one block.

Property theorems only.  "Memory" is the number of decoded bytes the decoder holds
(`DBuf.content.size` = `DecodeBuffer::len()`; C04 turns it into allocation size).  Every bound is
stated with the literal 131072 and proved through `Gen.maxBlockSize` and the guard operator
`Gen.blockSizeTooLarge`, both regenerated from the source text on every run: weakening the guard or
raising the constant in the Rust code breaks these theorems.  All states, sources, strategies.
-/
set_option linter.unusedSectionVars false
namespace Zstd.Props.C05
open Zstd Zstd.Model

variable {σ : Type} [BlockDec σ] [BlockContract σ]

/-- the four guards that cap a block — block header size, literals `Regenerated_Size`, running
`seq_sum` before each sequence, trailing literals — as extracted from the source text: their operator
is `>`, the one the model (`parseBlockHeader` via `Gen.blockSizeTooLarge`; `decodeLiteralsM` and
`executeSequences` literally) uses.  A changed operator in the Rust code regenerates `Gen.Guards` and
breaks this theorem; an altered condition (extra factor, `false &&`, …) no longer matches the
extractor's anchor (anchored from `if` to `{`) and breaks the extraction obligation. -/
theorem source_guards_are_the_models (a b : Nat) :
    Gen.blockSizeTooLarge a b = decide (a > b) ∧ Gen.literalsTooLarge a b = decide (a > b) ∧
    Gen.execSeqTooLarge a b = decide (a > b) ∧ Gen.execRestTooLarge a b = decide (a > b) :=
  ⟨rfl, rfl, rfl, rfl⟩

/-- … and with the extracted constant: whatever passes them is ≤ 131072 -/
theorem source_guards_cap (a : Nat) :
    (Gen.blockSizeTooLarge a Gen.maxBlockSize = false → a ≤ 131072) ∧
    (Gen.literalsTooLarge a Gen.maxBlockSize = false → a ≤ 131072) ∧
    (Gen.execSeqTooLarge a Gen.maxBlockSize = false → a ≤ 131072) ∧
    (Gen.execRestTooLarge a Gen.maxBlockSize = false → a ≤ 131072) := by
  have e : Gen.maxBlockSize = 131072 := by decide
  simp only [Gen.blockSizeTooLarge, Gen.literalsTooLarge, Gen.execSeqTooLarge, Gen.execRestTooLarge,
    decide_eq_false_iff_not, e]
  omega

/-- the block-size guard of `read_block_header` rejects everything above 128 KiB (operator and
constant from the source) -/
theorem header_guard_rejects (b0 b1 b2 : Nat) (bh : BHeader) (h : parseBlockHeader b0 b1 b2 = .ok bh) :
    bh.decompressedSize ≤ 131072 ∧ bh.contentSize ≤ 131072 := by
  have := parseBlockHeader_ok b0 b1 b2 bh h
  have e : Gen.maxBlockSize = 131072 := by decide
  omega

/-- `block_growth`: one block adds at most 128 KiB to the buffer — on the `Ok` path AND on every
error path (the buffer is left as the Rust scratch is left); raw/RLE through the header guard,
compressed blocks through the running `seq_sum` checks of `execute_sequences` and the literals guard -/
theorem block_growth (st : FState σ) (s : Src) :
    (decodeOneBlock st s).1.buf.content.size ≤ st.buf.content.size + 131072 := by
  obtain ⟨x, hx, hs⟩ := (decodeOneBlock_step st s).appends
  have e : Gen.maxBlockSize = 131072 := by decide
  rw [hx.size]; omega

/-- a block only ever appends: what was buffered before is still there, in front -/
theorem block_appends (st : FState σ) (s : Src) :
    ∃ x, (decodeOneBlock st s).1.buf.content = st.buf.content ++ x ∧ x.size ≤ 131072 := by
  obtain ⟨x, hx, hs⟩ := (decodeOneBlock_step st s).appends
  have e : Gen.maxBlockSize = 131072 := by decide
  exact ⟨x, hx.content, by omega⟩

/-- "a block whose contents would regenerate more than 128 KiB is rejected as corrupt instead of being
expanded": `execute_sequences` returns `Ok` only if literals + matches of the whole block are ≤ 128 KiB,
and whatever it returns it has appended at most that much -/
theorem oversized_block_rejected (seqs : List Spec.Seq) (lits : List Nat) (h : Nat × Nat × Nat) (b : DBuf) :
    ((executeSequences seqs lits h 0 b).2 = .ok () → finalSeqSum seqs lits 0 ≤ 131072) ∧
    (executeSequences seqs lits h 0 b).1.1.content.size ≤ b.content.size + 131072 := by
  obtain ⟨x, hx, hs, hok⟩ := executeSequences_appends seqs lits h 0 b (Nat.zero_le _)
  have e : Gen.maxBlockSize = 131072 := by decide
  refine ⟨fun h => by have := hok h; omega, by rw [hx.size]; omega⟩

/-- on `Ok` the buffer grew by exactly the final `seq_sum`: the `assert!(seq_sum == diff)` at the end
of `execute_sequences` cannot fail (F1's release-build symptom) -/
theorem seq_sum_assert_holds (seqs : List Spec.Seq) (lits : List Nat) (h : Nat × Nat × Nat) (b : DBuf)
    (hok : (executeSequences seqs lits h 0 b).2 = .ok ()) :
    (executeSequences seqs lits h 0 b).1.1.content.size - b.content.size = finalSeqSum seqs lits 0 := by
  obtain ⟨x, hx, hs, hf⟩ := executeSequences_appends seqs lits h 0 b (Nat.zero_le _)
  have := hf hok
  rw [hx.size]; omega

/-- the literals scratch (`literals_buffer`) holds at most 128 KiB (`LiteralsSizeTooLarge` guard) -/
theorem literals_scratch_bound (raw : List Nat) (prev : Option Spec.Huffman.Table) (lits : List Nat)
    (used : Nat) (huf : Option Spec.Huffman.Table) (hd : Spec.LitHeader)
    (h : decodeLiteralsM raw prev = .ok (lits, used, huf, hd)) : lits.length ≤ 131072 := by
  have := decodeLiteralsM_length raw prev lits used huf hd h
  have e : Gen.maxBlockSize = 131072 := by decide
  omega

/-- `decodeBlocks_bound`, `UptoBytes(n)`: at most `n` + one block more than before, whatever the input -/
theorem decodeBlocks_bound_bytes (d : Decoder σ) (s : Src) (n : Nat) :
    (d.decodeBlocks s (.uptoBytes n)).1.content.size ≤ d.content.size + n + 131072 :=
  Decoder.decodeBlocks_bound_bytes d s n

/-- `decodeBlocks_bound`, `UptoBlocks(k)`: at most `max k 1` blocks (the loop tests the budget after a
block, so `UptoBlocks(0)` decodes one block) -/
theorem decodeBlocks_bound_blocks (d : Decoder σ) (s : Src) (k : Nat) :
    (d.decodeBlocks s (.uptoBlocks k)).1.content.size ≤ d.content.size + max k 1 * 131072 :=
  Decoder.decodeBlocks_bound_blocks d s k

/-- `drain_bound`: after `collect()` at most `window_size` bytes stay buffered (in every state) -/
theorem drain_bound_collect (d : Decoder σ) : (d.collect).1.content.size ≤ d.window :=
  Decoder.collect_bound d

/-- `drain_bound` for `read(buf)`: down to the window (to nothing once the last block is in) or by
`buf.len()` bytes, whichever leaves more -/
theorem drain_bound_read (d : Decoder σ) (n : Nat) :
    (d.read n).1.content.size ≤ max (d.content.size - n) (if d.blocksDone then 0 else d.window) :=
  Decoder.read_bound d n

/-- one iteration of the documented loop `decode_blocks(UptoBytes(n)); collect()` -/
def steadyIter (d : Decoder σ) (s : Src) (n : Nat) : Decoder σ := ((d.decodeBlocks s (.uptoBytes n)).1.collect).1

/-- `steady_bound` for the documented loop: starting at or below the window, the peak inside an
iteration is ≤ window + n + 128 KiB and the iteration ends at or below the window again — so the
bound holds forever, for every input (`s` is arbitrary in every iteration) -/
theorem steady_bound (d : Decoder σ) (s : Src) (n : Nat) (h : d.content.size ≤ d.window) :
    (d.decodeBlocks s (.uptoBytes n)).1.content.size ≤ d.window + n + 131072 ∧
    (steadyIter d s n).content.size ≤ (steadyIter d s n).window ∧ (steadyIter d s n).window = d.window := by
  have h1 := decodeBlocks_bound_bytes d s n
  have hw := Decoder.decodeBlocks_window d s (.uptoBytes n)
  have h2 := Decoder.collect_bound (d.decodeBlocks s (.uptoBytes n)).1
  have hw2 := (applyDrain_dstep (d.decodeBlocks s (.uptoBytes n)).1 .collect).window
  simp only [applyDrain] at hw2
  refine ⟨by omega, ?_, ?_⟩
  · simp only [steadyIter]; omega
  · simp only [steadyIter]; omega

/-- … iterated: every state reached by any number of iterations (each with its own source and
budget ≤ `n`) holds at most `window + n + 128 KiB` bytes at its peak -/
theorem steady_bound_forever (d : Decoder σ) (iters : List (Src × Nat)) (n : Nat)
    (hn : ∀ p ∈ iters, p.2 ≤ n) (h : d.content.size ≤ d.window) :
    let dEnd := iters.foldl (fun d p => steadyIter d p.1 p.2) d
    dEnd.content.size ≤ dEnd.window ∧ dEnd.window = d.window ∧
    ∀ s' n', n' ≤ n → (dEnd.decodeBlocks s' (.uptoBytes n')).1.content.size ≤ d.window + n + 131072 := by
  induction iters generalizing d with
  | nil =>
    refine ⟨h, rfl, fun s' n' hn' => ?_⟩
    have := (steady_bound d s' n' h).1
    simp only [List.foldl_nil]; omega
  | cons p ps ih =>
    have hs := steady_bound d p.1 p.2 h
    have := ih (steadyIter d p.1 p.2) (fun q hq => hn q (List.mem_cons_of_mem _ hq)) hs.2.1
    simp only [List.foldl_cons]
    rw [hs.2.2] at this
    exact this

/-- `steady_bound` for `StreamingDecoder::read(buf)` with `n = buf.len()`: the call never holds more
than `max(before, window + n + 128 KiB)` — so a reader that always passes buffers of ≤ `n` bytes stays
below `window + n + 128 KiB` for ever -/
theorem steady_bound_streaming (d : Decoder σ) (s : Src) (n : Nat) :
    (streamingRead d s n).1.content.size ≤ max d.content.size (d.window + n + 131072) ∧
    (streamingFill (s.length + 2) d s n).1.content.size ≤ max d.content.size (d.window + n + 131072) := by
  have e : Gen.maxBlockSize = 131072 := by decide
  have h1 := streamingRead_bound d s n
  have h2 := (streamingFill_bound (s.length + 2) d s n).1
  omega

/-! ### non-vacuity / the F1 shape -/

/-- three sequences of maximal match length: rejected after the second (the first would be executed) -/
example : (executeSequences [⟨0, 65539 + 65535, 4⟩, ⟨0, 65539 + 65535, 1⟩, ⟨0, 65539 + 65535, 1⟩] [] (1, 4, 8) 0
    { content := #[1, 2, 3, 4], window := 1024 }).2.isOk = false := by decide +kernel

/-- a hostile RLE block header claiming 2 MiB − 1 is rejected by the header guard -/
example : parseBlockHeader 0xFB 0xFF 0xFF = .error (.blockSizeTooLarge 2097151) := by decide +kernel

/-- an RLE block of exactly 128 KiB is accepted: the bound is attained, not vacuous -/
example : (parseBlockHeader 0x02 0x00 0x10).toOption.map (·.decompressedSize) = some 131072 := by decide +kernel


/-! ### instance B: the decoder the drivers run

`DecB = Decoder Blk.Scratch` is the frame-level model over the FAITHFUL block decoder
(`Blk.decompressBlock`, Model/BlockDecode.lean), the one engine `dec` compares with the real code on
valid AND malformed frames.  Its `BlockContract` is proved without hypotheses
(`instBlockContractFaithful`, Proofs/FrameFaithful.lean), so every theorem above holds for it. -/

theorem block_growth_faithful (st : FState Blk.Scratch) (s : Src) :
    (decodeOneBlock st s).1.buf.content.size ≤ st.buf.content.size + 131072 :=
  block_growth st s

theorem decodeBlocks_bound_bytes_faithful (d : DecB) (s : Src) (n : Nat) :
    (d.decodeBlocks s (.uptoBytes n)).1.content.size ≤ d.content.size + n + 131072 :=
  decodeBlocks_bound_bytes d s n

theorem steady_bound_forever_faithful (d : DecB) (iters : List (Src × Nat)) (n : Nat)
    (hn : ∀ p ∈ iters, p.2 ≤ n) (h : d.content.size ≤ d.window) :
    let dEnd := iters.foldl (fun d p => steadyIter d p.1 p.2) d
    dEnd.content.size ≤ dEnd.window ∧ dEnd.window = d.window ∧
    ∀ s' n', n' ≤ n → (dEnd.decodeBlocks s' (.uptoBytes n')).1.content.size ≤ d.window + n + 131072 :=
  steady_bound_forever d iters n hn h

theorem steady_bound_streaming_faithful (d : DecB) (s : Src) (n : Nat) :
    (streamingRead d s n).1.content.size ≤ max d.content.size (d.window + n + 131072) :=
  (steady_bound_streaming d s n).1

/-- the block-level fact behind it, for the faithful decoder itself: whatever the block content and
the scratch, `decompress_block` only appends, at most 128 KiB, on every outcome -/
theorem decompressBlock_faithful_appends (content : List Nat) (s : Blk.Scratch) (b : DBuf) :
    ∃ x, (Blk.decompressBlock content s b).1.2.1.content = b.content ++ x ∧ x.size ≤ 131072 := by
  obtain ⟨x, hx, hs⟩ := Blk.run_appends content s b
  have e : Gen.maxBlockSize = 131072 := by decide
  exact ⟨x, hx.content, by omega⟩

end Zstd.Props.C05
