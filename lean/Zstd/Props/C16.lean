import Zstd.Proofs.EncReal
import Zstd.Proofs.SeqFrame
import Zstd.Proofs.LitCoderFrame
/-
C16 — compression is correct for every well-behaved user-supplied matcher.

`ValidMatcher w script data` (Model/FrameCompressor.lean) is the meaning of "well-behaved": per
`get_next_space` call a non-empty space of at most 128 KiB (the trait's documented maximum); for every
non-constant block a parse that regenerates exactly the block on top of everything before it, with
`3 ≤ match_len` and `1 ≤ offset ≤ min w (bytes before the match position in the frame)`; a window
the one-byte descriptor can express.  It is executable (`validMatcherB`) and the correspondence run
evaluates it on every script the harness generates.

History of exclusions (all were findings; none is part of the statements any more):
  F4   all literal lengths 0 / all match lengths 3 in a block  → panic in the FSE normaliser   FIXED afe35d5
  F10  > 1024 literals of one value in a non-constant block    → panic in the Huffman builder  FIXED 8671d4a
  F13  spaces larger than the DECLARED window                  → libzstd rejected the frame    FIXED (fixes/F13.diff):
       the header now declares max(window_size(), 128 KiB), so `space_le` is just "≤ 128 KiB"
Remaining explicit side condition (observation, not reachable without > 4 GiB of input):
  (u32) offsets ≥ 2^32 − 3 are truncated by `(offset + 3) as u32`
The entropy coders are parameters in the first part (`Coders`); "the coders do not fault" is a hypothesis of
the frame-level `_partial` theorem and `faults_only_in_entropy_coders` says nothing else can fault.  The
second part (from `lit_coder_correct` on) instantiates the REAL coders and leaves no hypothesis about
them: `compress_with_matcher_correct` is the property at full strength (for byte strings).
-/
namespace Zstd.Props.C16
open Zstd Zstd.Model Zstd.Model.Enc Zstd.Proofs.Enc

/-- non-vacuity of `ValidMatcher`: for any data, the matcher that hands out spaces of `S` bytes and
reports every block as literals only is well-behaved -/
theorem valid_matcher_exists (w S : Nat) (hw : w ≤ 2 ^ 41) (hS : 0 < S) (hS' : S ≤ Gen.maxBlockSize)
    (data : List Byte) :
    ValidMatcher w (fun i => ⟨S, ⟨[], (data.drop (i * S)).take S⟩⟩) data := by
  have hstart : ∀ i, blockStart (fun i => (⟨S, ⟨[], (data.drop (i * S)).take S⟩⟩ : MBlock)) i = i * S := by
    intro i
    induction i with
    | zero => simp [blockStart]
    | succ i ih => simp only [blockStart, ih]; rw [Nat.succ_mul]
  refine ⟨hw, fun _ => hS, fun _ => hS', ?_⟩
  intro i
  simp only [hstart]
  intro _
  simp [validParse, execParse]

/-- **Frame level, partial**: for every well-behaved matcher, every block encoder that satisfies the
contract `BlockEncCorrect` and does not panic on this matcher's parses (F4/F10 excluded there):
compression completes and the strict Spec decodes the frame to the input.  Proved here: everything
around the block encoder (spaces of any sizes, block split, RLE detection, raw fallback,
`last_huff_table` reset on fallback, headers, window descriptor from `window_size()`, checksum). -/
theorem compress_with_matcher_correct_partial {H : Type} (R : H → Spec.Huffman.Table → Prop) (hash : Bool)
    (enc : BlockEnc H) (c : Compressor H) (hc : c.level = .fastest) (w : Nat) (script : Nat → MBlock)
    (data : List Byte) (frags : List Nat) (hm : ValidMatcher w script data)
    (henc : BlockEncCorrect R w (declaredWindow w) enc)
    (htotal : ∀ i st, ∃ r, enc (script i).parse st = .ok r) :
    ∃ frame c', compressFrame hash enc c w script data frags = .ok (frame, c') ∧
      Spec.decodeFrame frame = some (specResult hash w data frame) := by
  obtain ⟨frame, c', hrun⟩ := compressFrame_no_fault hash enc c w script data frags hm.window_le hm.space_pos (by
    intro last blk i st hne _
    rw [hc]
    obtain ⟨⟨bytes, st1⟩, hr⟩ := htotal i st
    cases blk with
    | nil => exact absurd rfl hne
    | cons b t =>
      simp only [emitBlock, compressFastest, hr]
      split
      · exact ⟨_, rfl⟩
      · split <;> exact ⟨_, rfl⟩)
  refine ⟨frame, c', hrun, ?_⟩
  apply compressFrame_decodes hash enc c w script data frags (Tracks R)
    (FastPre w (declaredWindow w)) hm.window_le hm.space_pos
    (by rw [hc]; exact emit_fastest_decodes R w _ enc henc) (fun st => tracks_none R st {}) _ frame c' hrun
  intro i _
  exact ⟨by rw [min_declared_block w hm.window_le]; exact Nat.le_trans (List.length_take_le _ _) (hm.space_le i), hm.parse_ok i⟩

/-- the same at the Uncompressed level needs nothing of the parses -/
theorem compress_with_matcher_uncompressed {H : Type} (hash : Bool) (enc : BlockEnc H) (c : Compressor H)
    (hc : c.level = .uncompressed) (w : Nat) (script : Nat → MBlock) (data : List Byte) (frags : List Nat)
    (hw : w ≤ 2 ^ 41) (hsp : ∀ i, 0 < (script i).space ∧ (script i).space ≤ Gen.maxBlockSize) :
    ∃ frame c', compressFrame hash enc c w script data frags = .ok (frame, c') ∧
      Spec.decodeFrame frame = some (specResult hash w data frame) := by
  have hspace : ∀ i, 0 < (script i).space := fun i => (hsp i).1
  obtain ⟨frame, c', hrun⟩ := compressFrame_no_fault hash enc c w script data frags hw hspace (by
    intro last blk i st _ hlen
    have := (hsp i).2
    simp only [maxBlockSize_eq] at this
    have hlt : ¬ blk.length ≥ 2 ^ 32 := by omega
    rw [hc]
    simp only [emitBlock, hlt, ↓reduceIte]
    exact ⟨_, rfl⟩)
  refine ⟨frame, c', hrun, ?_⟩
  apply compressFrame_decodes hash enc c w script data frags (fun _ _ => True)
    (fun _ blk _ => blk.length ≤ min (declaredWindow w) Gen.maxBlockSize) hw hspace
    (by rw [hc]; exact emit_uncompressed_decodes _ _ enc) (fun _ => trivial) _ frame c' hrun
  intro i _
  rw [min_declared_block w hw]
  exact Nat.le_trans (List.length_take_le _ _) (hsp i).2

/-- C16 at full strength, a CLOSED statement: the real block encoder `compressBlockReal`
(`compressBlock` over `realCoders`, the merged C12/C13 models; `Model/EncCoders.lean`), whose
executable model is compared byte for byte with the code on every run.  No exclusion is left except the `u32`
offset condition: F4, F10 and F13 are repaired.  AS WORDED IT IS FALSE (`compress_with_matcher_correct_full_false`):
`data : List Byte` ranges over all lists of `Nat`, and a "byte" `≥ 256` among more than 1024 literals has no
Huffman code.  The theorem for byte strings is `compress_with_matcher_correct` (with `w + 3 < 2^32`). -/
def compress_with_matcher_correct_full : Prop :=
  ∀ (hash : Bool) (c : Compressor Huf.EncTable), c.level = .fastest →
    ∀ (w : Nat) (script : Nat → MBlock) (data : List Byte) (frags : List Nat),
    ValidMatcher w script data → (w + 3 < 2 ^ 32 ∨ data.length + 3 < 2 ^ 32) →
    ∃ frame c', compressFrame hash compressBlockReal c w script data frags = .ok (frame, c') ∧
      Spec.decodeFrame frame = some (specResult hash w data frame)

/-- **Sequence-to-code mapping uses in-range values only**: for a valid parse of a block of at most
128 KiB whose offsets fit `u32`, the casts in the `start_matching` closure lose nothing and
`encode_literal_length`, `encode_match_len`, `encode_offset` return codes ≤ 35 / 52 / 31 with extra
values that fit their bit counts; the block has at most 43 690 sequences. -/
theorem sequence_codes_in_range (w : Nat) (pre blk : List Byte) (p : Parse)
    (hv : validParse w pre blk p = true) (hblk : blk.length ≤ 131072)
    (hu32 : w + 3 < 2 ^ 32 ∨ (pre ++ blk).length + 3 < 2 ^ 32) :
    p.seqs.length ≤ 43690 ∧
    ∀ s ∈ p.seqs,
      toRSeq s = .ok ⟨s.lits.length, s.matchLen, s.offset + 3⟩ ∧
      (∃ c x b : Nat, encodeLL s.lits.length = .ok (c, x, b) ∧ c ≤ 35 ∧ x < 2 ^ b) ∧
      (∃ c x b : Nat, encodeML s.matchLen = .ok (c, x, b) ∧ c ≤ 52 ∧ x < 2 ^ b) ∧
      (∃ c x : Nat, encodeOffset (s.offset + 3) = .ok (c, x, c) ∧ c ≤ 31 ∧ x < 2 ^ c ∧ 2 ^ c + x = s.offset + 3) := by
  obtain ⟨seqs, tail⟩ := p
  obtain ⟨_, hall, hcount, _⟩ := validParse_bounds w pre blk seqs tail hv
  refine ⟨by simp only; omega, ?_⟩
  intro s hs
  obtain ⟨h3, ho1, how, hop, hlm⟩ := hall s hs
  have hoff : s.offset + 3 < 2 ^ 32 := by omega
  have hll : s.lits.length < 131072 := by omega
  have hml : s.matchLen < 131075 := by omega
  refine ⟨?_, ?_, ?_, ?_⟩
  · have n64 : ¬ s.offset + 3 ≥ 2 ^ 64 := by omega
    simp only [toRSeq, offsetAdd_eq, n64, ↓reduceIte]
    rw [Nat.mod_eq_of_lt (by omega : s.lits.length < 2 ^ 32), Nat.mod_eq_of_lt (by omega : s.matchLen < 2 ^ 32),
      Nat.mod_eq_of_lt hoff]
  · obtain ⟨c, x, b, h, hc, hx, _⟩ := encodeLL_ok _ hll
    exact ⟨c, x, b, h, hc, hx⟩
  · obtain ⟨c, x, b, h, hc, hx, _⟩ := encodeML_ok _ h3 hml
    exact ⟨c, x, b, h, hc, hx⟩
  · obtain ⟨c, x, h, hc, hx, he⟩ := encodeOffset_ok (s.offset + 3) (by omega) hoff
    exact ⟨c, x, h, hc, hx, he⟩

/-- the sequence-count writer cannot reach its `unreachable!()` arm: 43 690 < 98 047 -/
theorem seqnum_in_range (n : Nat) (h1 : 1 ≤ n) (h : n ≤ 43690) : ∃ bs, encodeSeqnum n = .ok bs :=
  let ⟨bs, hb, _⟩ := encodeSeqnum_ok n h1 (by omega); ⟨bs, hb⟩

/-- **Literals-size thresholds**: every literal count a block can have (≤ 128 KiB) has a size-format
arm in `compress_literals` (the `unimplemented!("too many literals")` arm is unreachable) whose field
width holds the count, and the 20-bit field of `raw_literals` holds it as well -/
theorem literals_size_fields_fit (n : Nat) (h : n ≤ 131072) :
    (∃ f b : Nat, litSizeFormat n = .ok (f, b) ∧ n < 2 ^ b ∧ f ≤ 3) ∧ n < 2 ^ Gen.rawLitSizeBits := by
  refine ⟨?_, by rw [rawLitSizeBits_eq]; omega⟩
  simp only [litSizeFormat, Gen.litSizeFormatArms, List.find?]
  by_cases h1 : n < 6
  · exact ⟨0, 10, by simp [h1], by omega, by omega⟩
  · by_cases h2 : n < 1024
    · have a1 : 6 ≤ n := by omega
      exact ⟨1, 10, by simp [h1, h2, a1], by omega, by omega⟩
    · by_cases h3 : n < 16384
      · have a1 : 6 ≤ n := by omega
        have a2 : 1024 ≤ n := by omega
        exact ⟨2, 14, by simp [h1, h2, h3, a1, a2], by omega, by omega⟩
      · have a1 : 6 ≤ n := by omega
        have a2 : 1024 ≤ n := by omega
        have a3 : 16384 ≤ n := by omega
        have a4 : n < 262144 := by omega
        exact ⟨3, 18, by simp [h1, h2, h3, a1, a2, a3, a4], by omega, by omega⟩

theorem litHuffGuard_eq (a b : Nat) : Gen.litHuffGuard a b = decide (a > b) := rfl
theorem litHuffThreshold_eq : Gen.litHuffThreshold = 1024 := rfl

/-- **Raw-literals path (at most 1024 literals), fully**: whatever the sequences are, the block
`compress_block` returns starts with a literals section that the strict Spec decodes to exactly the
gathered literals (3-byte header + the bytes), leaves the decoder's Huffman table alone, and the
encoder's `last_huff_table` is untouched as well -/
theorem raw_literals_path_decodes {H : Type} (cd : Coders H) (p : Parse) (st st' : EncState H) (bytes : List Byte)
    (hle : (parseLiterals p).length ≤ 1024) (prev : Option Spec.Huffman.Table)
    (h : compressBlock cd p st = .ok (bytes, st')) :
    st' = st ∧
    Spec.decodeLiterals bytes prev = some (parseLiterals p, 3 + (parseLiterals p).length, prev) := by
  obtain ⟨litBytes, rest, hlit, hbytes, _⟩ := compressBlock_shape cd p st st' bytes h
  have hg : ¬ (parseLiterals p).length > 1024 := by omega
  simp only [litStep, litHuffGuard_eq, litHuffThreshold_eq, hg, decide_false, Bool.false_eq_true, ↓reduceIte] at hlit
  obtain ⟨hdr, hraw, _, hdec⟩ := rawLiterals_decodes (parseLiterals p) rest prev (by omega)
  rw [hraw] at hlit
  simp only [Except.ok.injEq, Prod.mk.injEq] at hlit
  refine ⟨hlit.2.symm, ?_⟩
  rw [hbytes, ← hlit.1]
  exact hdec

/-- **`last_huff_table` tracks the decoder** (the invariant F5 broke), block level, over an abstract
literal coder that satisfies `LitCoderCorrect`: if the encoder's remembered table is the decoder's
table before the block, then after the strict Spec has decoded the literals section of the block
`compress_block` returns, the decoder's table is again the one the encoder remembers.
(Frame level: `compress_fastest` forgets the table when the block is NOT emitted as compressed —
`raw_fallback_forgets_table` — which is what makes `Tracks` the loop invariant of
`compress_with_matcher_correct_partial`.) -/
theorem huff_state_tracks_decoder {H : Type} (R : H → Spec.Huffman.Table → Prop) (cd : Coders H)
    (hcd : LitCoderCorrect R cd) (p : Parse) (st st' : EncState H) (bytes : List Byte) (e : Spec.Entropy)
    (hlen : (parseLiterals p).length < 2 ^ 20) (htr : Tracks R st e)
    (h : compressBlock cd p st = .ok (bytes, st')) :
    ∃ used d', Spec.decodeLiterals bytes e.huf = some (parseLiterals p, used, d') ∧
      Tracks R st' { e with huf := d' } := by
  obtain ⟨litBytes, rest, hlit, hbytes, _⟩ := compressBlock_shape cd p st st' bytes h
  simp only [litStep] at hlit
  split at hlit
  · -- compress_literals
    split at hlit
    · cases hlit
    · rename_i lb t hc
      simp only [Except.ok.injEq, Prod.mk.injEq] at hlit
      obtain ⟨d', hdec, htr'⟩ := hcd _ _ _ _ e.huf rest hlen htr hc
      refine ⟨lb.length, d', by rw [hbytes, ← hlit.1]; exact hdec, ?_⟩
      rw [← hlit.2]
      intro t' ht'
      simp only at ht'
      exact htr' t' (by rw [← ht']; rfl)
    · rename_i lb hc
      simp only [Except.ok.injEq, Prod.mk.injEq] at hlit
      obtain ⟨d', hdec, htr'⟩ := hcd _ _ _ _ e.huf rest hlen htr hc
      refine ⟨lb.length, d', by rw [hbytes, ← hlit.1]; exact hdec, ?_⟩
      rw [← hlit.2]
      intro t' ht'
      exact htr' t' (by simpa using ht')
  · -- raw_literals: neither side changes
    obtain ⟨hdr, hraw, _, hdec⟩ := rawLiterals_decodes (parseLiterals p) rest e.huf hlen
    rw [hraw] at hlit
    simp only [Except.ok.injEq, Prod.mk.injEq] at hlit
    refine ⟨_, e.huf, by rw [hbytes, ← hlit.1]; exact hdec, ?_⟩
    rw [← hlit.2]
    exact htr

/-- **the repair of F5**: whenever `compress_fastest` stores a non-constant block raw, the table
`compress_block` may just have remembered is forgotten -/
theorem raw_fallback_forgets_table {H : Type} (enc : BlockEnc H) (last : Bool) (blk : List Byte) (p : Parse)
    (st st' : EncState H) (bytes : List Byte) (hnc : isConstant blk = false)
    (hem : compressFastest enc last blk p st = .ok (bytes, st'))
    (hraw : bytes = blockHeader last Gen.blockTypeRaw (blk.length % 2 ^ 32) ++ blk) (hsz : blk.length < 2 ^ 21) :
    st'.lastHuff = none := by
  cases blk with
  | nil => simp [isConstant] at hnc
  | cons b t =>
    rw [isConstant_cons] at hnc
    simp only [compressFastest, hnc, Bool.false_eq_true, ↓reduceIte] at hem
    split at hem
    · cases hem
    · rename_i compressed st1 _
      simp only [fastestRawFallbackPresent_eq, fastestRawForgetsHuff_eq, Bool.true_and, ↓reduceIte] at hem
      split at hem
      · simp only [Except.ok.injEq, Prod.mk.injEq] at hem
        rw [← hem.2]
      · -- emitted as a compressed block: the header type differs from raw
        simp only [Except.ok.injEq, Prod.mk.injEq] at hem
        exfalso
        have h1 := hem.1
        rw [hraw] at h1
        have hm : (b :: t).length % 2 ^ 32 = (b :: t).length := Nat.mod_eq_of_lt (by omega)
        rw [hm] at h1
        rename_i hg
        simp only [Bool.or_eq_true, not_or, Bool.not_eq_true] at hg
        have hmax := rawFallbackVsMax_false _ _ hg.2
        rw [maxBlockSize_eq] at hmax
        have hcm : compressed.length % 2 ^ 32 = compressed.length := Nat.mod_eq_of_lt (by omega)
        rw [hcm, blockTypeCompressed_eq, blockTypeRaw_eq, blockHeader_eq last 2 _ (by omega) (by omega),
          blockHeader_eq last 0 _ (by omega) hsz] at h1
        simp only [List.cons_append, List.nil_append, List.cons.injEq] at h1
        have h0 := h1.1
        unfold headerVal at h0
        cases last <;> simp at h0 <;> omega

/-- without forgetting, the invariant is simply false after a raw fallback: the encoder remembers a
table, the decoder (which never saw the discarded block) holds none — the state F5 was in -/
theorem f5_state_violates_invariant :
    ∃ (st : EncState Unit) (e : Spec.Entropy), ¬ Tracks (fun (_ : Unit) (_ : Spec.Huffman.Table) => True) st e ∧
      Tracks (fun (_ : Unit) (_ : Spec.Huffman.Table) => True) ({ st with lastHuff := none } : EncState Unit) e := by
  refine ⟨⟨some ()⟩, {}, ?_, tracks_none _ ⟨some ()⟩ _⟩
  intro h
  obtain ⟨d, hd, _⟩ := h () rfl
  cases hd

/-- **Every panic of `compress_block` on a valid parse is a panic of an entropy coder**: none of the
`unreachable!()` arms (`encode_literal_length`, `encode_match_len`, `encode_seqnum`), the `ilog2(0)`
of `encode_offset`, the `offset + 3` overflow or the `raw_literals` size field can be the cause.
(What remains are F4 and F10, inside `build_table_from_data` / `build_from_data`.) -/
theorem faults_only_in_entropy_coders {H : Type} (cd : Coders H) (w : Nat) (pre blk : List Byte) (p : Parse)
    (st : EncState H) (f : Fault)
    (hv : validParse w pre blk p = true) (hblk : blk.length ≤ 131072)
    (hu32 : w + 3 < 2 ^ 32 ∨ (pre ++ blk).length + 3 < 2 ^ 32)
    (h : compressBlock cd p st = .error f) :
    (∃ lits prev, cd.compressLiterals lits prev = .error f) ∨ (∃ coded, cd.encodeSeqSection coded = .error f) := by
  obtain ⟨hcount, hall⟩ := sequence_codes_in_range w pre blk p hv hblk hu32
  obtain ⟨rseqs, hr, hrl⟩ := mapMExcept_ok toRSeq p.seqs (fun s hs => ⟨_, (hall s hs).1⟩)
  have hmem := mapMExcept_mem toRSeq p.seqs rseqs hr
  have hlits : (parseLiterals p).length ≤ blk.length := by
    obtain ⟨seqs, tail⟩ := p
    exact (validParse_bounds w pre blk seqs tail hv).2.2.2
  -- the three code mappings succeed on every sequence
  have hR : ∀ r ∈ rseqs, (∃ b, encodeLL r.ll = .ok b) ∧ (∃ b, encodeML r.ml = .ok b) ∧ (∃ b, encodeOffset r.of = .ok b) := by
    intro r hrm
    obtain ⟨s, hs, hsr⟩ := hmem r hrm
    obtain ⟨h1, ⟨c1, x1, b1, e1, _⟩, ⟨c2, x2, b2, e2, _⟩, ⟨c3, x3, e3, _⟩⟩ := hall s hs
    rw [h1] at hsr
    simp only [Except.ok.injEq] at hsr
    subst hsr
    exact ⟨⟨_, e1⟩, ⟨_, e2⟩, ⟨_, e3⟩⟩
  obtain ⟨lls, hl1, _⟩ := mapMExcept_ok (fun s : RSeq => encodeLL s.ll) rseqs (fun r hr' => (hR r hr').1)
  obtain ⟨mls, hl2, _⟩ := mapMExcept_ok (fun s : RSeq => encodeML s.ml) rseqs (fun r hr' => (hR r hr').2.1)
  obtain ⟨ofs, hl3, _⟩ := mapMExcept_ok (fun s : RSeq => encodeOffset s.of) rseqs (fun r hr' => (hR r hr').2.2)
  unfold compressBlock at h
  simp only [hr] at h
  split at h
  · -- the literals step faulted
    rename_i f' hlit
    simp only [litStep] at hlit
    split at hlit
    · split at hlit
      · rename_i f'' hc
        simp only [Except.error.injEq] at hlit h
        subst hlit; subst h
        exact Or.inl ⟨_, _, hc⟩
      · cases hlit
      · cases hlit
    · obtain ⟨hdr, hraw, _⟩ := rawLiterals_decodes (parseLiterals p) [] none (by omega)
      rw [hraw] at hlit
      cases hlit
  · split at h
    · cases h
    · rename_i hne
      have hn1 : 1 ≤ rseqs.length := by
        cases rseqs with
        | nil => simp at hne
        | cons _ _ => simp
      obtain ⟨cnt, hcnt⟩ := seqnum_in_range rseqs.length hn1 (by omega)
      simp only [hcnt, hl1, hl2, hl3] at h
      split at h
      · rename_i f'' hc
        simp only [Except.error.injEq] at h
        subst h
        exact Or.inr ⟨_, hc⟩
      · cases h

/-- **F10, repaired, at the level of the format**: more than 1024 literals of ONE value in a block
that is not constant.  The real `compress_literals` no longer reaches the Huffman table builder
(`assert!(amount >= 2)`): it writes an RLE literals section, remembers no table, and the strict Spec
decodes that section to exactly the literals, leaving the decoder's table alone — so the invariant
`Tracks` is preserved on this path without any appeal to the Huffman theorems. -/
theorem f10_repaired_single_value_literals (b : Byte) (t : List Byte) (prev : Option Huf.EncTable)
    (hall : (b :: t).all (fun x => x == b) = true) (hlen : (b :: t).length < 2 ^ 20)
    (rest : List Byte) (dprev : Option Spec.Huffman.Table) :
    ∃ bytes, realCoders.compressLiterals (b :: t) prev = .ok (bytes, none) ∧
      Spec.decodeLiterals (bytes ++ rest) dprev = some (b :: t, bytes.length, dprev) :=
  compressLiterals_single_value b t prev hall hlen rest dprev

/-- the closed full statement follows from exactly two obligations about the real coders -/
theorem compress_with_matcher_correct_full_of (R : Huf.EncTable → Spec.Huffman.Table → Prop)
    (henc : ∀ w, BlockEncCorrect R w (declaredWindow w) compressBlockReal)
    (htotal : ∀ (w : Nat) (script : Nat → MBlock) (data : List Byte), ValidMatcher w script data →
      (w + 3 < 2 ^ 32 ∨ data.length + 3 < 2 ^ 32) → ∀ i st, ∃ r, compressBlockReal (script i).parse st = .ok r) :
    compress_with_matcher_correct_full := by
  intro hash c hc w script data frags hm hu
  exact compress_with_matcher_correct_partial R hash compressBlockReal c hc w script data frags hm (henc w)
    (htotal w script data hm hu)


/-- **the block-encoder contract with its sequences half discharged** (C12 slice: the count, the modes
byte, three FSE table descriptions and the interleaved bitstream are decoded by the strict Spec to the
sequences — `Props.C12.encode_decode_sequences`; the matcher's parse is `Spec.execSequences` of the
sequences sent — `Proofs.SeqExec.execParse_refines`): for EVERY literal coder that satisfies
`LitCoderCorrect`, `compress_block` over the real sequence coder satisfies `BlockEncCorrect`, for every
matcher window whose offsets survive `(offset + 3) as u32` and every declared window at least as large. -/
theorem block_encoder_contract_of_literal_coder {H : Type} (R : H → Spec.Huffman.Table → Prop) (cd : Coders H)
    (hcd : LitCoderCorrect R cd) (hseq : cd.encodeSeqSection = encodeSeqSectionReal)
    (w window : Nat) (hww : w ≤ window) (hw32 : w + 3 < 2 ^ 32) :
    BlockEncCorrect R w window (compressBlock cd) :=
  Proofs.SeqBlock.blockEncCorrect_of_litCoder R cd hcd hseq w window hww hw32

/-- (SUPERSEDED by `compress_with_matcher_correct`; kept for reference.  Its hypothesis `hlit` — totality for
every literal list and every remembered table — is unsatisfiable, `lit_coder_total_unrestricted_false`, so this
statement is vacuous; totality holds on byte literals from reachable encoder states, `lit_coder_total`.)
**C16 reduced to the literal coder.**  For every well-behaved matcher with `window_size() + 3 < 2^32`
and the REAL block encoder: if the real literal coder (1) satisfies its contract and (2) does not panic
on more than 1024 and at most 128 Ki literals (both are C13 obligations), then compression at
`Fastest` completes and the strict Spec decodes the frame to exactly the input.  Unlike
`compress_with_matcher_correct_full_of`, totality is only required of the literal coder (the block
encoder is only ever run on the parses of the blocks of the data, which the matcher promised valid). -/
theorem compress_with_matcher_correct_of_literal_coder (R : Huf.EncTable → Spec.Huffman.Table → Prop)
    (hcd : LitCoderCorrect R realCoders)
    (hlit : ∀ lits prev, 1024 < lits.length → lits.length ≤ 131072 → ∃ r, compressLiteralsReal lits prev = .ok r)
    (hash : Bool) (c : Compressor Huf.EncTable) (hc : c.level = .fastest) (w : Nat) (script : Nat → MBlock)
    (data : List Byte) (frags : List Nat) (hm : ValidMatcher w script data) (hw32 : w + 3 < 2 ^ 32) :
    ∃ frame c', compressFrame hash compressBlockReal c w script data frags = .ok (frame, c') ∧
      Spec.decodeFrame frame = some (specResult hash w data frame) :=
  Proofs.SeqFrame.compress_with_matcher_correct_of_litCoder R realCoders hcd rfl hlit hash c hc w script data frags hm hw32

/-! ## the literal coder's obligations discharged (C13 → strict Spec): C16 without coder hypotheses

`Proofs/LitCoder*.lean`: what the real `compress_literals` writes is decoded by the STRICT
specification — RLE literals, raw fallback, Compressed (new table; weights in direct or FSE-compressed
form — `Spec.Huffman.readWeights`, `tableOfWeights`), Treeless (table of the previous block), one
stream or four streams with the jump table (`Spec.Huffman.decodeStream`: exact consumption, no zero
last byte), the three size formats with Regenerated_Size / Compressed_Size.

What had to change in the statements (all three are artefacts of the model's types, none a defect of
the code; the old wordings are refuted below):
  (a) `LitCoderCorrect` now carries `lits.length < 2^20` (`rle_literals` writes `len as u32` into a
      20-bit field) — `lit_coder_contract_unbounded_false`;
  (b) the totality hypothesis `hlit` of `compress_with_matcher_correct_of_literal_coder` (every
      literal list, every remembered table) is unsatisfiable: a literal `≥ 256` (`Byte` is `Nat`) has no
      code, and a remembered table that is not a prefix code faults in the bit writer —
      `lit_coder_total_unrestricted_false`; totality holds for byte strings from a REACHABLE encoder
      state (remembered table canonical), and is proved along the block loop with that invariant;
  (c) hence the frame-level statements need `∀ b ∈ data, b < 256` — `compress_with_matcher_correct_full_false`.
The last obligation, C13's `fse_weights_lt_128` (`write_table` does not hit `assert!(encoded_len < 128)`), is a
theorem of C13 by now (`C13.fse_weights_lt_128_full_holds`: size bound from the normalised distribution +
kernel evaluation over the finite set of compressor weight vectors); `fse_weights_lt_128` below is its
instance for the tables `build_from_data` returns.  `compress_with_matcher_correct_or_assert` is the
statement that does not depend on that evaluation. -/

open Zstd.Proofs.LitCoder

/-- the relation `Tracks` is instantiated with: the Spec's table in force decodes the code of the table the
encoder remembers (every cell whose index starts with the code of `s` holds `s` and the code length) -/
abbrev TableRel := Zstd.Proofs.LitCoder.TableRel

/-- **the contract of the real literal coder (`compress_literals`), all branches, against the strict Spec** -/
theorem lit_coder_correct : LitCoderCorrect TableRel realCoders := lit_coder_contract

/-- … and therefore the block-encoder contract of the REAL `compress_block`, no hypothesis left -/
theorem block_encoder_contract_real (w window : Nat) (hww : w ≤ window) (hw32 : w + 3 < 2 ^ 32) :
    BlockEncCorrect TableRel w window compressBlockReal :=
  block_encoder_contract_of_literal_coder TableRel realCoders lit_coder_correct rfl w window hww hw32

/-! ### the Huffman layer against the strict Spec (what C13 proves against the model's decoder, restated
for `Spec.Huffman.*`; these are the three facts `lit_coder_correct` is assembled from) -/

/-- **one Huffman stream**: what `encode_stream` writes for `data` with the encoder table `t` is accepted by the
strict `Spec.Huffman.decodeStream` (non-zero last byte, every code inside the stream, stream consumed
exactly) and regenerates `data`, for every Spec table that decodes the code of `t` -/
theorem huffman_stream_spec {T : Spec.Huffman.Table} {t : Huf.EncTable} (sd : SpecDecodes T t)
    (data stream : List Nat) (henc : Huf.encodeStream t data = .ok stream) :
    Spec.Huffman.decodeStream T stream data.length = some data :=
  decodeStream_encodeStream sd data stream henc

/-- **the tree description**: whatever `write_table` writes for a canonical table (every table
`build_from_data` returns for bytes: `buildFromData_canon`) — direct form or FSE-compressed — the strict
`Spec.Huffman.readTable` reads back, followed by anything, consuming exactly the description; the table it
builds (last weight inferred) has `Max_Number_of_Bits = m` and decodes the encoder's code -/
theorem huffman_description_spec {t : Huf.EncTable} {wd : List Nat} {m : Nat} (c : Zstd.Proofs.Huf.CanonTable t wd m)
    {desc : List Nat} (h : Huf.writeTable Enc.fseWeights t = .ok desc) (tail : List Nat) :
    ∃ T, Spec.Huffman.readTable (desc ++ tail) = some (T, desc.length) ∧ T.maxBits = m ∧ SpecDecodes T t :=
  spec_readTable_written c h tail

/-- **FSE-compressed weights** (RFC 8878 §4.2.1.2: two interleaved states, the stream ends by exhaustion): for
every weight vector with 4 … 257 entries `≤ 12`, whenever the production FSE coder needs fewer than 128 bytes,
`Spec.Huffman.readWeights` on size byte + payload (+ anything) returns exactly the weights -/
theorem fse_weights_spec (ws bytes : List Nat) (h4 : 4 ≤ ws.length) (h257 : ws.length ≤ 257)
    (hle : ∀ w ∈ ws, w ≤ 12) (henc : Enc.fseWeights ws = .ok bytes) (hsmall : bytes.length < 128) (tail : List Nat) :
    Spec.Huffman.readWeights (bytes.length :: (bytes ++ tail)) = some (ws, 1 + bytes.length) :=
  spec_readWeights_fse ws bytes h4 h257 hle henc hsmall tail

/-- non-vacuity of `SpecDecodes` / `huffman_description_spec`: the histogram table of `0,2,4,4,0,3,2,2,0,2` -/
example : ∃ t desc T, Huf.buildFromData [0, 2, 4, 4, 0, 3, 2, 2, 0, 2] = .ok t ∧ Huf.writeTable Enc.fseWeights t = .ok desc ∧
    Spec.Huffman.readTable (desc ++ [1, 2, 3]) = some (T, desc.length) ∧ SpecDecodes T t := by
  have hsome : ((Huf.buildFromData [0, 2, 4, 4, 0, 3, 2, 2, 0, 2]).toOption.map (fun t => t.codes.length)) = some 5 := by
    decide +kernel
  cases ht : Huf.buildFromData [0, 2, 4, 4, 0, 3, 2, 2, 0, 2] with
  | error f => rw [ht] at hsome; simp [Except.toOption] at hsome
  | ok t =>
    rw [ht] at hsome
    have ht5 : t.codes.length = 5 := by simpa [Except.toOption] using hsome
    obtain ⟨wd, m, c, _⟩ := buildFromData_canon (by decide) ht
    rcases Zstd.Props.C13.fse_weights_lt_128_canon_partial c with ⟨desc, hdesc⟩ | ⟨bytes, hf, h128, hass⟩
    · obtain ⟨T, hT, _, sd⟩ := spec_readTable_written c hdesc [1, 2, 3]
      exact ⟨t, desc, T, rfl, hdesc, hT, sd⟩
    · -- five weights: direct form, the FSE coder is not even called
      exfalso
      have h5 : wd.length = 5 := by have := c.codesOk.len; omega
      obtain ⟨desc, hd, _⟩ := Zstd.Proofs.Huf.descReads_direct Enc.fseWeights c (by omega)
      rw [hd] at hass
      cases hass

/-- the contract WITHOUT the length bound (the previous wording of `LitCoderCorrect`) -/
def LitCoderCorrectUnbounded {H : Type} (R : H → Spec.Huffman.Table → Prop) (cd : Coders H) : Prop :=
  ∀ (lits : List Byte) (prev : Option H) (bytes : List Byte) (t : Option H)
    (dprev : Option Spec.Huffman.Table) (rest : List Byte),
    (∀ h, prev = some h → ∃ d, dprev = some d ∧ R h d) →
    cd.compressLiterals lits prev = .ok (bytes, t) →
    ∃ d', Spec.decodeLiterals (bytes ++ rest) dprev = some (lits, bytes.length, d') ∧
      (∀ h, (t <|> prev) = some h → ∃ d, d' = some d ∧ R h d)

/-- … is false for the real coder, whatever the relation: `2^32 + 1` equal literals are written as an RLE
section of ONE literal (`len as u32`).  (Not reachable: a block holds at most 128 Ki literals.) -/
theorem lit_coder_contract_unbounded_false (R : Huf.EncTable → Spec.Huffman.Table → Prop) :
    ¬ LitCoderCorrectUnbounded R realCoders := by
  intro h
  have hrle : rleLiterals 0 (2 ^ 32 + 1) = .ok [29, 0, 0, 0] := by decide
  have hc : realCoders.compressLiterals (List.replicate (2 ^ 32 + 1) 0) none = .ok ([29, 0, 0, 0], none) := by
    have hreal : realCoders.compressLiterals = compressLiteralsReal := rfl
    rw [hreal, rle_branch 0 (2 ^ 32) none, hrle]
  obtain ⟨d', hdec, _⟩ := h _ none _ none none [] (fun _ hh => by cases hh) hc
  have hspec : Spec.decodeLiterals ([29, 0, 0, 0] ++ []) none = some ([0], 4, none) := by decide
  rw [hspec] at hdec
  simp only [Option.some.injEq, Prod.mk.injEq] at hdec
  have := congrArg List.length hdec.1
  rw [List.length_replicate] at this
  simp at this

/-- 1025 literals: one value that is not a byte, then zeros -/
def nonByteLits : List Byte := 256 :: List.replicate 1024 0
/-- 1026 byte literals with two values -/
def twoValueLits : List Byte := (List.range 1026).map (· % 2)

set_option maxRecDepth 100000 in
/-- **the totality hypothesis `hlit` of `compress_with_matcher_correct_of_literal_coder` is unsatisfiable**
(so that theorem, kept below for reference, is vacuous).  Witness 1: a literal `≥ 256` — only `0` occurs in
the histogram `counts[..256]`, `distribute_weights(1)` fails its `assert!`. -/
theorem lit_coder_total_unrestricted_false :
    ¬ (∀ lits prev, 1024 < lits.length → lits.length ≤ 131072 → ∃ r, compressLiteralsReal lits prev = .ok r) := by
  intro h
  have hlen : nonByteLits.length = 1025 := by simp [nonByteLits]
  obtain ⟨r, hr⟩ := h nonByteLits none (by omega) (by omega)
  have : (compressLiteralsReal nonByteLits none).toOption.isSome = false := by decide +kernel
  rw [hr] at this
  cases this

set_option maxRecDepth 100000 in
/-- Witness 2, byte literals: a remembered "table" that is not a prefix code (code `2` in 1 bit).  `can_encode`
accepts it, the Treeless path is taken, and the bit writer's `debug_assert!` fires.  (The real assert is
weaker — `bits.ilog2() <= num_bits` — and would let this code through, writing garbage; no reachable
state holds such a table: `compressLiterals_total`.) -/
example : compressLiteralsReal twoValueLits (some ⟨[(2, 1), (3, 1)]⟩)
    = .error (.assert "bit_writer.rs:write_bits_64:dirty-upper-bits") := by decide +kernel

set_option maxRecDepth 100000 in
/-- **`compress_with_matcher_correct_full` as worded is false**: its `data : List Byte` ranges over lists of
`Nat`; for the well-behaved all-literals matcher and the 1025 "bytes" `256, 0, 0, …` compression panics. -/
theorem compress_with_matcher_correct_full_false : ¬ compress_with_matcher_correct_full := by
  intro h
  have hm := valid_matcher_exists 4096 2048 (by decide) (by decide) (by decide) nonByteLits
  obtain ⟨frame, c', hrun, _⟩ := h false (Compressor.fresh .fastest) rfl 4096 _ nonByteLits [] hm (Or.inl (by decide))
  have : (compressFrame false compressBlockReal (Compressor.fresh .fastest) 4096
      (fun i => ⟨2048, ⟨[], (nonByteLits.drop (i * 2048)).take 2048⟩⟩) nonByteLits []).toOption.isSome = false := by
    decide +kernel
  rw [hrun] at this
  cases this

/-- **C13 `fse_weights_lt_128`, for everything the compressor can build**: for every byte string, `write_table`
(real FSE coder, production parameters) succeeds on the table `build_from_data` returns — the
`assert!(encoded_len < 128)` cannot fire.  Instance of `C13.fse_weights_lt_128_full_holds`. -/
theorem fse_weights_lt_128 : FseWeightsLt128 :=
  fseWeightsLt128_of_full Zstd.Props.C13.fse_weights_lt_128_full_holds

/-- in the words of the model: -/
theorem fse_weights_lt_128_spelled (lits : List Nat) (t : Huf.EncTable) (hb : ∀ b ∈ lits, b < 256)
    (h : Huf.buildFromData lits = .ok t) : ∃ desc, Huf.writeTable Enc.fseWeights t = .ok desc :=
  fse_weights_lt_128 lits t hb h

/-- **totality of the real literal coder on what `compress_block` hands it from a reachable state**: byte
literals (1 … 128 Ki of them), remembered table canonical (`GoodTable`: it came out of `build_from_data`);
the returned table is canonical again -/
theorem lit_coder_total (lits : List Byte) (prev : Option Huf.EncTable)
    (hb : ∀ b ∈ lits, b < 256) (h1 : 1 ≤ lits.length) (hmax : lits.length ≤ 131072)
    (hprev : ∀ tp, prev = some tp → GoodTable tp) :
    ∃ bytes t, compressLiteralsReal lits prev = .ok (bytes, t) ∧ (∀ h, t = some h → GoodTable h) :=
  compressLiterals_total fse_weights_lt_128 lits prev hb h1 hmax hprev

/-- … and without the finite evaluation behind `fse_weights_lt_128`: it returns, or panics at
`assert!(encoded_len < 128)` of `write_table` -/
theorem lit_coder_total_or_assert (lits : List Byte) (prev : Option Huf.EncTable)
    (hb : ∀ b ∈ lits, b < 256) (h1 : 1 ≤ lits.length) (hmax : lits.length ≤ 131072)
    (hprev : ∀ tp, prev = some tp → GoodTable tp) :
    (∃ bytes t, compressLiteralsReal lits prev = .ok (bytes, t) ∧ (∀ h, t = some h → GoodTable h)) ∨
      (∃ f, compressLiteralsReal lits prev = .error f ∧ WriteTableAssert f) :=
  compressLiterals_total_or_assert lits prev hb h1 hmax hprev

/-- **C16, partial correctness, no hypothesis on the coders and none on the bytes**: for every well-behaved
matcher with `window_size() + 3 < 2^32`, every prior state of the compressor, every fragmentation:
WHENEVER `compress` at `Fastest` (real block encoder) returns, the strict Spec decodes the frame to
exactly the input (whole frame consumed, checksum verified). -/
theorem compress_with_matcher_decodes (hash : Bool) (c : Compressor Huf.EncTable) (hc : c.level = .fastest)
    (w : Nat) (script : Nat → MBlock) (data : List Byte) (frags : List Nat) (hm : ValidMatcher w script data)
    (hw32 : w + 3 < 2 ^ 32) (frame : List Byte) (c' : Compressor Huf.EncTable)
    (hrun : compressFrame hash compressBlockReal c w script data frags = .ok (frame, c')) :
    Spec.decodeFrame frame = some (specResult hash w data frame) :=
  compress_real_decodes hash c hc w script data frags hm hw32 frame c' hrun

/-- **C16 without the finite evaluation behind `fse_weights_lt_128`**: for every well-behaved matcher with
`window_size() + 3 < 2^32` and every byte string, `compress` at `Fastest` either completes with a frame the
strict Spec decodes to exactly the input, or panics at `assert!(encoded_len < 128)` in
`HuffmanEncoder::write_table` (with a witness: a byte string whose `build_from_data` table has an
FSE-compressed weight description of 128 bytes or more).  No other panic site of the compressor is reachable. -/
theorem compress_with_matcher_correct_or_assert (hash : Bool) (c : Compressor Huf.EncTable) (hc : c.level = .fastest)
    (w : Nat) (script : Nat → MBlock) (data : List Byte) (frags : List Nat) (hm : ValidMatcher w script data)
    (hw32 : w + 3 < 2 ^ 32) (hbytes : ∀ b ∈ data, b < 256) :
    (∃ frame c', compressFrame hash compressBlockReal c w script data frags = .ok (frame, c') ∧
        Spec.decodeFrame frame = some (specResult hash w data frame)) ∨
      (∃ f, compressFrame hash compressBlockReal c w script data frags = .error f ∧ WriteTableAssert f) :=
  compress_real_correct_or_assert hash c hc w script data frags hm hw32 hbytes

/-- **C16 at full strength, no hypothesis on the coders left** (corrected wording: the input consists of bytes;
offsets fit `u32` through the window): for every well-behaved user-supplied matcher, every byte string, every
read fragmentation, every prior state of the compressor object and both settings of `hash`, compression at
`Fastest` with the real block encoder (real Huffman and FSE coders) completes — no panic — and the strict
Spec decodes the frame to exactly the input, consuming all of it and verifying the checksum. -/
theorem compress_with_matcher_correct (hash : Bool) (c : Compressor Huf.EncTable)
    (hc : c.level = .fastest) (w : Nat) (script : Nat → MBlock) (data : List Byte) (frags : List Nat)
    (hm : ValidMatcher w script data) (hw32 : w + 3 < 2 ^ 32) (hbytes : ∀ b ∈ data, b < 256) :
    ∃ frame c', compressFrame hash compressBlockReal c w script data frags = .ok (frame, c') ∧
      Spec.decodeFrame frame = some (specResult hash w data frame) :=
  compress_real_correct fse_weights_lt_128 hash c hc w script data frags hm hw32 hbytes

/-- non-vacuity of `compress_with_matcher_correct`: the all-literals matcher is well-behaved for every data -/
example (data : List Byte) (hbytes : ∀ b ∈ data, b < 256) :
    ∃ frame c', compressFrame true compressBlockReal (Compressor.fresh .fastest) 4096
        (fun i => ⟨2048, ⟨[], (data.drop (i * 2048)).take 2048⟩⟩) data [] = .ok (frame, c') ∧
      Spec.decodeFrame frame = some (specResult true 4096 data frame) :=
  compress_with_matcher_correct true _ rfl 4096 _ data []
    (valid_matcher_exists 4096 2048 (by decide) (by decide) (by decide) data) (by decide) hbytes

/-! ### non-vacuity of the literal-coder theorems, by kernel evaluation -/

/-- skewed byte literals: the "ruler" sequence (trailing zeros of `i + 1`, capped at 4) -/
def ruler (n : Nat) : List Byte := (List.range n).map fun i =>
  let k := i + 1
  if k % 2 = 1 then 0 else if k % 4 = 2 then 1 else if k % 8 = 4 then 2 else if k % 16 = 8 then 3 else 4

def blkA : List Byte := ruler 1100
def blkB : List Byte := (ruler 1101).drop 1

/-- `compress_block` on the parse `p` from state `st`, then the strict Spec on the literals section of the
block under the table `h`: (block length, literals type, bytes the Spec consumed, encoder remembers a
table?, literals regenerated?, encoder state after, Spec table after) -/
def litRound (p : Parse) (st : EncState Huf.EncTable) (h : Option Spec.Huffman.Table) :
    Option (Nat × Nat × Nat × Bool × Bool × EncState Huf.EncTable × Option Spec.Huffman.Table) :=
  match compressBlockReal p st with
  | .error _ => none
  | .ok (bytes, st') =>
    match Spec.decodeLiterals bytes h with
    | none => none
    | some (l, used, h') =>
      some (bytes.length, bytes.headD 0 % 4, used, st'.lastHuff.isSome, l == parseLiterals p, st', h')

set_option maxRecDepth 100000 in
/-- a block with Huffman literals: 1100 literals, NEW table (type 2), four streams (size format 2), 290 bytes;
the strict Spec reads the 289-byte literals section back to the literals; the encoder remembers the table -/
example : (litRound ⟨[], blkA⟩ {} none).map (fun r => (r.1, r.2.1, r.2.2.1, r.2.2.2.1, r.2.2.2.2.1))
    = some (290, 2, 289, true, true) := by
  decide +kernel

set_option maxRecDepth 100000 in
/-- … and the block after it: TREELESS (type 3, no description: 287 bytes), decoded by the Spec with the table
of the first block, which stays in force (`Tracks` over two blocks) -/
example : ((litRound ⟨[], blkA⟩ {} none).bind (fun r1 => (litRound ⟨[], blkB⟩ r1.2.2.2.2.2.1 r1.2.2.2.2.2.2).map
    (fun r => (r.1, r.2.1, r.2.2.1, r.2.2.2.1, r.2.2.2.2.1, r.2.2.2.2.2.2 == r1.2.2.2.2.2.2))))
    = some (287, 3, 286, true, true, true) := by
  decide +kernel

set_option maxRecDepth 100000 in
/-- an RLE-literals block (the F10 situation: 1100 literals of one value followed by a match, block not
constant): type 1, 4-byte literals section, no table remembered -/
example : (litRound ⟨[⟨List.replicate 1100 7, 3300, 8⟩], []⟩ {} none).map
    (fun r => (r.1, r.2.1, r.2.2.1, r.2.2.2.1, r.2.2.2.2.1)) = some (23, 1, 4, false, true) := by
  decide +kernel

/-- 40 distinct byte values (more than 16 transmitted weights → FSE-compressed description), 330 literals -/
def manyValueLits : List Byte := (List.range 330).map fun i => if i % 3 = 0 then i / 3 % 40 else 0

/-- the literal coder on `lits` from the remembered table `prev`, then the strict Spec (table `d`) on the
section followed by one more byte: (section length, literals type, fourth byte, literals regenerated and
section exactly consumed?, Spec table afterwards) -/
def litCheck (lits : List Byte) (prev : Option Huf.EncTable) (d : Option Spec.Huffman.Table) :
    Option (Nat × Nat × Nat × Bool × Option Spec.Huffman.Table) :=
  match compressLiteralsReal lits prev with
  | .error _ => none
  | .ok (bytes, _) =>
    match Spec.decodeLiterals (bytes ++ [0xAA]) d with
    | none => none
    | some (l, used, d') => some (bytes.length, bytes.headD 0 % 4, bytes.getD 3 0, l == lits && used == bytes.length, d')

set_option maxRecDepth 100000 in
/-- the literal coder alone on small inputs (it does not look at the 1024 threshold), each decoded by the
strict Spec: FSE-compressed weights (description header byte `10 < 128`) with four streams, 209 bytes for
330 literals; direct weights (header byte `129`) with four streams; raw fallback (5 literals: nothing saved) -/
example :
    (litCheck manyValueLits none none).map (fun r => (r.1, r.2.1, r.2.2.1, r.2.2.2.1)) = some (209, 2, 10, true) ∧
    (litCheck [1, 2, 1, 2, 1, 1, 1, 1, 1, 1, 1, 1, 1, 1, 1, 1, 1, 2, 2, 1, 1] none none).map
      (fun r => (r.1, r.2.1, r.2.2.1, r.2.2.2.1)) = some (15, 2, 129, true) ∧
    (litCheck [1, 2, 1, 2, 1] none none).map (fun r => (r.1, r.2.1, r.2.2.2.1)) = some (8, 0, true) := by
  decide +kernel

/-- ONE stream, Treeless (5 literals in 4 bytes), against the Spec table of the weights `0, 1 (, 1)`, which the
encoder's remembered table `sym 1 ↦ 0/1 bit, sym 2 ↦ 1/1 bit` is the code of; the table stays in force -/
example :
    (litCheck [1, 2, 1, 1, 1] (some ⟨[(0, 0), (0, 1), (1, 1)]⟩) (Spec.Huffman.tableOfWeights [0, 1])).map
      (fun r => (r.1, r.2.1, r.2.2.2.1, r.2.2.2.2 == Spec.Huffman.tableOfWeights [0, 1])) = some (4, 3, true, true) := by
  decide +kernel

/-- non-vacuity, end to end, by kernel evaluation: a 47-byte input, a scripted matcher with window
1024 that reports two matches (offsets 12 and 39), read in fragments of 3 and 1 bytes: the script is a
`ValidMatcher` script, the REAL coders produce a block that is KEPT as a compressed block (Huffman-free
raw literals, three FSE tables, interleaved sequence bitstream), and the strict Spec decodes the frame
to the input, consuming all of it -/
def exData : List Byte := [97,98,99,100,101,102,103,104,105,106,107,108,97,98,99,100,101,102,103,104,105,106,107,108,
  97,98,99,100,101,102,103,104,105,106,107,108,120,121,122,97,98,99,100,101,102,103,104]
def exScript : Nat → MBlock := fun _ => ⟨64, ⟨[⟨exData.take 12, 12, 24⟩, ⟨[120, 121, 122], 39, 8⟩], []⟩⟩
def exFrame : Option (List Byte) := (compress true compressBlockReal .fastest 1024 exScript exData [3, 1]).toOption

example : validMatcherB 1024 exScript exData 3 0 = true ∧
    (exFrame.map (fun f => (f.drop 6).take 3)) = some [45, 1, 0] ∧        -- last, type 2 (compressed), 37 bytes
    (exFrame.bind (fun f => (Spec.decodeFrame f).map (fun r => (r.content, r.consumed == f.length)))) = some (exData, true) := by
  decide +kernel

end Zstd.Props.C16
