import Zstd.Model.FrameDecoder
/-
C09 — dictionary frames decode correctly; a missing dictionary is an error.

Model-level theorems about dictionary selection (`resetCore`, `forceDict`) and about reaching into
the dictionary content (`DBuf.repeat`).  "No effect on a later frame" is C07 (`reuse_eq_fresh`)
plus `no_dict_without_id` here.  Parsing of the dictionary file itself goes through the entropy
table builders (C12/C13); the executable model currently parses dictionaries with the Spec parser.
-/
namespace Zstd.Props.C09
open Zstd Zstd.Model

/-- whenever `reset` replaces the state, it is the fresh state of that header with the dictionary
choice applied -/
theorem resetCore_replace (dicts : List Dict) (maxW : Nat) (s : Src) (st : FState) (o : Out Src)
    (h : resetCore dicts maxW s = .replace st o) :
    ∃ hd hdrLen w rest, applyDictChoice dicts (freshState hd hdrLen w) rest = .replace st o := by
  unfold resetCore at h
  split at h
  · cases h
  · rename_i hd hdrLen rest _
    split at h
    · cases h
    · rename_i w _
      split at h
      · cases h
      · exact ⟨hd, hdrLen, w, rest, h⟩

theorem withDict_header (st : FState) (d : Dict) : (st.withDict d).header = st.header := rfl

/-- a frame that names a dictionary the decoder was not given is refused with `DictNotProvided`;
no block has been decoded and nothing is buffered -/
theorem missing_dict_error (dicts : List Dict) (maxW : Nat) (s : Src) (st : FState) (o : Out Src)
    (h : resetCore dicts maxW s = .replace st o) (id : Nat)
    (hid : st.header.dictId = some id) (hmiss : dicts.find? (fun x => x.id = id) = none) :
    o = .err (.dictNotProvided id) ∧ st.blockCounter = 0 ∧ st.buf.content = #[] ∧ st.buf.dict = #[] := by
  obtain ⟨hd, hdrLen, w, rest, h⟩ := resetCore_replace dicts maxW s st o h
  unfold applyDictChoice at h
  split at h
  · rename_i hnone
    injection h with h1 h2; subst h1; rw [hnone] at hid; cases hid
  · rename_i id' hsome
    split at h
    · injection h with h1 h2; subst h1
      rw [hsome] at hid; injection hid with hid; subst hid
      exact ⟨h2.symm, rfl, rfl, rfl⟩
    · rename_i dict hf
      injection h with h1 h2; subst h1
      rw [withDict_header, hsome] at hid; injection hid with hid; subst hid
      rw [hmiss] at hf; cases hf

/-- with the dictionary registered, `reset` seeds exactly: entropy tables and repeat offsets
(`entropy`), the dictionary content, and records which dictionary is in use -/
theorem init_from_dict_state (dicts : List Dict) (maxW : Nat) (s : Src) (st : FState) (o : Out Src)
    (h : resetCore dicts maxW s = .replace st o) (id : Nat) (dict : Dict)
    (hid : st.header.dictId = some id) (hfind : dicts.find? (fun x => x.id = id) = some dict) :
    st.entropy = dict.entropy ∧ st.buf.dict = dict.content ∧ st.usingDict = some dict.id ∧
    st.buf.content = #[] ∧ st.blockCounter = 0 ∧ (∃ rest, o = .ok rest) := by
  obtain ⟨hd, hdrLen, w, rest, h⟩ := resetCore_replace dicts maxW s st o h
  unfold applyDictChoice at h
  split at h
  · rename_i hnone
    injection h with h1 h2; subst h1; rw [hnone] at hid; cases hid
  · rename_i id' hsome
    split at h
    · rename_i hf
      injection h with h1 h2; subst h1
      rw [hsome] at hid; injection hid with hid; subst hid
      rw [hfind] at hf; cases hf
    · rename_i dict' hf
      injection h with h1 h2; subst h1
      rw [withDict_header, hsome] at hid; injection hid with hid; subst hid
      rw [hfind] at hf; injection hf with hf; subst hf
      exact ⟨rfl, rfl, rfl, rfl, rfl, ⟨rest, h2.symm⟩⟩

/-- a frame whose header names no dictionary starts from the empty entropy state and an empty
dictionary content, whatever dictionaries are registered (nothing leaks from the registry) -/
theorem no_dict_without_id (dicts : List Dict) (maxW : Nat) (s : Src) (st : FState) (o : Out Src)
    (h : resetCore dicts maxW s = .replace st o) (hid : st.header.dictId = none) :
    st.buf.dict = #[] ∧ st.usingDict = none ∧ st.entropy.huf = none ∧ st.entropy.ll = none ∧
    st.entropy.of = none ∧ st.entropy.ml = none ∧ st.entropy.hist = ⟨1, 4, 8⟩ := by
  obtain ⟨hd, hdrLen, w, rest, h⟩ := resetCore_replace dicts maxW s st o h
  unfold applyDictChoice at h
  split at h
  · injection h with h1 h2; subst h1
    exact ⟨rfl, rfl, rfl, rfl, rfl, rfl, rfl⟩
  · rename_i id' hsome
    split at h
    · injection h with h1 h2; subst h1; rw [hsome] at hid; cases hid
    · injection h with h1 h2; subst h1; rw [withDict_header, hsome] at hid; cases hid

/-- a match offset reaching beyond dictionary plus buffered output is rejected -/
theorem offset_beyond_rejected (b : DBuf) (offset ml : Nat)
    (h : offset > b.content.size + b.dict.size) :
    (b.repeat offset ml = .error .execNotEnoughDict) ∨ (b.repeat offset ml = .error .execOffsetTooBig) := by
  unfold DBuf.repeat
  have h1 : offset > b.content.size := by omega
  simp only [h1, ↓reduceIte]
  split
  · left
    have : offset - b.content.size > b.dict.size := by omega
    simp [this]
  · right; rfl

/-- once more than a window of output has been produced, the dictionary is out of reach -/
theorem dict_out_of_reach_after_window (b : DBuf) (offset ml : Nat)
    (h1 : offset > b.content.size) (h2 : b.totalOut > b.window) :
    b.repeat offset ml = .error .execOffsetTooBig := by
  unfold DBuf.repeat
  have : ¬ b.totalOut ≤ b.window := by omega
  simp [h1, this]

/-- `force_dict` needs an initialised frame and a registered dictionary -/
theorem forceDict_errors (d : Decoder) (id : Nat) :
    (d.state = none → (d.forceDict id).2 = .err .notInitialized) ∧
    (d.state ≠ none → d.dicts.find? (fun x => x.id = id) = none → (d.forceDict id).2 = .err (.dictNotProvided id)) := by
  unfold Decoder.forceDict
  constructor
  · intro h; simp [h]
  · intro h hf
    cases hs : d.state with
    | none => exact absurd hs h
    | some st => simp [hf]

/-- length accounting of a copy that lies entirely in the dictionary -/
theorem repeat_all_from_dict_size (b b' : DBuf) (offset ml : Nat)
    (h1 : offset > b.content.size) (h2 : b.totalOut ≤ b.window)
    (h3 : offset - b.content.size ≤ b.dict.size) (h4 : ml ≤ offset - b.content.size)
    (h : b.repeat offset ml = .ok b') :
    b'.content.size = b.content.size + ml := by
  unfold DBuf.repeat at h
  have n3 : ¬ offset - b.content.size > b.dict.size := by omega
  have n4 : ¬ offset - b.content.size < ml := by omega
  simp only [h1, h2, ↓reduceIte, n3, n4] at h
  injection h with h; subst h
  simp
  omega

/-- non-vacuity: a frame header naming dictionary 7 on a decoder without dictionaries -/
example : (match resetCore [] (2 ^ 27) [0x28, 0xB5, 0x2F, 0xFD, 0x01, 0x00, 0x07, 0x01, 0, 0] with
    | .replace st (.err (.dictNotProvided 7)) => st.header.dictId == some 7
    | _ => false) = true := by decide

end Zstd.Props.C09
