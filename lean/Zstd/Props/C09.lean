import Zstd.Model.FrameDecoder
import Zstd.Proofs.FrameDecoderStandIn
import Zstd.Proofs.DictParse
import Zstd.Proofs.DictCopy
/-
C09 — dictionary frames decode correctly; a missing dictionary is an error.

Model-level theorems about dictionary selection (`resetCore`, `forceDict`) and about reaching into
the dictionary content (`DBuf.repeat`): the copy equals the RFC's byte-by-byte copy from
`dict ++ output` for all alignments (`repeat_eq_matchCopy`, `repeat_ok_matchCopy`), the output
counter used for the "still within the window" test never over-counts (`repeat_totalOut_le`,
`totalOut_le_produced`), a whole block's sequence execution refines the RFC executor with the
dictionary (`executeSequences_refines_dict`), and the slice/chunk formulation of the Rust code
computes the same (`repeat_eq_rust_statements`); helper lemmas in `Zstd/Proofs/DictCopy.lean`.
"No effect on a later frame" is C07 (`reuse_eq_fresh`) plus `no_dict_without_id` here.  Parsing of
the dictionary file itself goes through the entropy table builders (C12/C13); the executable model
currently parses dictionaries with the Spec parser.
-/
set_option linter.unusedSectionVars false
namespace Zstd.Props.C09
open Zstd Zstd.Model Zstd.Proofs.DictCopy

variable {σ : Type} [BlockDec σ] [BlockContract σ]

/-- whenever `reset` replaces the state, it is the fresh state of that header with the dictionary
choice applied -/
theorem resetCore_replace (dicts : List (Dict σ)) (maxW : Nat) (s : Src) (st : FState σ) (o : Out Src)
    (h : resetCore dicts maxW s = .replace st o) :
    ∃ hd hdrLen w rest, applyDictChoice dicts (freshState hd hdrLen w) rest = .replace st o := by
  unfold resetCore at h
  split at h
  · cases h
  · rename_i hd hdrLen rest _
    split at h
    · cases h
    · rename_i w _
      split at h
      · cases h
      · exact ⟨hd, hdrLen, w, rest, h⟩

theorem withDict_header (st : FState σ) (d : Dict σ) : (st.withDict d).header = st.header := rfl

/-- a frame that names a dictionary the decoder was not given is refused with `DictNotProvided`;
no block has been decoded and nothing is buffered -/
theorem missing_dict_error (dicts : List (Dict σ)) (maxW : Nat) (s : Src) (st : FState σ) (o : Out Src)
    (h : resetCore dicts maxW s = .replace st o) (id : Nat)
    (hid : st.header.dictId = some id) (hmiss : dicts.find? (fun x => x.id = id) = none) :
    o = .err (.dictNotProvided id) ∧ st.blockCounter = 0 ∧ st.buf.content = #[] ∧ st.buf.dict = #[] := by
  obtain ⟨hd, hdrLen, w, rest, h⟩ := resetCore_replace dicts maxW s st o h
  unfold applyDictChoice at h
  split at h
  · rename_i hnone
    injection h with h1 h2; subst h1; rw [hnone] at hid; cases hid
  · rename_i id' hsome
    split at h
    · injection h with h1 h2; subst h1
      rw [hsome] at hid; injection hid with hid; subst hid
      exact ⟨h2.symm, rfl, rfl, rfl⟩
    · rename_i dict hf
      injection h with h1 h2; subst h1
      rw [withDict_header, hsome] at hid; injection hid with hid; subst hid
      rw [hmiss] at hf; cases hf

/-- with the dictionary registered, `reset` seeds exactly: entropy tables and repeat offsets
(`entropy`), the dictionary content, and records which dictionary is in use -/
theorem init_from_dict_state (dicts : List (Dict σ)) (maxW : Nat) (s : Src) (st : FState σ) (o : Out Src)
    (h : resetCore dicts maxW s = .replace st o) (id : Nat) (dict : Dict σ)
    (hid : st.header.dictId = some id) (hfind : dicts.find? (fun x => x.id = id) = some dict) :
    st.entropy = dict.entropy ∧ st.buf.dict = dict.content ∧ st.usingDict = some dict.id ∧
    st.buf.content = #[] ∧ st.blockCounter = 0 ∧ (∃ rest, o = .ok rest) := by
  obtain ⟨hd, hdrLen, w, rest, h⟩ := resetCore_replace dicts maxW s st o h
  unfold applyDictChoice at h
  split at h
  · rename_i hnone
    injection h with h1 h2; subst h1; rw [hnone] at hid; cases hid
  · rename_i id' hsome
    split at h
    · rename_i hf
      injection h with h1 h2; subst h1
      rw [hsome] at hid; injection hid with hid; subst hid
      rw [hfind] at hf; cases hf
    · rename_i dict' hf
      injection h with h1 h2; subst h1
      rw [withDict_header, hsome] at hid; injection hid with hid; subst hid
      rw [hfind] at hf; injection hf with hf; subst hf
      exact ⟨rfl, rfl, rfl, rfl, rfl, ⟨rest, h2.symm⟩⟩

/-- a frame whose header names no dictionary starts from the empty entropy state and an empty
dictionary content, whatever dictionaries are registered (nothing leaks from the registry) -/
theorem no_dict_without_id (dicts : List (Dict σ)) (maxW : Nat) (s : Src) (st : FState σ) (o : Out Src)
    (h : resetCore dicts maxW s = .replace st o) (hid : st.header.dictId = none) :
    st.buf.dict = #[] ∧ st.usingDict = none ∧ st.entropy = BlockDec.fresh := by
  obtain ⟨hd, hdrLen, w, rest, h⟩ := resetCore_replace dicts maxW s st o h
  unfold applyDictChoice at h
  split at h
  · injection h with h1 h2; subst h1
    exact ⟨rfl, rfl, rfl⟩
  · rename_i id' hsome
    split at h
    · injection h with h1 h2; subst h1; rw [hsome] at hid; cases hid
    · injection h with h1 h2; subst h1; rw [withDict_header, hsome] at hid; cases hid

/-- … for the stand-in, the fresh entropy state is: no Huffman table, no FSE tables, repeat offsets
(1, 4, 8) (the statement of `no_dict_without_id` before the parametrisation) -/
theorem no_dict_without_id_standIn (dicts : List (Dict Spec.Entropy)) (maxW : Nat) (s : Src) (st : FState Spec.Entropy)
    (o : Out Src) (h : resetCore dicts maxW s = .replace st o) (hid : st.header.dictId = none) :
    st.buf.dict = #[] ∧ st.usingDict = none ∧ st.entropy.huf = none ∧ st.entropy.ll = none ∧
    st.entropy.of = none ∧ st.entropy.ml = none ∧ st.entropy.hist = ⟨1, 4, 8⟩ := by
  obtain ⟨h1, h2, h3⟩ := no_dict_without_id dicts maxW s st o h hid
  rw [h3]
  exact ⟨h1, h2, rfl, rfl, rfl, rfl, rfl⟩

/-- a match offset reaching beyond dictionary plus buffered output is rejected -/
theorem offset_beyond_rejected (b : DBuf) (offset ml : Nat)
    (h : offset > b.content.size + b.dict.size) :
    (b.repeat offset ml = .error .execNotEnoughDict) ∨ (b.repeat offset ml = .error .execOffsetTooBig) := by
  unfold DBuf.repeat
  have h1 : offset > b.content.size := by omega
  simp only [h1, ↓reduceIte]
  split
  · left
    have : offset - b.content.size > b.dict.size := by omega
    simp [this]
  · right; rfl

/-- once more than a window of output has been produced, the dictionary is out of reach -/
theorem dict_out_of_reach_after_window (b : DBuf) (offset ml : Nat)
    (h1 : offset > b.content.size) (h2 : b.totalOut > b.window) :
    b.repeat offset ml = .error .execOffsetTooBig := by
  unfold DBuf.repeat
  have : ¬ b.totalOut ≤ b.window := by omega
  simp [h1, this]

/-- `force_dict` needs an initialised frame and a registered dictionary -/
theorem forceDict_errors (d : Decoder σ) (id : Nat) :
    (d.state = none → (d.forceDict id).2 = .err .notInitialized) ∧
    (d.state ≠ none → d.dicts.find? (fun x => x.id = id) = none → (d.forceDict id).2 = .err (.dictNotProvided id)) := by
  unfold Decoder.forceDict
  constructor
  · intro h; simp [h]
  · intro h hf
    cases hs : d.state with
    | none => exact absurd hs h
    | some st => simp [hf]

/-- length accounting of a copy that lies entirely in the dictionary -/
theorem repeat_all_from_dict_size (b b' : DBuf) (offset ml : Nat)
    (h1 : offset > b.content.size) (h2 : b.totalOut ≤ b.window)
    (h3 : offset - b.content.size ≤ b.dict.size) (h4 : ml ≤ offset - b.content.size)
    (h : b.repeat offset ml = .ok b') :
    b'.content.size = b.content.size + ml := by
  unfold DBuf.repeat at h
  have n3 : ¬ offset - b.content.size > b.dict.size := by omega
  have n4 : ¬ offset - b.content.size < ml := by omega
  simp only [h1, h2, ↓reduceIte, n3, n4] at h
  injection h with h; subst h
  simp
  omega

/-! ### reaching into the dictionary = the RFC copy from `dict ++ output`

`Spec.matchCopy dict n offset out` is the RFC's byte-by-byte copy of `n` bytes starting `offset`
bytes back in the virtual history `dict ++ out`.  `DBuf.repeat` mirrors what the code does instead:
`extend_from_within` / `repeat_in_chunks` inside the buffer, a slice of the dictionary, or — when
the match starts in the dictionary and runs into the output — the dictionary tail followed by
`self.repeat(self.buffer.len(), rest)`.  The theorems below hold for ALL alignments: any buffered
content, any dictionary, any offset ≥ 1, any match length (overlapping `offset < ml` included). -/

/-- Whenever the RFC copy is defined, and the code's "output still within the window" test lets a
dictionary reach-back through, the model accepts and appends exactly the RFC bytes; dictionary,
window and hasher input are untouched.

`hml`: the call site (`execute_sequences`) calls `repeat` only for `ml > 0`.  For `ml = 0` the RFC
copy is the identity for every offset, whereas `repeat offset 0` still range-checks the offset
(see `repeat_zero_len_checks_offset`); the guarded call is covered by `seqCopy_eq_matchCopy`. -/
theorem repeat_eq_matchCopy (b : DBuf) (offset ml : Nat) (out' : Array Nat)
    (hpos : 0 < offset) (hml : 0 < ml ∨ offset ≤ b.content.size + b.dict.size)
    (h : Spec.matchCopy b.dict ml offset b.content = some out')
    (hw : offset > b.content.size → b.totalOut ≤ b.window) :
    ∃ b', b.repeat offset ml = .ok b' ∧ b'.content = out' ∧ b'.dict = b.dict ∧
      b'.window = b.window ∧ b'.hashed = b.hashed :=
  Zstd.Proofs.DictCopy.repeat_eq_matchCopy b offset ml out' hpos hml h hw

/-- non-vacuity, straddling and overlapping at once: dictionary `1 2 3 4 5`, one byte `9` produced,
offset 3 reaches 2 bytes into the dictionary, 6 bytes copied: `4 5` from the dictionary, then
`9 4 5 9` from the output (the last byte re-reads a byte this very copy wrote) -/
example :
    (0 < 3) ∧ (0 < 6 ∨ 3 ≤ (#[9] : Array Nat).size + (#[1, 2, 3, 4, 5] : Array Nat).size) ∧
    Spec.matchCopy #[1, 2, 3, 4, 5] 6 3 #[9] = some #[9, 4, 5, 9, 4, 5, 9] ∧
    (3 > (#[9] : Array Nat).size → 1 ≤ 1024) ∧
    (match ({ content := #[9], dict := #[1, 2, 3, 4, 5], window := 1024, totalOut := 1 } : DBuf).repeat 3 6 with
     | .ok b' => b'.content == #[9, 4, 5, 9, 4, 5, 9] && b'.totalOut == 7
     | .error _ => false) = true := by decide

/-- the same for the call exactly as `execute_sequences` makes it (`if seq.ml > 0 { repeat }`):
no condition on the match length -/
theorem seqCopy_eq_matchCopy (b : DBuf) (offset ml : Nat) (out' : Array Nat)
    (hpos : 0 < offset)
    (h : Spec.matchCopy b.dict ml offset b.content = some out')
    (hw : offset > b.content.size → b.totalOut ≤ b.window) :
    ∃ b', (if ml > 0 then b.repeat offset ml else .ok b) = .ok b' ∧ b'.content = out' ∧
      b'.dict = b.dict ∧ b'.window = b.window ∧ b'.hashed = b.hashed :=
  Zstd.Proofs.DictCopy.seqCopy_eq_matchCopy b offset ml out' hpos h hw

/-- why `hml` is there: a zero-length `repeat` with an offset beyond dictionary + output is an
error in the code (`NotEnoughBytesInDictionary`) although nothing would be copied -/
theorem repeat_zero_len_checks_offset :
    (∃ b : DBuf, b.dict = #[1] ∧ b.content = #[] ∧ b.totalOut ≤ b.window ∧
      b.repeat 5 0 = .error .execNotEnoughDict ∧ Spec.matchCopy b.dict 0 5 b.content = some #[]) :=
  ⟨{ dict := #[1] }, rfl, rfl, Nat.le_refl _, rfl, rfl⟩

/-- Converse (soundness of acceptance): whenever the model accepts a copy, the bytes it appended
are exactly the RFC copy from `dict ++ content` — in particular the RFC copy is defined, i.e. the
model never reads outside `dict ++ content`. -/
theorem repeat_ok_matchCopy (b b' : DBuf) (offset ml : Nat)
    (h : b.repeat offset ml = .ok b') (hpos : 0 < offset) :
    Spec.matchCopy b.dict ml offset b.content = some b'.content :=
  Zstd.Proofs.DictCopy.repeat_ok_matchCopy b b' offset ml h hpos

/-- an accepted copy appends exactly `ml` bytes and leaves the old content in place -/
theorem repeat_size (b b' : DBuf) (offset ml : Nat) (h : b.repeat offset ml = .ok b') :
    b'.content.size = b.content.size + ml :=
  Zstd.Proofs.DictCopy.repeat_size b b' offset ml h

theorem repeat_keeps_prefix (b b' : DBuf) (offset ml : Nat)
    (h : b.repeat offset ml = .ok b') (hpos : 0 < offset) :
    b'.content.extract 0 b.content.size = b.content :=
  matchCopy_prefix _ _ _ _ _ (Zstd.Proofs.DictCopy.repeat_ok_matchCopy b b' offset ml h hpos)

/-- exactly when the model accepts: the offset stays inside `dict ++ content`, and the dictionary
is touched only while the output counter is within the window.  (Sharpens `offset_beyond_rejected`
and `dict_out_of_reach_after_window` to an equivalence.) -/
theorem repeat_accepts_iff (b : DBuf) (offset ml : Nat) :
    (∃ b', b.repeat offset ml = .ok b') ↔
      (offset > b.content.size → b.totalOut ≤ b.window ∧ offset ≤ b.content.size + b.dict.size) :=
  repeat_isOk_iff b offset ml

/-- the three shapes of an accepted copy, with the continuation offset of the straddling case made
explicit: after the dictionary tail has been appended the buffer is exactly `offset` bytes long, so
the code's `self.repeat(self.buffer.len(), rest)` continues at the ORIGINAL offset and its
"empty buffer, offset 0" corner (which would not terminate in `repeat_in_chunks`) is unreachable -/
theorem repeat_shape (b b' : DBuf) (offset ml : Nat) (h : b.repeat offset ml = .ok b') :
    (offset ≤ b.content.size ∧ b'.content = copyWithin ml offset b.content) ∨
    (b.content.size + ml ≤ offset ∧
      b'.content = b.content ++ b.dict.extract (b.dict.size - (offset - b.content.size))
        (b.dict.size - (offset - b.content.size) + ml)) ∨
    (b.content.size < offset ∧ offset < b.content.size + ml ∧
      (b.content ++ b.dict.extract (b.dict.size - (offset - b.content.size)) b.dict.size).size = offset ∧
      b'.content = copyWithin (ml - (offset - b.content.size)) offset
        (b.content ++ b.dict.extract (b.dict.size - (offset - b.content.size)) b.dict.size)) := by
  rw [repeat_eq] at h
  split at h
  · rename_i h1
    split at h
    · split at h
      · cases h
      · rename_i h3
        split at h
        · rename_i h4
          injection h with h; subst h
          refine .inr (.inr ⟨h1, by omega, ?_, rfl⟩)
          rw [Array.size_append, dict_tail_size b.dict _ (by omega)]; omega
        · injection h with h; subst h
          exact .inr (.inl ⟨by omega, rfl⟩)
    · cases h
  · injection h with h; subst h
    exact .inl ⟨by omega, rfl⟩

/-! ### the output counter never over-counts

The code decides "is the output still within the window, so that the dictionary is reachable?" by
`total_output_counter <= window_size` (`DBuf.totalOut ≤ window`).  The counter is advanced by
`push` (literals) and by `repeat` — except when a copy lies entirely in the dictionary — and NOT by
Raw/RLE blocks.  It can therefore lag behind the number of bytes the frame has really produced,
which is `hashed.size + content.size` (bytes drained so far + bytes still buffered), but it can
never run ahead of it.

What this means for valid frames: the RFC (`Spec.execSequences`) allows a match to reach into the
dictionary only while the real output is within the window.  Since `totalOut ≤ real output`, the
code's test `totalOut ≤ window` passes whenever the RFC's does: the window test never rejects a
copy the RFC allows (`dict_copy_of_valid_frame`), and by `repeat_eq_matchCopy` the bytes are the
RFC's.  The price of the lag is leniency only: after Raw/RLE blocks (or all-dictionary copies) the
code may still accept a dictionary reach-back that the RFC forbids because the real output has
already left the window; such a frame is invalid, and `repeat_ok_matchCopy` still pins down what
is copied. -/

/-- `push` counts exactly what it appends -/
theorem push_totalOut (b : DBuf) (data : Array Nat) :
    (b.push data).totalOut = b.totalOut + data.size ∧
    (b.push data).content.size = b.content.size + data.size ∧
    (b.push data).hashed = b.hashed := by
  simp [DBuf.push]

/-- `repeat` counts at most what it appends (`ml` bytes), never decreases the counter, and counts
less than `ml` only for a copy lying entirely inside the dictionary (where the code does not
advance the counter at all) -/
theorem repeat_totalOut_le (b b' : DBuf) (offset ml : Nat) (h : b.repeat offset ml = .ok b') :
    b'.totalOut ≤ b.totalOut + ml ∧ b.totalOut ≤ b'.totalOut ∧
    b'.totalOut - b.totalOut ≤ b'.content.size - b.content.size ∧
    (b'.totalOut < b.totalOut + ml → b'.totalOut = b.totalOut ∧ b.content.size + ml ≤ offset) := by
  have hs := Zstd.Proofs.DictCopy.repeat_size b b' offset ml h
  obtain ⟨_, _, _, ht⟩ := repeat_frame b b' offset ml h
  omega

/-- the invariant: in every buffer state reachable from `reset` by `push`, accepted `repeat`s,
uncounted appends (Raw/RLE blocks) and drains, the counter is at most the real output so far -/
theorem totalOut_le_produced :
    (∀ (b : DBuf) (w : Nat), (b.reset w).totalOut ≤ (b.reset w).hashed.size + (b.reset w).content.size) ∧
    (∀ (b : DBuf) (data : Array Nat), b.totalOut ≤ b.hashed.size + b.content.size →
      (b.push data).totalOut ≤ (b.push data).hashed.size + (b.push data).content.size) ∧
    (∀ (b b' : DBuf) (offset ml : Nat), b.repeat offset ml = .ok b' →
      b.totalOut ≤ b.hashed.size + b.content.size → b'.totalOut ≤ b'.hashed.size + b'.content.size) ∧
    (∀ (b : DBuf) (data : Array Nat), b.totalOut ≤ b.hashed.size + b.content.size →
      b.totalOut ≤ b.hashed.size + (b.content ++ data).size) ∧
    (∀ (b : DBuf) (n : Nat), b.totalOut ≤ b.hashed.size + b.content.size →
      (b.take n).2.totalOut ≤ (b.take n).2.hashed.size + (b.take n).2.content.size) :=
  ⟨counterOk_reset, counterOk_push, counterOk_repeat,
   fun b data h => counterOk_append b data h, counterOk_take⟩

/-- … and through the execution of a whole block's sequences (error paths included) -/
theorem totalOut_le_produced_executeSequences (seqs : List Spec.Seq) (lits : List Nat)
    (h : Nat × Nat × Nat) (seqSum : Nat) (b : DBuf)
    (hb : b.totalOut ≤ b.hashed.size + b.content.size) :
    let b' := (executeSequences seqs lits h seqSum b).1.1
    b'.totalOut ≤ b'.hashed.size + b'.content.size :=
  counterOk_executeSequences seqs lits h seqSum b hb

/-- consequence for valid frames: in a state where the counter does not over-count, while the
real output (`hashed.size + content.size`) is within the window — the RFC's condition for reaching
into the dictionary — every copy the RFC defines is accepted and yields the RFC's bytes -/
theorem dict_copy_of_valid_frame (b : DBuf) (offset ml : Nat) (out' : Array Nat)
    (hinv : b.totalOut ≤ b.hashed.size + b.content.size)
    (hwin : b.hashed.size + b.content.size ≤ b.window)
    (hpos : 0 < offset)
    (h : Spec.matchCopy b.dict ml offset b.content = some out') :
    ∃ b', (if ml > 0 then b.repeat offset ml else .ok b) = .ok b' ∧ b'.content = out' ∧
      b'.totalOut ≤ b'.hashed.size + b'.content.size := by
  obtain ⟨b', hb', hc, _, _, hh⟩ := seqCopy_eq_matchCopy b offset ml out' hpos h (fun _ => by omega)
  refine ⟨b', hb', hc, ?_⟩
  split at hb'
  · exact counterOk_repeat b b' offset ml hb' hinv
  · injection hb' with hb'; subst hb'; exact hinv

/-- non-vacuity of the lag: an all-dictionary copy is accepted without advancing the counter -/
example :
    (match ({ content := #[9], dict := #[1, 2, 3, 4, 5], window := 8, totalOut := 1 } : DBuf).repeat 5 2 with
     | .ok b' => b'.content == #[9, 2, 3] && b'.totalOut == 1
     | .error _ => false) = true := by decide

/-! ### a whole block of sequences against the RFC executor, dictionary included

`Spec.execSequences window dict seqs lits hist out` is §3.1.1.4 on the whole output `out` of the
frame so far, with the RFC's admissibility tests: an offset beyond the output may reach into the
dictionary only while the output is within the window and only as far as the dictionary goes; an
offset inside the output must be within the window.  The model's buffer holds only the undrained
part: the whole output is `hashed ++ content`.  Two invariants of the buffer are needed, both
established by `reset` and kept by every operation of a frame that is still being decoded:
the counter does not over-count (above), and enough history is retained
(`min window (hashed.size + content.size) ≤ content.size`, i.e. a drain never cuts into the last
`window` bytes: `invariants_reset`, `invariants_drain_to_window`). -/

/-- Whenever the RFC executor accepts a block's sequences, the model's `execute_sequences`
accepts, appends exactly the same bytes (dictionary reach-backs at every alignment included) and
leaves the same offset history; both invariants are kept, so the statement chains over the blocks
of a frame.  `hov`: decoded sequences carry offset values ≥ 1 (C03 `decodeSeqLoop_ov_pos`).
`hsum`: the code's block-size guard; for `seqSum = 0` it follows from the RFC's check on the
block's regenerated size (`Spec.decodeCompressedBlock`: growth ≤ min window 128 KiB). -/
theorem executeSequences_refines_dict (window : Nat) (dict : Array Nat)
    (seqs : List Spec.Seq) (lits : List Nat) (hist h' : Spec.OffHist) (out out' : Array Nat)
    (seqSum : Nat) (b : DBuf)
    (hs : Spec.execSequences window dict seqs lits hist out = some (out', h'))
    (hov : ∀ s ∈ seqs, s.ov ≥ 1)
    (hd : b.dict = dict) (hw : b.window = window) (hout : b.hashed ++ b.content = out)
    (hinv : b.totalOut ≤ b.hashed.size + b.content.size)
    (hret : min b.window (b.hashed.size + b.content.size) ≤ b.content.size)
    (hsum : seqSum + (out'.size - out.size) ≤ Gen.maxBlockSize) :
    ∃ b', executeSequences seqs lits (hist.r1, hist.r2, hist.r3) seqSum b
            = ((b', (h'.r1, h'.r2, h'.r3)), .ok ()) ∧
      b'.hashed = b.hashed ∧ b.hashed ++ b'.content = out' ∧ b'.dict = dict ∧ b'.window = window ∧
      b'.totalOut ≤ b'.hashed.size + b'.content.size ∧
      min b'.window (b'.hashed.size + b'.content.size) ≤ b'.content.size :=
  executeSequences_refines window dict seqs lits hist out out' h' seqSum b hs hov hd hw hout hinv hret hsum

/-- the RFC's block-size constant is the code's -/
theorem blockMaxSize_eq : Gen.maxBlockSize = Spec.blockMaxSize := by decide

/-- non-vacuity: one sequence (1 literal, offset value 6 = offset 3, match length 6) on a fresh
buffer with dictionary `1 2 3 4 5`: the RFC executor accepts, and the model produces the same -/
example :
    Spec.execSequences 1024 #[1, 2, 3, 4, 5] [⟨1, 6, 6⟩] [9] ⟨1, 4, 8⟩ #[]
      = some (#[9, 4, 5, 9, 4, 5, 9], ⟨3, 1, 4⟩) ∧
    (match executeSequences [⟨1, 6, 6⟩] [9] (1, 4, 8) 0
        ({ dict := #[1, 2, 3, 4, 5], window := 1024 } : DBuf) with
     | ((b', h), .ok ()) => b'.content == #[9, 4, 5, 9, 4, 5, 9] && h == (3, 1, 4) && b'.totalOut == 7
     | _ => false) = true := by decide

/-- both invariants hold after `reset` (and selecting a dictionary does not touch them) -/
theorem invariants_reset (b : DBuf) (w : Nat) (dict : Array Nat) :
    let b0 := { b.reset w with dict := dict }
    b0.totalOut ≤ b0.hashed.size + b0.content.size ∧
    min b0.window (b0.hashed.size + b0.content.size) ≤ b0.content.size := by
  simp [DBuf.reset]

/-- … and after the only drain available while a frame is being decoded: down to the window
(`can_drain_to_window_size` / `drain_to_window_size`, `read`, `collect_to_writer`) or less -/
theorem invariants_drain_to_window (b : DBuf) (n k : Nat)
    (hn : b.canDrainToWindow = some n) (hk : k ≤ n)
    (hinv : b.totalOut ≤ b.hashed.size + b.content.size) :
    let b' := (b.take k).2
    b'.totalOut ≤ b'.hashed.size + b'.content.size ∧
    min b'.window (b'.hashed.size + b'.content.size) ≤ b'.content.size ∧
    b'.hashed ++ b'.content = b.hashed ++ b.content := by
  have hn' : k + b.window ≤ b.content.size := by
    unfold DBuf.canDrainToWindow at hn
    split at hn
    · injection hn with hn; omega
    · cases hn
  refine ⟨counterOk_take b k hinv, retained_take b k hn', ?_⟩
  simp only [DBuf.take, Array.append_assoc]
  congr 1
  rw [Array.extract_append_extract]
  simp only [Nat.zero_min, Array.extract_eq_self_iff]
  exact .inr ⟨trivial, Nat.le_max_right _ _⟩

/-- every block — Raw, RLE or Compressed, accepted or rejected half-way — leaves dictionary,
window and hasher input alone and keeps both invariants; together with `invariants_reset` and
`invariants_drain_to_window` they hold in every state `decode_blocks` can reach, which is what
`executeSequences_refines_dict` asks of the buffer at the start of each block -/
theorem decodeOneBlock_keeps_invariants (st : FState σ) (s : Src)
    (hinv : st.buf.totalOut ≤ st.buf.hashed.size + st.buf.content.size)
    (hret : min st.buf.window (st.buf.hashed.size + st.buf.content.size) ≤ st.buf.content.size) :
    let b' := (decodeOneBlock st s).1.buf
    b'.dict = st.buf.dict ∧ b'.window = st.buf.window ∧ b'.hashed = st.buf.hashed ∧
    st.buf.content.size ≤ b'.content.size ∧
    b'.totalOut ≤ b'.hashed.size + b'.content.size ∧
    min b'.window (b'.hashed.size + b'.content.size) ≤ b'.content.size :=
  have g := grows_decodeOneBlock st s
  ⟨g.dict, g.window, g.hashed, g.size, g.counterOk hinv, g.retained hret⟩

/-! ### the model's copy against the Rust statements

`Zstd.Proofs.DictCopy.repeatRust` spells out `DecodeBuffer::repeat` / `repeat_in_chunks` /
`repeat_from_dict` statement by statement on the abstract content: slice copies
(`extend_from_within`), the chunk loop for overlapping copies, the re-entry
`self.repeat(self.buffer.len(), rest)` of the straddling case. -/

/-- for every buffer state, every offset ≥ 1 and every match length the slice/chunk formulation of
the Rust code computes exactly `DBuf.repeat` (hence, by the theorems above, the RFC copy) -/
theorem repeat_eq_rust_statements (b : DBuf) (offset ml : Nat) (hpos : 0 < offset) :
    repeatRust b offset ml = b.repeat offset ml :=
  repeatRust_eq b offset ml hpos

/-- non-vacuity: straddling + chunked: 2 bytes from the dictionary, then the re-entered `repeat`
with offset 3 = buffer length copies 7 bytes in chunks of 3, 3, 1 -/
example :
    (match repeatRust { content := #[9], dict := #[1, 2, 3, 4, 5], window := 1024, totalOut := 1 } 3 9 with
     | .ok b' => b'.content == #[9, 4, 5, 9, 4, 5, 9, 4, 5, 9] && b'.totalOut == 10
     | .error _ => false) = true := by decide

/-- non-vacuity: a frame header naming dictionary 7 on a decoder without dictionaries -/
example : (match resetCore ([] : List (Dict Spec.Entropy)) (2 ^ 27) [0x28, 0xB5, 0x2F, 0xFD, 0x01, 0x00, 0x07, 0x01, 0, 0] with
    | .replace st (.err (.dictNotProvided 7)) => st.header.dictId == some 7
    | _ => false) = true := by decide

/-- the guard of `repeat_from_dict` in the SOURCE (operator extracted on every run) is the one the model uses
(`if fromDict > dict.size then error`): a match may reach back to the FIRST byte of the dictionary content, not further -/
theorem dict_reach_guard_is_the_models (fromDict dictSize : Nat) :
    Gen.dictReachTooFar fromDict dictSize = decide (fromDict > dictSize) := rfl


/-! ### the dictionary parser of the executable model (`Blk.decodeDict` = `Dictionary::decode_dict`) -/

open Zstd.Proofs.BitIO (Bytes) in
/-- **every dictionary the Spec parses (§5), `Dictionary::decode_dict` parses**: same id, same content,
same three repeat offsets, Huffman and FSE tables coupled with the Spec's (`Proofs.Blk.Coupled`) — so the
`DictsCoupled` hypothesis of the dictionary forms of C01 / C06 / C08 / C10 holds for decoders whose
dictionaries were registered through `add_dict` of parsed bytes (`parsed_dicts_coupled`) -/
theorem parsed_dictionary_is_the_specs {raw : List Nat} (hb : Bytes raw) {sd : Spec.Dict}
    (h : Spec.parseDict raw = some sd) :
    ∃ d, Blk.decodeDict raw = .ok (some d) ∧ d.id = sd.id ∧ d.content = sd.content ∧
      Zstd.Proofs.Blk.Coupled sd.entropy d.entropy :=
  decodeDict_refines hb h

open Zstd.Proofs.BitIO (Bytes) in
theorem parsed_dicts_coupled (d : DecB) (sdicts : List Spec.Dict) (raws : List (List Nat))
    (hb : ∀ raw ∈ raws, Bytes raw) (hs : ∀ raw ∈ raws, (Spec.parseDict raw).isSome = true)
    (h : DictsCoupled d.dicts sdicts) :
    DictsCoupled (registerDicts d raws).dicts (specRegisterDicts sdicts raws) :=
  registerDicts_coupled d sdicts raws hb hs h

open Zstd.Proofs.BitIO (Bytes) in
/-- **hostile dictionaries**: on ANY byte string `decode_dict` never panics, and every dictionary it
returns — whatever its three repeat offsets, which it copies unchecked (0 included) — carries a
well-formed entropy state, so decoding with it never panics either (C03 `no_fault_from_legal_states`:
`Legal.addDict` takes any bytes the parser accepts) -/
theorem hostile_dictionary_is_harmless {raw : List Nat} (hb : Bytes raw) :
    (∀ f, Blk.decodeDict raw ≠ .error f) ∧ (∀ d, Blk.decodeDict raw = .ok (some d) → Blk.WF d.entropy) :=
  decodeDict_spec hb

/-- (the code's parser is more lenient than §5 on one point the decoder then guards itself: the Spec
rejects a dictionary whose repeat offsets are 0 or beyond its content, `decode_dict` copies them
unchecked — an offset 0 reaches `execute_sequences` as `ZeroOffset`, one beyond the content as
`NotEnoughBytesInDictionary` / `OffsetTooBig`, `offset_beyond_rejected` above.)
Non-vacuity of the parser model: the magic number and an id but no tables is an error, not a fault -/
example : (match Blk.decodeDict ([0x37, 0xA4, 0x30, 0xEC] ++ [1, 0, 0, 0]) with | .ok none => true | _ => false) = true := by
  decide +kernel

end Zstd.Props.C09
