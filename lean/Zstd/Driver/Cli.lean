import Zstd.Driver.Util
import Zstd.Model.Cli
/- line protocol, engine `cli` (stateless); booleans are `0`/`1`, an absent level is `-` -/
namespace Zstd.Driver.Cli
open Zstd Zstd.Model.Cli Zstd.Driver

def bool? (s : String) : Option Bool := if s == "1" then some true else if s == "0" then some false else none

def outStr (e c : Bool) : String := if !e then "none" else if c then "complete" else "incomplete"

def handle (cmd : String) (args : List String) : String :=
  match cmd, args with
  | "compress", [lvl, ex, em, cr] =>
    (match (if lvl == "-" then some none else lvl.toNat?.map some), bool? ex, bool? em, bool? cr with
     | some level, some ex, some em, some cr =>
       let o := runCompress srcCfg level ⟨ex, em, cr⟩
       s!"exit={o.exit.render} out={outStr o.outputExists o.outputComplete}"
     | _, _, _, _ => badOp)
  | "level", [lvl] =>
    (match (if lvl == "-" then some none else lvl.toNat?.map some) with
     | some level => s!"ok {(runCompress srcCfg level ⟨true, false, true⟩).libLevel.getD "-"}"
     | none => badOp)
  | "decompress", [ex, va, cr, sa] =>
    (match bool? ex, bool? va, bool? cr, bool? sa with
     | some ex, some va, some cr, some sa =>
       let o := runDecompress srcCfg ⟨ex, va, cr, sa⟩
       s!"exit={o.exit.render} out={outStr o.outputExists o.outputComplete} input={if o.inputDestroyed then "destroyed" else "kept"}"
     | _, _, _, _ => badOp)
  | "nocommand", [] => s!"exit={(runNoCommand srcCfg).render}"
  | "stem", [name] => s!"ok {String.ofList (fileStem name.toList)}"
  | "addext", [name] => s!"ok {String.ofList (addExtension Gen.Cli.compressSuffix name.toList)}"
  | _, _ => badOp

end Zstd.Driver.Cli
