import Zstd.Driver.Util
import Zstd.Model.MatchGenerator
/- line protocol, engine `matcher` (stateful): the built-in `MatchGeneratorDriver` driven through the
`Matcher` trait.  One driver object at a time (`new` replaces it).  `key` is instantiated with the
real hash (`realKey`). -/
namespace Zstd.Driver.Matcher
open Zstd Zstd.Model.MG Zstd.Driver

structure State where
  d : Model.MG.Driver := Model.MG.Driver.new 0 0

/-- FNV-1a (64 bit) over the bytes; only a fingerprint for long byte strings -/
def fnv (bs : Array Byte) : UInt64 :=
  bs.foldl (fun h b => (h ^^^ UInt64.ofNat b) * 0x100000001b3) 0xcbf29ce484222325

def showBytes (bs : Array Byte) : String := s!"{bs.size} {(fnv bs).toNat}"

def showSeq : Seq → String
  | .triple l o m => s!"T:{if l.isEmpty then "-" else hexOfBytes l}:{o}:{m}"
  | .literals l => s!"L:{if l.isEmpty then "-" else hexOfBytes l}"

def showStats (d : Model.MG.Driver) : String :=
  let (a, b, c, e, f) := d.stats
  s!"{a} {b} {c} {e} {f}"

def step (st : State) (cmd : String) (args : List String) : State × String :=
  match cmd, args with
  | "new", [a, b] =>
    (match a.toNat?, b.toNat? with
     | some s, some n => ({ st with d := Model.MG.Driver.new s n }, "ok")
     | _, _ => (st, badOp))
  | "next", [] =>
    let (d, sp) := st.d.getNextSpace
    ({ st with d := d }, s!"ok {showBytes sp}")
  | "last", [] =>
    (match st.d.getLastSpace with
     | .ok sp => (st, s!"ok {showBytes sp}")
     | .error f => (st, showFault f))
  | "commit", [h, c] =>
    (match bytesOfHex h, c.toNat? with
     | some bs, some cap =>
       (match st.d.commitSpace bs.toArray cap with
        | .ok d => ({ st with d := d }, s!"ok {showStats d}")
        | .error f => (st, showFault f))
     | _, _ => (st, badOp))
  | "start", [] =>
    (match st.d.startMatching realKey with
     | .ok (d, seqs) => ({ st with d := d }, s!"ok {seqs.length} {";".intercalate (seqs.map showSeq)}")
     | .error f => (st, showFault f))
  | "skip", [] =>
    (match st.d.skipMatching realKey with
     | .ok d => ({ st with d := d }, "ok")
     | .error f => (st, showFault f))
  | "reset", [] =>
    let d := st.d.reset
    ({ st with d := d }, s!"ok {showStats d}")
  | "wsize", [] => (st, s!"ok {st.d.windowSize}")
  | "stats", [] => (st, s!"ok {showStats st.d}")
  | "key", [ll, n, h] =>
    (match ll.toNat?, n.toNat?, bytesOfHex h with
     | some ll, some n, some bs => (st, s!"ok {realKey ll n bs}")
     | _, _, _ => (st, badOp))
  | _, _ => (st, badOp)

end Zstd.Driver.Matcher
