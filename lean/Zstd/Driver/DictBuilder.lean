import Zstd.Driver.Util
import Zstd.Model.DictBuilder
/- line protocol, engine `dictbuilder` (stateless):
   `dictbuilder run <source length> <size estimate> <dict size> <chunk-limit script | -> <observed length | ->`
   The scoring is abstract in the model: the best segment is some chunk of the sample, and only the LAST
   chunk can have a different length.  The model is run with `pick = first chunk` and with
   `pick = last chunk`; if both give the same length that is the answer (deterministic case), otherwise
   the observed length is accepted iff it is one of the two. -/
namespace Zstd.Driver.DictBuilder
open Zstd Zstd.Model.DictBuilder Zstd.Driver

/-- `a,b,c` = limits of the first reads; a final `*k` = every further read is limited to `k` -/
def parseScript (len : Nat) (s : String) : Option (List Nat) :=
  if s == "-" then some []
  else
    (s.splitOn ",").foldlM (fun acc t =>
      if t.startsWith "*" then (t.drop 1).toNat?.map (fun k => acc ++ List.replicate (len + 2) k)
      else t.toNat?.map (fun k => acc ++ [k])) []

def showErr : Err → String
  | .fault f => showFault f
  | .outOfFuel l => "hang " ++ l

def handle (cmd : String) (args : List String) : String :=
  match cmd, args with
  | "run", [len, est, dict, sc, obs] =>
    (match len.toNat?, est.toNat?, dict.toNat?, len.toNat?.bind (fun l => parseScript l sc) with
     | some len, some est, some dict, some script =>
       let src : Src := ⟨len, script⟩
       let a := run srcCfg (fuelFor src) src est dict [] (fun _ => 0) []
       let b := run srcCfg (fuelFor src) src est dict [] (fun _ => 1000000007) []
       (match a, b with
        | .error e, _ => showErr e
        | _, .error e => showErr e
        | .ok ra, .ok rb =>
          -- `pick e % numChunks` with a huge prime hits the last chunk only by accident; ask for it exactly
          let last := if ra.sample = 0 then 0 else
            (match params srcCfg est dict with
             | .ok p => numChunks ra.sample p.seg - 1
             | .error _ => 0)
          let c := run srcCfg (fuelFor src) src est dict [] (fun _ => last) []
          let wb := match c with | .ok rc => rc.written | .error _ => rb.written
          if ra.written = wb then s!"ok {ra.written}"
          else if obs.toNat? = some ra.written || obs.toNat? = some wb then s!"ok {obs}"
          else s!"ok {ra.written}|{wb}")
     | _, _, _, _ => badOp)
  -- details for the evidence: sample length, segments kept, whether the length is determined
  | "info", [len, est, dict, sc] =>
    (match len.toNat?, est.toNat?, dict.toNat?, len.toNat?.bind (fun l => parseScript l sc) with
     | some len, some est, some dict, some script =>
       let src : Src := ⟨len, script⟩
       (match run srcCfg (fuelFor src) src est dict [] (fun _ => 0) [] with
        | .ok r => s!"ok written={r.written} sample={r.sample} segments={r.segments}"
        | .error e => showErr e)
     | _, _, _, _ => badOp)
  | "params", [est, dict] =>
    (match est.toNat?, dict.toNat? with
     | some est, some dict =>
       (match params srcCfg est dict with
        | .ok p => s!"ok seg={p.seg} segments={p.numSegments} sample={p.sampleSize} epoch={p.epochSize}"
        | .error e => showErr e)
     | _, _ => badOp)
  | _, _ => badOp

end Zstd.Driver.DictBuilder
