import Zstd.Driver.Util
import Zstd.Model.Window
/- line protocol, engine `window` (C11): one scenario per line, `window seq <op> <op> …`;
ops: `set:<m>`, `reset:<hex>`, `all:<hex>`, `snew:<hex>`, `snewmax:<m>:<hex>`, `swith:<hex>`.
The scenario starts from `FrameDecoder::new()`.  Answer: one item per op, joined by ` | `. -/
namespace Zstd.Driver.Window
open Zstd Zstd.Model Zstd.Model.Hdr Zstd.Driver

def showHdrErr : FrameHdrErr → String
  | .magicRead => "magic"
  | .descRead => "desc"
  | .windowRead => "window"
  | .dictIdRead => "dictid"
  | .fcsRead => "fcs"
  | .skipFrame m l => s!"skip:{m}:{l}"
  | .badMagic m => s!"badmagic:{m}"
  | .invalidFlag g => s!"flag:{g}"

def showErr : FrameDecErr → String
  | .readHeader e => s!"err header {showHdrErr e}"
  | .headerErr (.tooBig g) => s!"err toobig {g}"
  | .headerErr (.tooSmall g) => s!"err toosmall {g}"
  | .windowSizeTooBig r m => s!"err window {r} {m}"
  | .dictNotProvided id => s!"err dict {id}"
  | .failedToSkipFrame => "err skipfail"
  | .outsideModel => "err outside-model"
  | .fault f => showFault f

def ringOf (evs : List AllocEvent) : String :=
  let caps := evs.filterMap (fun e => match e with | .ringAlloc c => some (toString c) | _ => none)
  "ring=[" ++ ",".intercalate caps ++ "]"

def item (before after : FrameDecoder) (res : String) : String :=
  s!"{res} max={after.maxWindow} {ringOf (after.log.drop before.log.length)}"

/-- a failed `StreamingDecoder::new*` drops its decoder: the limit is not observable -/
def itemS (after : FrameDecoder) (r : Except FrameDecErr Unit) : String :=
  match r with
  | .ok _ => s!"ok max={after.maxWindow} {ringOf after.log}"
  | .error e => s!"{showErr e} max=- {ringOf after.log}"

def runOp (d : FrameDecoder) (op : String) : Option (FrameDecoder × String) :=
  match op.splitOn ":" with
  | ["set", m] => m.toNat?.map (fun m => let d' := d.setMaxWindowSize m; (d', item d d' "ok"))
  | ["reset", h] =>
    (bytesOfHex h).map (fun bs =>
      let (d', r) := d.reset bs
      (d', item d d' (match r with | .ok _ => "ok" | .error e => showErr e)))
  | ["all", h] =>
    (bytesOfHex h).map (fun bs =>
      let (d', r) := d.decodeAllMin bs (bs.length + 1) 0
      (d', item d d' (match r with | .ok _ => "ok" | .error e => showErr e)))
  | ["snew", h] =>
    (bytesOfHex h).map (fun bs =>
      let (d', r) := streamingNew bs
      (d', itemS d' r))
  | ["snewmax", m, h] =>
    match m.toNat?, bytesOfHex h with
    | some m, some bs =>
      let (d', r) := streamingNewWithMax bs m
      some (d', itemS d' r)
    | _, _ => none
  | ["swith", h] =>
    (bytesOfHex h).map (fun bs =>
      let (d', r) := streamingNewWithDecoder d bs
      (d', item d d' (match r with | .ok _ => "ok" | .error e => showErr e)))
  | _ => none

def runOps : FrameDecoder → List String → Option (List String)
  | _, [] => some []
  | d, op :: rest =>
    match runOp d op with
    | none => none
    | some (d', s) => (runOps d' rest).map (fun l => s :: l)

def handle (cmd : String) (args : List String) : String :=
  match cmd with
  | "seq" =>
    (match runOps FrameDecoder.new args with
     | some items => " | ".intercalate items
     | none => badOp)
  | _ => badOp

end Zstd.Driver.Window
