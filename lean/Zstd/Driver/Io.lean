import Zstd.Driver.Util
import Zstd.Spec.Io
/- line protocol, engine `io` (stateless).
   script tokens (comma separated, `-` = empty script): `d<k>` data k · `z` Ok(0) · `i` Interrupted ·
   `eo` Other · `ew` WouldBlock · `eu` UnexpectedEof -/
namespace Zstd.Driver.Io
open Zstd Zstd.Model.Io Zstd.Driver

def parseResp (t : String) : Option Resp :=
  if t == "z" then some .eof
  else if t == "i" then some .interrupted
  else if t == "eo" then some (.error .other)
  else if t == "ew" then some (.error .wouldBlock)
  else if t == "eu" then some (.error .unexpectedEof)
  else if t.startsWith "d" then (t.drop 1).toNat?.map Resp.data
  else none

def parseScript (s : String) : Option (List Resp) :=
  if s == "-" then some [] else (s.splitOn ",").mapM parseResp

def parseNats (s : String) : Option (List Nat) :=
  if s == "-" then some [] else (s.splitOn ",").mapM String.toNat?

def showRes {α} (f : α → String) : Res α → String
  | .ok a => "ok " ++ f a
  | .err k => "err " ++ k.render
  | .hang => "hang"

/-- a sequence of `read` calls on a `Take`, each answer rendered; stops at a fault -/
def takeSeq (t : Take) : List Nat → List String → List String × Take
  | [], acc => (acc.reverse, t)
  | req :: rs, acc =>
    match Take.read srcCfg 64 t req with
    | .error f => ((showFault f :: acc).reverse, t)
    | .ok (.ok bs, t') => takeSeq t' rs (s!"{hexOfBytes bs}" :: acc)
    | .ok (.error k, t') => takeSeq t' rs (s!"!{k.render}" :: acc)

def handle (cmd : String) (args : List String) : String :=
  match cmd, args with
  | "read_exact", [sc, src, need] =>
    (match parseScript sc, bytesOfHex src, need.toNat? with
     | some script, some bs, some n =>
       let (res, r) := readExact srcCfg script bs n
       s!"{showRes (fun b => if b.isEmpty then "-" else hexOfBytes b) res} rem={r.src.length} left={r.script.length}"
     | _, _, _ => badOp)
  | "read_to_end", [sc, src] =>
    (match parseScript sc, bytesOfHex src with
     | some script, some bs =>
       let (res, r) := readToEnd srcCfg script bs
       s!"{showRes (fun b => if b.isEmpty then "-" else hexOfBytes b) res} rem={r.src.length} left={r.script.length}"
     | _, _ => badOp)
  | "take", [limit, sc, src, reqs] =>
    (match limit.toNat?, parseScript sc, bytesOfHex src, parseNats reqs with
     | some l, some script, some bs, some rq =>
       let (outs, t) := takeSeq ⟨⟨bs, script⟩, l⟩ rq []
       s!"ok {"|".intercalate (outs.map fun o => if o.isEmpty then "-" else o)} limit={t.limit} rem={t.inner.src.length} left={t.inner.script.length}"
     | _, _, _, _ => badOp)
  | "write_all", [sc, buf] =>
    (match parseScript sc, bytesOfHex buf with
     | some script, some bs =>
       let (res, w) := writeAll srcCfg script [] bs
       s!"{showRes (fun _ => "done") res} sink={if w.sink.isEmpty then "-" else hexOfBytes w.sink} left={w.script.length}"
     | _, _ => badOp)
  | "slice_read", [slice, req] =>
    (match bytesOfHex slice, req.toNat? with
     | some s, some n =>
       let (got, rest) := sliceRead srcCfg s n
       s!"ok {if got.isEmpty then "-" else hexOfBytes got} rest={rest.length}"
     | _, _ => badOp)
  -- `read_exact` on a `&[u8]`: every `read` delivers as much as is asked for and left
  | "slice_read_exact", [slice, need] =>
    (match bytesOfHex slice, need.toNat? with
     | some s, some n =>
       let (res, r) := readExact srcCfg (List.replicate (n + 1) (.data (n + 1))) s n
       s!"{showRes (fun b => if b.isEmpty then "-" else hexOfBytes b) res} rest={r.src.length}"
     | _, _ => badOp)
  -- `write_all` on a `&mut [u8]` with `room` bytes: the first `write` takes what fits, the next one reports 0
  | "slice_write_all", [room, data] =>
    (match room.toNat?, bytesOfHex data with
     | some r, some d =>
       let (res, w) := writeAll srcCfg [.data r, .eof] [] d
       s!"{showRes (fun _ => "done") res} sink={if w.sink.isEmpty then "-" else hexOfBytes w.sink} room={r - w.sink.length}"
     | _, _ => badOp)
  | "slice_write", [room, data] =>
    (match room.toNat?, bytesOfHex data with
     | some r, some d =>
       let (stored, n, left) := sliceWrite srcCfg r d
       s!"ok {if stored.isEmpty then "-" else hexOfBytes stored} n={n} room={left}"
     | _, _ => badOp)
  | "vec_write", [v, data] =>
    (match bytesOfHex v, bytesOfHex data with
     | some v, some d =>
       let (v', n) := vecWrite srcCfg v d
       s!"ok {if v'.isEmpty then "-" else hexOfBytes v'} n={n}"
     | _, _ => badOp)
  -- the frame a build WITHOUT the hash feature writes, predicted from the frame of a build WITH it
  | "hashoff", [fr] =>
    (match bytesOfHex fr with
     | some f =>
       if srcHashCfg.setsFlag && srcHashCfg.writesTrailerLast then
         s!"ok {hexOfBytes (clearBitAt 4 srcHashCfg.encBit (dropLast 4 f))}"
       else s!"ok {hexOfBytes f}"
     | none => badOp)
  -- does the decoder expect a trailer for this descriptor byte?
  | "flag", [d] =>
    (match d.toNat? with
     | some d => s!"ok {checksumFlag srcHashCfg d}"
     | none => badOp)
  | _, _ => badOp

/-- the same requests answered by the Spec (the std contract): used for the harness builds in which
`ruzstd::io` IS `std::io`, i.e. this validates the Spec against the real standard library -/
def handleStd (cmd : String) (args : List String) : String :=
  match cmd, args with
  | "std_read_exact", [sc, src, need] =>
    (match parseScript sc, bytesOfHex src, need.toNat? with
     | some script, some bs, some n =>
       let (res, r) := Spec.Io.readExact script bs n
       s!"{showRes (fun b => if b.isEmpty then "-" else hexOfBytes b) res} rem={r.src.length} left={r.script.length}"
     | _, _, _ => badOp)
  | "std_read_to_end", [sc, src] =>
    (match parseScript sc, bytesOfHex src with
     | some script, some bs =>
       -- std probes with small reads first and grows; for contract-keeping readers the request size is immaterial
       let (res, r) := Spec.Io.readToEnd (bs.length + 32) script bs
       s!"{showRes (fun b => if b.isEmpty then "-" else hexOfBytes b) res} rem={r.src.length} left={r.script.length}"
     | _, _ => badOp)
  | "std_take", [limit, sc, src, reqs] =>
    (match limit.toNat?, parseScript sc, bytesOfHex src, parseNats reqs with
     | some l, some script, some bs, some rq =>
       let rec go (t : Take) : List Nat → List String → List String × Take
         | [], acc => (acc.reverse, t)
         | req :: rs, acc =>
           match Spec.Io.takeRead t req with
           | (.ok b, t') => go t' rs (hexOfBytes b :: acc)
           | (.error k, t') => go t' rs (s!"!{k.render}" :: acc)
       let (outs, t) := go ⟨⟨bs, script⟩, l⟩ rq []
       s!"ok {"|".intercalate (outs.map fun o => if o.isEmpty then "-" else o)} limit={t.limit} rem={t.inner.src.length} left={t.inner.script.length}"
     | _, _, _, _ => badOp)
  | "std_write_all", [sc, buf] =>
    (match parseScript sc, bytesOfHex buf with
     | some script, some bs =>
       let (res, w) := Spec.Io.writeAll script [] bs
       s!"{showRes (fun _ => "done") res} sink={if w.sink.isEmpty then "-" else hexOfBytes w.sink} left={w.script.length}"
     | _, _ => badOp)
  | "std_slice_read", [slice, req] =>
    (match bytesOfHex slice, req.toNat? with
     | some s, some n =>
       let (got, rest) := Spec.Io.sliceRead s n
       s!"ok {if got.isEmpty then "-" else hexOfBytes got} rest={rest.length}"
     | _, _ => badOp)
  | "std_slice_read_exact", [slice, need] =>
    (match bytesOfHex slice, need.toNat? with
     | some s, some n =>
       let (res, r) := Spec.Io.readExact (List.replicate (n + 1) (.data (n + 1))) s n
       s!"{showRes (fun b => if b.isEmpty then "-" else hexOfBytes b) res} rest={r.src.length}"
     | _, _ => badOp)
  | "std_slice_write_all", [room, data] =>
    (match room.toNat?, bytesOfHex data with
     | some r, some d =>
       let (res, w) := Spec.Io.writeAll [.data r, .eof] [] d
       s!"{showRes (fun _ => "done") res} sink={if w.sink.isEmpty then "-" else hexOfBytes w.sink} room={r - w.sink.length}"
     | _, _ => badOp)
  | "std_slice_write", [room, data] =>
    (match room.toNat?, bytesOfHex data with
     | some r, some d =>
       let (stored, n, left) := Spec.Io.sliceWrite r d
       s!"ok {if stored.isEmpty then "-" else hexOfBytes stored} n={n} room={left}"
     | _, _ => badOp)
  | "std_vec_write", [v, data] =>
    (match bytesOfHex v, bytesOfHex data with
     | some v, some d =>
       let (v', n) := Spec.Io.vecWrite v d
       s!"ok {if v'.isEmpty then "-" else hexOfBytes v'} n={n}"
     | _, _ => badOp)
  | _, _ => handle cmd args

end Zstd.Driver.Io
