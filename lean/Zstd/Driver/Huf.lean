import Zstd.Driver.Util
import Zstd.Model.Huffman
import Zstd.Spec.Xxh64
import Zstd.Driver.Fse
/- line protocol, engine `huf` (stateless): the Huffman coder model (C13) -/
namespace Zstd.Driver.Huf
open Zstd Zstd.Driver Zstd.Model.Huf Zstd.Model.Huf.Bits

def hex16 (v : UInt64) : String :=
  let n := v.toNat
  String.join ((List.range 8).reverse.map fun i => hexByte (n / 256 ^ i % 256))

/-- `len:xxh64`, same format as the harness' `digest()` -/
def digest (bs : List Nat) : String := s!"{bs.length}:{hex16 (Zstd.Spec.Xxh64.xxh64 0 bs)}"

/-- short byte strings as hex, long ones as digest -/
def showBytes (bs : List Nat) : String :=
  if bs.isEmpty then "-" else if bs.length ≤ 48 then hexOfBytes bs else digest bs

def csv (xs : List Nat) : String := if xs.isEmpty then "-" else ",".intercalate (xs.map toString)

def parseCsv (s : String) : Option (List Nat) :=
  if s == "-" then some [] else (s.splitOn ",").mapM String.toNat?

def showCodes (t : EncTable) : String :=
  if t.codes.isEmpty then "-" else ",".intercalate (t.codes.map fun c => s!"{c.1}:{c.2}")

def okOrFault {α} (r : Except Fault α) (f : α → String) : String :=
  match r with
  | .ok a => "ok " ++ f a
  | .error e => showFault e

def fseParam (s : String) : Option (List Nat → Except Fault (List Nat)) :=
  if s == "!" then some (fun _ => .error (.unwrap "fse_encoder (panicked in the implementation)"))
  else (bytesOfHex s).map fun bs => fun _ => .ok bs

def showHufErr : HufErr → String
  | .sourceIsEmpty => "SourceIsEmpty"
  | .notEnoughBytesForWeights g e => s!"NotEnoughBytesForWeights {g} {e}"
  | .fseTable e => "FSETableError " ++ ((Driver.Fse.showErr e).drop 4).toString
  | .fseTableUsedTooManyBytes u a => s!"FSETableUsedTooManyBytes {u} {a}"
  | .notEnoughBytesToDecompressWeights h n => s!"NotEnoughBytesToDecompressWeights {h} {n}"
  | .extraPadding s => s!"ExtraPadding {s}"
  | .fseDecoder => "FSEDecoderError"
  | .tooManyWeights g => s!"TooManyWeights {g}"
  | .notEnoughBytesInSource g n => s!"NotEnoughBytesInSource {g} {n}"
  | .weightBiggerThanMaxNumBits g => s!"WeightBiggerThanMaxNumBits {g}"
  | .missingWeights => "MissingWeights"
  | .leftoverIsNotAPowerOf2 g => s!"LeftoverIsNotAPowerOf2 {g}"
  | .maxBitsTooHigh g => s!"MaxBitsTooHigh {g}"

def showLitErr : LitErr → String
  | .missingCompressedSize => "MissingCompressedSize"
  | .missingNumStreams => "MissingNumStreams"
  | .huf e => "Huf." ++ showHufErr e
  | .uninitializedHuffmanTable => "UninitializedHuffmanTable"
  | .missingBytesForJumpHeader g => s!"MissingBytesForJumpHeader {g}"
  | .missingBytesForLiterals g n => s!"MissingBytesForLiterals {g} {n}"
  | .extraPadding s => s!"ExtraPadding {s}"
  | .bitstreamReadMismatch r e => s!"BitstreamReadMismatch {r} {e}"
  | .decodedLiteralCountMismatch d e => s!"DecodedLiteralCountMismatch {d} {e}"

def decodeBytes (t : DecTable) : List Nat :=
  t.decode.toList.foldr (fun e acc => e.symbol :: e.numBits :: acc) []

def showState (t : DecTable) : String :=
  s!"mb={t.maxNumBits} w={csv t.weights} b={csv t.bits} d={digest (decodeBytes t)}"

def showBuild (r : DecTable × DRes HufErr Nat) : String :=
  match r with
  | (t, .ok used) => s!"ok {used} {showState t}"
  | (t, .error (.err e)) => s!"err {showHufErr e} | {showState t}"
  | (_, .error (.fault f)) => showFault f

def tableOfCounts (s : String) : Option (Except Fault EncTable) := (parseCsv s).map buildFromCounts

def showDeclit (r : DecTable × DRes LitErr (List Nat × Nat)) : String :=
  match r with
  | (t, .ok (lits, used)) => s!"ok {used} {showBytes lits} mb={t.maxNumBits}"
  | (t, .error (.err e)) => s!"err {showLitErr e} mb={t.maxNumBits}"
  | (_, .error (.fault f)) => showFault f

def revOps (r : RevReader) : List Nat → List String → List String
  | [], acc => acc.reverse
  | n :: ns, acc =>
    let (v, r') := r.getBits n
    revOps r' ns (s!"{v}:{r'.bitsRemaining}" :: acc)

/-- one-entry cache: the last histogram and its table (consecutive requests reuse a table) -/
abbrev Cache := Option (String × Option (Except Fault EncTable))

def handleC (cache : Cache) (cmd : String) (args : List String) : String :=
  let tableOfCounts (s : String) : Option (Except Fault EncTable) :=
    match cache with
    | some (k, v) => if k == s then v else tableOfCounts s
    | none => tableOfCounts s
  match cmd, args with
  | "dist", [n] =>
    (match n.toNat? with
     | some n => okOrFault (distributeWeights n) csv
     | none => badOp)
  | "redist", [lim, ws] =>
    (match lim.toNat?, parseCsv ws with
     | some lim, some ws => okOrFault (redistributeWeights ws lim) csv
     | _, _ => badOp)
  | "counts", [cs] =>
    (match parseCsv cs with
     | some cs => okOrFault (buildFromCounts cs) showCodes
     | none => badOp)
  | "fromw", [ws] =>
    (match parseCsv ws with
     | some ws => okOrFault (buildFromWeights ws) showCodes
     | none => badOp)
  | "data", [h] =>
    (match bytesOfHex h with
     | some d => okOrFault (buildFromData d) showCodes
     | none => badOp)
  | "canenc", [a, b] =>
    (match tableOfCounts a, tableOfCounts b with
     | some (.ok ta), some (.ok tb) =>
       (match canEncode ta tb with
        | some n => s!"ok {n}"
        | none => "ok none")
     | some (.error f), _ => showFault f
     | _, some (.error f) => showFault f
     | _, _ => badOp)
  | "desc", [cs, fse] =>
    (match tableOfCounts cs, fseParam fse with
     | some (.ok t), some fseEnc =>
       (match weights t, writeTable fseEnc t with
        | .ok ws, .ok d => s!"ok w={csv ws} d={hexOfBytes d}"
        | .error f, _ => showFault f
        | _, .error f => showFault f)
     | some (.error f), _ => showFault f
     | _, _ => badOp)
  | "enc1", [cs, h, wt, fse] =>
    (match tableOfCounts cs, bytesOfHex h, fseParam fse with
     | some (.ok t), some d, some fseEnc => okOrFault (encode fseEnc t d (wt == "1")) showBytes
     | some (.error f), _, _ => showFault f
     | _, _, _ => badOp)
  | "enc4", [cs, h, wt, fse] =>
    (match tableOfCounts cs, bytesOfHex h, fseParam fse with
     | some (.ok t), some d, some fseEnc => okOrFault (encode4x fseEnc t d (wt == "1")) showBytes
     | some (.error f), _, _ => showFault f
     | _, _, _ => badOp)
  | "build", [h] =>
    (match bytesOfHex h with
     | some src => showBuild (buildDecoder DecTable.empty src)
     | none => badOp)
  | "build2", [h1, h2] =>
    (match bytesOfHex h1, bytesOfHex h2 with
     | some s1, some s2 => showBuild (buildDecoder (buildDecoder DecTable.empty s1).1 s2)
     | _, _ => badOp)
  | "declit", [ty, ns, regen, csize, tbl, src, pre] =>
    (match ns.toNat?, regen.toNat?, bytesOfHex tbl, bytesOfHex src, bytesOfHex pre with
     | some ns, some regen, some tbl, some src, some pre =>
       let lsType := if ty == "c" then LitType.compressed else if ty == "t" then LitType.treeless
                     else if ty == "r" then LitType.raw else LitType.rle
       let sec : LitSection := { lsType := lsType, regeneratedSize := regen,
                                 compressedSize := csize.toNat?, numStreams := if ns = 0 then none else some ns }
       let t0 := if tbl.isEmpty then DecTable.empty else (buildDecoder DecTable.empty tbl).1
       showDeclit (decodeLiterals sec t0 src pre)
     | _, _, _, _, _ => badOp)
  | "rev", [h, ns] =>
    (match bytesOfHex h, parseCsv ns with
     | some src, some ns => "ok " ++ " ".intercalate (revOps (RevReader.new src) ns [])
     | _, _ => badOp)
  | _, _ => badOp

def step (cache : Cache) (cmd : String) (args : List String) : Cache × String :=
  match cmd, args with
  | "desc", cs :: _ | "enc1", cs :: _ | "enc4", cs :: _ =>
    let cache' : Cache :=
      match cache with
      | some (k, _) => if k == cs then cache else some (cs, tableOfCounts cs)
      | none => some (cs, tableOfCounts cs)
    (cache', handleC cache' cmd args)
  | _, _ => (cache, handleC none cmd args)

def handle (cmd : String) (args : List String) : String := handleC none cmd args

end Zstd.Driver.Huf
