import Zstd.Driver.Util
import Zstd.Driver.Spec
import Zstd.Model.FrameFaithful
/- engine `dec` (stateful): the frame-level decoder state machine under a driver program.
The block decoder is instance B (`Model/FrameFaithful.lean`): the faithful `Blk.decompressBlock` with the
real scratch state, so the model answers like the code on malformed block content too (same error
variant family, same state left behind); dictionaries go through the faithful `Blk.decodeDict`. -/
namespace Zstd.Driver.Dec
open Zstd Zstd.Model Zstd.Driver

structure St where
  dec : DecB := {}
  src : List Nat := []
  deriving Inhabited

def init : St := {}

def showBytes (bs : Array Nat) : String :=
  if bs.size = 0 then "-" else if bs.size ≤ 48 then hexOfBytes bs.toList else Driver.Spec.digest bs.toList

def optNat : Option Nat → String
  | some n => toString n
  | none => "-"

/-- everything the public API lets a caller observe without changing the state -/
def observe (d : DecB) : String :=
  let fin := if d.isFinished then 1 else 0
  let (read, blocks, cks, fcs, did) := match d.state with
    | none => (0, 0, none, 0, none)
    | some st => (st.bytesRead, st.blockCounter, st.checksum, st.header.fcs, st.header.dictId)
  let _ := did
  s!"fin={fin} can={d.canCollect} read={read} blocks={blocks} cks={optNat cks} calc={optNat d.calculatedChecksum} fcs={fcs} max={d.maxWindow}"

def showOut {α} (o : Out α) (f : α → String) : String :=
  match o with
  | .ok a => "ok" ++ (let s := f a; if s.isEmpty then "" else " " ++ s)
  | .err e => e.render
  | .fault f => showFault f

def parseStrategy (s : String) : Option Strategy :=
  match s.splitOn ":" with
  | ["all"] => some .all
  | ["blocks", n] => n.toNat?.map .uptoBlocks
  | ["bytes", n] => n.toNat?.map .uptoBytes
  | _ => none

def parseSink (s : String) : Option (List SinkResp) :=
  if s == "-" then some [] else
  (s.splitOn ",").mapM fun t =>
    if t == "f" then some SinkResp.fail
    else if t.startsWith "a" then (t.drop 1).toNat?.map SinkResp.accept
    else none

/-- model-side dictionary: the mirror of `Dictionary::decode_dict` -/
def parseDict (bs : List Nat) : Except Fault (Option (Dict Blk.Scratch)) := Blk.decodeDict bs

def step (st : St) (args : List String) : St × String :=
  let fin (d : DecB) (src : List Nat) (res : String) : St × String :=
    ({ st with dec := d, src := src }, res ++ " | " ++ observe d)
  match args with
  | ["new"] => fin {} [] "ok"
  | ["setmax", n] =>
    (match n.toNat? with
     | some w => fin (st.dec.setMaxWindowSize w) st.src "ok"
     | none => (st, badOp))
  | ["adddict", h] =>
    (match bytesOfHex h with
     | none => (st, badOp)
     | some bs =>
       match parseDict bs with
       | .error _ => fin st.dec st.src "fault"
       | .ok none => fin st.dec st.src "err dict"
       | .ok (some d) => fin (st.dec.addDict d) st.src s!"ok {d.id}")
  | ["forcedict", n] =>
    (match n.toNat? with
     | some id => let (d, o) := st.dec.forceDict id; fin d st.src (showOut o fun _ => "")
     | none => (st, badOp))
  | ["src", h] =>
    (match bytesOfHex h with
     | none => (st, badOp)
     | some bs => fin st.dec bs "ok")
  | ["reset"] =>
    (match st.dec.reset st.src with
     | (d, .ok rest) => fin d rest "ok"
     | (d, .err (.dictNotProvided i)) =>
       -- the real reader has consumed the frame header when `reset` reports the missing dictionary (the state is
       -- initialised, only the dictionary is not installed): the documented recovery add_dict + force_dict continues from there
       (match readFrameHeader st.src with
        | .ok (_, _, rest) => fin d rest (showOut (.err (.dictNotProvided i) : Out Unit) fun _ => "")
        | .error _ => fin d st.src (showOut (.err (.dictNotProvided i) : Out Unit) fun _ => ""))
     | (d, o) => fin d st.src (showOut o fun _ => ""))
  | ["blocks", s] =>
    (match parseStrategy s with
     | none => (st, badOp)
     | some strat =>
       match st.dec.decodeBlocks st.src strat with
       | (d, .ok (rest, f)) => fin d rest s!"ok {if f then 1 else 0}"
       | (d, o) => fin d [] (showOut o fun _ => ""))
  | ["collect"] =>
    (match st.dec.collect with
     | (d, some out) => fin d st.src s!"ok {showBytes out}"
     | (d, none) => fin d st.src "none")
  | ["read", n] =>
    (match n.toNat? with
     | none => (st, badOp)
     | some k => let (d, out) := st.dec.read k; fin d st.src s!"ok {showBytes out}")
  | ["towriter", budget, mode] =>
    -- a sink with a total budget that then answers Ok(0) (`z`) or fails (`f`); for such sinks the
    -- result does not depend on how the ring splits the data or how the sink chunks its writes
    (match budget.toNat? with
     | some bud =>
       let final := if mode == "f" then SinkResp.fail else SinkResp.accept 0
       let script := (if bud > 0 then [SinkResp.accept bud] else []) ++ [final]
       let seg1 := match st.dec.state with | some s => s.buf.content.size | none => 0
       let (d, w, ok) := st.dec.collectToWriter seg1 script
       fin d st.src (if ok then s!"ok {w}" else s!"err sink {w}")
     | none => (st, badOp))
  | ["fromto", h, n] =>
    (match bytesOfHex h, n.toNat? with
     | some bs, some k =>
       (match st.dec.decodeFromTo bs k with
        | (d, .ok (r, out)) => fin d st.src s!"ok {r} {showBytes out}"
        | (d, o) => fin d st.src (showOut o fun _ => ""))
     | _, _ => (st, badOp))
  | ["all", h, room] =>
    (match bytesOfHex h, room.toNat? with
     | some bs, some k =>
       (match st.dec.decodeAll bs k with
        | (d, .ok out) => fin d st.src s!"ok {showBytes out}"
        | (d, o) => fin d st.src (showOut o fun _ => ""))
     | _, _ => (st, badOp))
  | ["allvec", h, pre, room] =>
    -- `decode_all_to_vec` into a vector holding `pre` with `room` bytes of spare capacity
    (match bytesOfHex h, (if pre == "-" then some [] else bytesOfHex pre), room.toNat? with
     | some bs, some pb, some k =>
       (match st.dec.decodeAllToVec bs pb.toArray k with
        | (d, v, .ok ()) => fin d st.src s!"ok {showBytes (v.extract pb.length v.size)} vec={v.size} pre={showBytes (v.extract 0 pb.length)}"
        | (d, v, .err e) => fin d st.src s!"{e.render} vec={v.size} pre={showBytes (v.extract 0 pb.length)}"
        | (d, v, .fault f) => fin d st.src s!"{showFault f} vec={v.size} pre={showBytes (v.extract 0 pb.length)}")
     | _, _, _ => (st, badOp))
  | ["sread", n] =>
    (match n.toNat? with
     | none => (st, badOp)
     | some k =>
       match streamingRead st.dec st.src k with
       | (d, .ok (rest, out)) => fin d rest s!"ok {showBytes out}"
       | (d, o) => fin d [] (showOut o fun _ => ""))
  | _ => (st, badOp)

end Zstd.Driver.Dec
