import Zstd.Driver.Util
import Zstd.Model.Headers
/- line protocol, engine `headers` (stateless): one request per line, one answer per line -/
namespace Zstd.Driver.Headers
open Zstd Zstd.Model Zstd.Model.Hdr Zstd.Driver

def optNat (s : String) : Option (Option Nat) :=
  if s == "-" then some none else (s.toNat?).map some

def showOpt : Option Nat → String
  | some v => toString v
  | none => "-"

def b2n (b : Bool) : Nat := if b then 1 else 0

def showBytes (r : Except Fault (List Nat)) : String :=
  match r with
  | .ok bs => s!"ok {hexOfBytes bs}"
  | .error f => showFault f

def showWindow (r : Except WindowErr Nat) : String :=
  match r with
  | .ok w => s!"win=ok:{w}"
  | .error (.tooBig g) => s!"win=toobig:{g}"
  | .error (.tooSmall g) => s!"win=toosmall:{g}"

def showFrameErr : FrameHdrErr → String
  | .magicRead => "err magic"
  | .descRead => "err desc"
  | .windowRead => "err window"
  | .dictIdRead => "err dictid"
  | .fcsRead => "err fcs"
  | .skipFrame m l => s!"err skip {m} {l}"
  | .badMagic m => s!"err badmagic {m}"
  | .invalidFlag g => s!"err flag {g}"

def showBlk (bs : List Nat) : String :=
  match readBlockHeader bs with
  | .ok (hd, used) => s!"ok {b2n hd.last} {hd.btype} {hd.decompressedSize} {hd.contentSize} {used}"
  | .error (.readError _) => "err read"
  | .error .reserved => "err reserved"
  | .error (.tooLarge s) => s!"err toolarge {s}"
  | .error (.invalidType n) => s!"err badtype {n}"

/-- FNV-1a (64 bit) over the UTF-8 bytes of a string plus a terminating newline -/
def fnvStr (h : UInt64) (s : String) : UInt64 :=
  let step := fun (h : UInt64) (b : UInt8) => (h ^^^ b.toUInt64) * 0x100000001b3
  step (s.toUTF8.foldl step h) 10

/-- digest of the answers for all block headers with little-endian value in `[lo, hi)` -/
def blkRange (lo hi : Nat) : String :=
  let h := (List.range (hi - lo)).foldl (fun h i =>
    let v := lo + i
    fnvStr h (showBlk [v % 256, v / 256 % 256, v / 65536 % 256])) 0xcbf29ce484222325
  s!"ok {h.toNat}"

def handle (cmd : String) (args : List String) : String :=
  match cmd, args with
  | "blk", [h] =>
    (match bytesOfHex h with
     | some bs => showBlk bs
     | none => badOp)
  | "blk_range", [lo, hi] =>
    (match lo.toNat?, hi.toNat? with
     | some lo, some hi => blkRange lo hi
     | _, _ => badOp)
  | "blk_enc", [l, t, s] =>
    (match l.toNat?, t.toNat?, s.toNat? with
     | some l, some t, some s => showBytes (serializeBlockHeader (l != 0) t s)
     | _, _, _ => badOp)
  | "lit", [ps, h] =>
    (match optNat ps, bytesOfHex h with
     | some ps, some bs =>
       (match parseLitHeader { LitSection.new with streams := ps } bs with
        | .ok (s, used) => s!"ok {s.ty} {s.regen} {showOpt s.comp} {showOpt s.streams} {used}"
        | .error (.getBits r m) => s!"err getbits {r} {m}"
        | .error (.illegalType g) => s!"err illegal {g}"
        | .error (.notEnoughBytes h n) => s!"err notenough {h} {n}"
        | .error (.fault f) => showFault f)
     | _, _ => badOp)
  | "lit_need", [b] =>
    (match b.toNat? with
     | some b =>
       (match litHeaderBytesNeeded b with
        | .ok n => s!"ok {n}"
        | .error (.fault f) => showFault f
        | .error _ => "err illegal")
     | none => badOp)
  | "lit_raw_enc", [n] =>
    (match n.toNat? with
     | some n =>
       -- the harness replays the write sequence on the real BitWriter and ends with `dump()`
       showBytes (match rawLiteralsWriter n with
                  | .ok w => w.dump
                  | .error f => .error f)
     | none => badOp)
  | "lit_comp_enc", [nt, r, c] =>
    (match nt.toNat?, r.toNat?, c.toNat? with
     | some nt, some r, some c => showBytes (compressedLiteralsHeader (nt != 0) r c)
     | _, _, _ => badOp)
  | "lit_patch", [nt, r, plen, fill] =>
    (match nt.toNat?, r.toNat?, plen.toNat?, fill.toNat? with
     | some nt, some r, some plen, some fill =>
       (match compressedLiteralsPatched (nt != 0) r (List.replicate plen fill) with
        | .ok bs => s!"ok {hexOfBytes (bs.take 6)} {bs.length}"
        | .error f => showFault f)
     | _, _, _, _ => badOp)
  | "frame", [h] =>
    (match bytesOfHex h with
     | some bs =>
       (match readFrameHeader bs with
        | .ok (hd, used, _) =>
          s!"ok {hd.desc} {showOpt hd.dictId} {hd.fcs} {used} {showWindow hd.windowSize}"
        | .error e => showFrameErr e)
     | none => badOp)
  | "frame_enc", [f, s, c, d, w] =>
    (match optNat f, s.toNat?, c.toNat?, optNat d, optNat w with
     | some f, some s, some c, some d, some w =>
       showBytes (EncFrameHeader.serialize { fcs := f, singleSegment := s != 0, checksum := c != 0, dictId := d, windowSize := w })
     | _, _, _, _, _ => badOp)
  | _, _ => badOp

end Zstd.Driver.Headers
