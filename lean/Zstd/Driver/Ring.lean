import Zstd.Driver.Util
import Zstd.Model.DecodeBuffer
/-
Line protocol, engine `ring` (stateful): one `RingBuffer` and one `DecodeBuffer` live in the state.
`ring <op> <args…>`; ops on the ring buffer have plain names, ops on the decode buffer start with `d`.

Ring answers:   `ok <cap> <head> <tail> <len> <free> <contents> <trace>[ <extra>]`
Decode answers: `ok <len> <trace>[ <extra>]`
contents/bytes: lower-case hex (`-` = empty) up to 48 bytes, longer ones as `<len>:<fnv1a64>`.
trace: two fields `<mem> <cbo>`, each `,`-separated (`-` = none).  mem: `a<cap>` alloc, `d<cap>` dealloc,
`r<off>:<len>`, `w<off>:<len>`; cbo: `c<srcOff>:<srcLen>:<dstOff>:<dstLen>:<n>` per copy_bytes_overshooting call.
-/
namespace Zstd.Driver.Ring
open Zstd Zstd.Model Zstd.Driver

structure St where
  rb : RingBuffer := {}
  db : DecodeBuffer := {}

def init : St := {}

def fnv1a (bs : List Nat) : UInt64 :=
  bs.foldl (fun h b => (h ^^^ b.toUInt64) * 0x100000001b3) 0xcbf29ce484222325

def hex16 (v : UInt64) : String :=
  String.ofList ((List.range 16).map (fun i => hexDigit ((v.toNat >>> (4 * (15 - i))) % 16)))

def showBytes (bs : List Nat) : String :=
  if bs.isEmpty then "-"
  else if bs.length ≤ 48 then hexOfBytes bs
  else s!"{bs.length}:{hex16 (fnv1a bs)}"

def showEv : Ev → String
  | .alloc n => s!"a{n}"
  | .dealloc n => s!"d{n}"
  | .r o l => s!"r{o}:{l}"
  | .w o l => s!"w{o}:{l}"
  | .cbo c => s!"c{c.srcOff}:{c.srcLen}:{c.dstOff}:{c.dstLen}:{c.n}"

def isCbo : Ev → Bool
  | .cbo _ => true
  | _ => false

def showEvs (es : List Ev) : String :=
  if es.isEmpty then "-" else ",".intercalate (es.map showEv)

/-- the hooks keep memory events and `copy_bytes_overshooting` calls in two lists, so the trace is
printed as two fields: `<memory events> <cbo calls>` -/
def showTrace (log : List Ev) : String :=
  let es := log.reverse
  showEvs (es.filter (fun e => !isCbo e)) ++ " " ++ showEvs (es.filter isCbo)

/-- contents as the specification sees them (`abs`): `len` cells from `head` -/
def contents (r : RingBuffer) : List Nat :=
  (List.range r.len).map (fun i =>
    r.mem.val (if r.head + i < r.cap then r.head + i else r.head + i - r.cap))

def showRing (r : RingBuffer) (extra : String := "") : String :=
  s!"ok {r.cap} {r.head} {r.tail} {r.len} {r.free} {showBytes (contents r)} {showTrace r.log}{extra}"

def ringAns (st : St) (res : Except Fault RingBuffer) : St × String :=
  match res with
  | .ok r => ({ st with rb := { r with log := [] } }, showRing r)
  | .error f => (st, showFault f)

def showDb (d : DecodeBuffer) (extra : String := "") : String :=
  s!"ok {d.buffer.len} {showTrace d.buffer.log}{extra}"

def dbAns (st : St) (res : Except Fault DecodeBuffer) (extra : String := "") : St × String :=
  match res with
  | .ok d => ({ st with db := { d with buffer := { d.buffer with log := [] } } }, showDb d extra)
  | .error f => (st, showFault f)

def showIoRes : Except IoErr Nat → String
  | .ok n => s!"ok:{n}"
  | .error e => s!"err:{e}"

/-- sink script: `,`-separated `t<k>` (take at most k) / `e<kind>` (fail); `-` = empty script -/
def parseSink (s : String) : Option (List SinkAns) :=
  if s == "-" then some [] else
  (s.splitOn ",").mapM fun tok =>
    match tok.toList with
    | 't' :: rest => (String.ofList rest).toNat?.map SinkAns.accept
    | 'e' :: rest => (String.ofList rest).toNat?.map SinkAns.err
    | _ => none

def step (st : St) (args : List String) : St × String :=
  let C := copyChunk
  match args with
  -- ring buffer
  | ["new"] => ringAns st (.ok RingBuffer.new)
  | ["clear"] => ringAns st (.ok st.rb.clear)
  | ["reserve", n] =>
    (match n.toNat? with | some n => ringAns st (st.rb.reserve n) | none => (st, badOp))
  | ["extend", h] =>
    (match bytesOfHex h with | some bs => ringAns st (st.rb.extend bs) | none => (st, badOp))
  | ["push", b] =>
    (match b.toNat? with | some b => ringAns st (st.rb.pushBack b) | none => (st, badOp))
  | ["fill", b, n] =>
    (match b.toNat?, n.toNat? with
     | some b, some n => ringAns st (st.rb.extendAndFill b n)
     | _, _ => (st, badOp))
  | ["efr", n, h] =>
    (match n.toNat?, bytesOfHex h with
     | some n, some bs =>
       (match st.rb.extendFromReader bs n with
        | .ok (r, ok, rest) =>
          ({ st with rb := { r with log := [] } }, showRing r s!" res={if ok then "ok" else "err"} rest={rest.length}")
        | .error f => (st, showFault f))
     | _, _ => (st, badOp))
  | ["efw", s, l] =>
    (match s.toNat?, l.toNat? with
     | some s, some l => ringAns st (st.rb.extendFromWithin C s l)
     | _, _ => (st, badOp))
  | ["efwu", s, l] =>
    -- as `DecodeBuffer::repeat` does: `reserve(len)` then the unchecked copy
    (match s.toNat?, l.toNat? with
     | some s, some l => ringAns st (st.rb.reserve l >>= fun r => r.extendFromWithinUnchecked C s l)
     | _, _ => (st, badOp))
  | ["efwub", s, l] =>
    -- dead code, for completeness: `reserve(len)` then the branchless variant
    (match s.toNat?, l.toNat? with
     | some s, some l => ringAns st (st.rb.reserve l >>= fun r => r.extendFromWithinUncheckedBranchless s l)
     | _, _ => (st, badOp))
  | ["drop", n] =>
    (match n.toNat? with | some n => ringAns st (st.rb.dropFirstN n) | none => (st, badOp))
  | ["get", i] =>
    (match i.toNat? with
     | some i =>
       (match st.rb.get i with
        | .ok (v, r) =>
          ({ st with rb := { r with log := [] } },
           showRing r (match v with | some b => s!" val={b}" | none => " val=none"))
        | .error f => (st, showFault f))
     | none => (st, badOp))
  | ["slices"] =>
    (match st.rb.asSlices with
     | .ok ((a, b), r) =>
       ({ st with rb := { r with log := [] } }, showRing r s!" s1={showBytes a} s2={showBytes b}")
     | .error f => (st, showFault f))
  -- decode buffer
  | ["dnew", ws] =>
    (match ws.toNat? with | some ws => dbAns st (.ok (DecodeBuffer.new ws)) | none => (st, badOp))
  | ["dreset", ws] =>
    (match ws.toNat? with | some ws => dbAns st (st.db.reset ws) | none => (st, badOp))
  | ["ddict", h] =>
    (match bytesOfHex h with | some bs => dbAns st (.ok { st.db with dict := bs }) | none => (st, badOp))
  | ["dpush", h] =>
    (match bytesOfHex h with | some bs => dbAns st (st.db.push bs) | none => (st, badOp))
  | ["dfill", b, n] =>
    (match b.toNat?, n.toNat? with
     | some b, some n => dbAns st (st.db.extendAndFill b n)
     | _, _ => (st, badOp))
  | ["defr", n, h] =>
    (match n.toNat?, bytesOfHex h with
     | some n, some bs =>
       (match st.db.extendFromReader bs n with
        | .ok (d, ok, rest) => dbAns st (.ok d) s!" res={if ok then "ok" else "err"} rest={rest.length}"
        | .error f => (st, showFault f))
     | _, _ => (st, badOp))
  | ["drepeat", o, m] =>
    (match o.toNat?, m.toNat? with
     | some o, some m =>
       (match st.db.repeat C o m with
        | .ok (d, res) =>
          dbAns st (.ok d) (match res with
            | .ok _ => " res=ok"
            | .error (.notEnoughBytesInDictionary got need) => s!" res=err:notenough:{got}:{need}"
            | .error (.offsetTooBig off bl) => s!" res=err:toobig:{off}:{bl}")
        | .error f => (st, showFault f))
     | _, _ => (st, badOp))
  | ["dcan"] =>
    (match st.db.canDrainToWindowSize, st.db.canDrain with
     | .ok c, .ok n => dbAns st (.ok st.db) s!" can_ws={match c with | some k => toString k | none => "none"} can={n}"
     | .error f, _ => (st, showFault f)
     | _, .error f => (st, showFault f))
  | ["ddrain"] =>
    (match st.db.drain with
     | .ok (d, out) => dbAns st (.ok d) s!" out={showBytes out} hashed={d.hash.length}:{hex16 (fnv1a d.hash)}"
     | .error f => (st, showFault f))
  | ["ddrainws"] =>
    (match st.db.drainToWindowSize with
     | .ok (d, out) =>
       dbAns st (.ok d) s!" out={match out with | some o => showBytes o | none => "none"} hashed={d.hash.length}:{hex16 (fnv1a d.hash)}"
     | .error f => (st, showFault f))
  | ["ddrainw", sc] =>
    (match parseSink sc with
     | some script =>
       (match st.db.drainToWriter { script := script } with
        | .ok (d, sink, res) =>
          dbAns st (.ok d) s!" out={showBytes sink.got} res={showIoRes res} hashed={d.hash.length}:{hex16 (fnv1a d.hash)}"
        | .error f => (st, showFault f))
     | none => (st, badOp))
  | ["ddrainwsw", sc] =>
    (match parseSink sc with
     | some script =>
       (match st.db.drainToWindowSizeWriter { script := script } with
        | .ok (d, sink, res) =>
          dbAns st (.ok d) s!" out={showBytes sink.got} res={showIoRes res} hashed={d.hash.length}:{hex16 (fnv1a d.hash)}"
        | .error f => (st, showFault f))
     | none => (st, badOp))
  | ["dread", n] =>
    (match n.toNat? with
     | some n =>
       (match st.db.read n with
        | .ok (d, out, res) =>
          dbAns st (.ok d) s!" out={showBytes out} res={showIoRes res} hashed={d.hash.length}:{hex16 (fnv1a d.hash)}"
        | .error f => (st, showFault f))
     | none => (st, badOp))
  | ["dreadall", n] =>
    (match n.toNat? with
     | some n =>
       (match st.db.readAll n with
        | .ok (d, out, res) =>
          dbAns st (.ok d) s!" out={showBytes out} res={showIoRes res} hashed={d.hash.length}:{hex16 (fnv1a d.hash)}"
        | .error f => (st, showFault f))
     | none => (st, badOp))
  | _ => (st, badOp)

end Zstd.Driver.Ring
