import Zstd.Driver.Util
import Zstd.Driver.Spec
import Zstd.Model.BlockDecode
/- engine `blk` (stateful): faithful block-level decoding on a persistent scratch -/
namespace Zstd.Driver.Blk
open Zstd Zstd.Model Zstd.Model.Blk Zstd.Driver

structure St where
  s : Scratch := {}
  b : DBuf := {}
  deriving Inhabited

def init : St := {}

def digestL (l : List Nat) : String := if l.isEmpty then "-" else Driver.Spec.digest l

def seqDigest (seqs : List Spec.Seq) : String :=
  -- same canonical text as the harness: "ll,ml,of;" per sequence, then digested
  digestL ((String.join (seqs.map fun q => s!"{q.ll},{q.ml},{q.ov};")).toUTF8.toList.map (·.toNat))

def optN : Option Nat → String
  | some n => toString n
  | none => "-"

def observe (st : St) : String :=
  let (h0, h1, h2) := st.s.hist
  s!"len={st.b.content.size} hist={h0},{h1},{h2} ll={st.s.fse.literalLengths.accuracyLog}/{optN st.s.fse.llRle} of={st.s.fse.offsets.accuracyLog}/{optN st.s.fse.ofRle} ml={st.s.fse.matchLengths.accuracyLog}/{optN st.s.fse.mlRle} huf={st.s.huf.maxNumBits}"

def step (st : St) (args : List String) : St × String :=
  match args with
  | ["new", w] =>
    (match w.toNat? with
     | some ws => let st' : St := { b := ({} : DBuf).reset ws }; (st', "ok | " ++ observe st')
     | none => (st, badOp))
  | ["raw", h] =>
    (match bytesOfHex h with
     | some bs => let st' := { st with b := { st.b with content := st.b.content ++ bs.toArray } }; (st', "ok | " ++ observe st')
     | none => (st, badOp))
  | ["rle", b, n] =>
    (match b.toNat?, n.toNat? with
     | some bb, some k => let st' := { st with b := { st.b with content := st.b.content ++ Array.replicate k bb } }; (st', "ok | " ++ observe st')
     | _, _ => (st, badOp))
  | ["block", h] =>
    (match bytesOfHex h with
     | none => (st, badOp)
     | some bs =>
       let ((s, b, lits, seqs), o) := decompressBlock bs st.s st.b
       let st' : St := { s := s, b := b }
       let res := match o with
         | .ok => "ok"
         | .err e => e.render
         | .fault f => showFault f
       let detail := match o with
         | .ok => s!"lits={digestL lits} seqs={seqs.length}:{seqDigest seqs}"
         | _ => "lits=? seqs=?"      -- leftovers in the scratch vectors after an error are not observable
       (st', s!"{res} {detail} | " ++ observe st'))
  | ["drainall"] =>
    let out := st.b.content.toList
    ({ st with b := { st.b with content := #[] } }, s!"ok {digestL out}")
  | _ => (st, badOp)

end Zstd.Driver.Blk
