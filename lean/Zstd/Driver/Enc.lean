import Zstd.Driver.Util
import Zstd.Driver.Spec
import Zstd.Model.FrameCompressor
import Zstd.Model.EncCoders
/-
engine `enc` (C02, C15, C16): the frame/block level of the encoder.

  enc run  <lvl> <hash> <W> <script> <datahex> <frags>
  enc mrun <lvl> <hash> <W> <script> <datahex> <frags>      (additionally: valid=<ValidMatcher?>)

  lvl     u | f | d | b | x          (Uncompressed, Fastest, Default, Better, Best)
  hash    0 | 1                      (cargo feature `hash`)
  W       `Matcher::window_size()`; `B` = built-in matcher (`Gen.prodMaxSlices * Gen.prodSliceSize`)
  script  blocks separated by `/`, the last entry repeats for ever; one block =
          `<space>` or `<space>=<ll>:<offset>:<match_len>;…` (literals are the block's own bytes,
          the trailing literals whatever is left)
          `B` = built-in matcher: every space `Gen.prodSliceSize`; with `run` the parse is unknown
  frags   requested read sizes separated by `,` or `-`

answer: `ok [valid=b] hdr=<hex> blocks=<b>,<b>,… cks=<hex|-> frame=<digest|->`, one `<b>` per block:
  raw:<size>:<last> | rle:<size>:<byte>:<last> | cmp:<stored>:<last> | nonrle:<regen>:<last>
`nonrle` = a Fastest block that is not RLE and whose encoding needs the entropy coders (not part of
this model yet); `frame=` is the digest of the whole frame when every block is predicted exactly.
-/
namespace Zstd.Driver.Enc
open Zstd Zstd.Driver Zstd.Model.Enc

def parseLevel : String → Option Level
  | "u" => some .uncompressed
  | "f" => some .fastest
  | "d" => some .default
  | "b" => some .better
  | "x" => some .best
  | _ => none

def parseNatList (s : String) : Option (List Nat) :=
  if s == "-" then some [] else (s.splitOn ",").mapM String.toNat?

def parseTriple (s : String) : Option (Nat × Nat × Nat) :=
  match (s.splitOn ":").mapM String.toNat? with
  | some [a, b, c] => some (a, b, c)
  | _ => none

def parseEntry (s : String) : Option (Nat × List (Nat × Nat × Nat)) :=
  match s.splitOn "=" with
  | [sp] => sp.toNat?.map (·, [])
  | [sp, seqs] =>
    match sp.toNat?, (seqs.splitOn ";").mapM parseTriple with
    | some n, some ts => some (n, ts)
    | _, _ => none
  | _ => none

def parseScript (s : String) : Option (List (Nat × List (Nat × Nat × Nat))) :=
  (s.splitOn "/").mapM parseEntry

/-- the literals of each triple are the block's own bytes at the position the parse has reached -/
def mkParse : List (Nat × Nat × Nat) → List Byte → List MSeq → Parse
  | [], rest, acc => { seqs := acc.reverse, tail := rest }
  | (ll, off, ml) :: ts, rest, acc =>
    mkParse ts (rest.drop (ll + ml)) (⟨rest.take ll, off, ml⟩ :: acc)

def entryAt (entries : List (Nat × List (Nat × Nat × Nat))) (i : Nat) : Nat × List (Nat × Nat × Nat) :=
  match entries[i]? with
  | some e => e
  | none => (entries.getLast?.getD (0, []))

/-- the script as a function of the block index, for the blocks `data` can reach -/
def buildBlocks (entries : List (Nat × List (Nat × Nat × Nat))) :
    Nat → Nat → List Byte → Array MBlock → Array MBlock
  | 0, _, _, acc => acc
  | fuel + 1, i, rest, acc =>
    let (space, ts) := entryAt entries i
    let blk := rest.take space
    let acc := acc.push ⟨space, mkParse ts blk []⟩
    if space = 0 ∨ rest.length < space then acc
    else buildBlocks entries fuel (i + 1) (rest.drop space) acc

/-- (the array is built ONCE by the caller: a `let` inside a function-valued definition would be
recomputed on every call after the compiler's eta-expansion) -/
abbrev scriptOf := @scriptOfArray

def entropyMarker : Fault := .unimplemented "model:entropy-coder"

/-- the parts of the entropy coders that are not modelled yet answer with a marker fault -/
def partialCoders : Coders Unit :=
  { compressLiterals := fun _ _ => .error entropyMarker
    encodeSeqSection := fun _ => .error entropyMarker }

/-- emitter used for predictions: a block whose encoding needs the entropy coders is recorded as a
pseudo block header of the reserved type 3 carrying the regenerated size -/
def planEmit (knownParse : Bool) (lvl : Level) : Emit Unit := fun last blk p st =>
  let enc : BlockEnc Unit := if knownParse then compressBlock partialCoders else fun _ _ => .error entropyMarker
  match emitBlock lvl enc last blk p st with
  | .error f => if f = entropyMarker then .ok (blockHeader last 3 blk.length, st) else .error f
  | .ok r => .ok r

def b01 (b : Bool) : String := if b then "1" else "0"

/-- walk the predicted block bytes -/
def walk : Nat → List Byte → List String → Bool → Option (List String × Bool)
  | 0, _, _, _ => none
  | fuel + 1, bytes, acc, exact =>
    match bytes with
    | b0 :: b1 :: b2 :: body =>
      let v := b0 + 256 * b1 + 65536 * b2
      let last := v % 2 = 1
      let ty := v / 2 % 4
      let size := v / 8
      let (item, rest, ex) :=
        if ty = 0 then (s!"raw:{size}:{b01 last}", body.drop size, true)
        else if ty = 1 then (s!"rle:{size}:{body.headD 0}:{b01 last}", body.drop 1, true)
        else if ty = 2 then (s!"cmp:{size}:{b01 last}", body.drop size, true)
        else (s!"nonrle:{size}:{b01 last}", body, false)
      if last then (if rest.isEmpty then some ((item :: acc).reverse, exact && ex) else none)
      else walk fuel rest (item :: acc) (exact && ex)
    | _ => none

/-- one frame with the REAL entropy coders (`Model/EncCoders.lean`): every block is predicted exactly -/
def runScript (withValid : Bool) (lvl : Level) (hash : Bool) (w : Nat) (script : Nat → MBlock)
    (data : List Byte) (frags : List Nat) : String :=
  match frameHeader hash w with
  | .error f => showFault f
  | .ok hdr =>
    match compressLoop (emitBlock lvl compressBlockReal) script (data.length + 1) 0 {} [] data frags with
    | .error f => showFault f
    | .ok r =>
      match walk (r.bytes.length + 1) r.bytes [] true with
      | none => "model-error walk"
      | some (items, exact) =>
        let trailer := if hash then leBytes 4 (Spec.Xxh64.checksum32 r.hashed) else []
        let frame := hdr ++ r.bytes ++ trailer
        let valid := if withValid then s!" valid={b01 (validMatcherB w script data (data.length + 2) 0)}" else ""
        let cks := if hash then hexOfBytes trailer else "-"
        let fr := if exact then Driver.Spec.digest frame else "-"
        s!"ok{valid} hdr={hexOfBytes hdr} blocks={",".intercalate items} cks={cks} frame={fr}"

def run (withValid : Bool) (lvl : Level) (hash : Bool) (w : Nat)
    (entries : List (Nat × List (Nat × Nat × Nat))) (data : List Byte) (frags : List Nat) : String :=
  let arr := buildBlocks entries (data.length + 2) 0 data #[]
  runScript withValid lvl hash w (scriptOf arr (entries.getLast?.getD (0, [])).1) data frags

/-- the built-in matcher (`B`): window and spaces from `Gen.Consts`; the parses come from the C17
model of `MatchGeneratorDriver` driven the way `compress` / `compress_fastest` drive it.  Returns the
answer and the matcher afterwards. -/
def runBuiltin (lvl : Level) (hash : Bool) (d : Model.MG.Driver) (data : List Byte) (frags : List Nat) :
    String × Model.MG.Driver :=
  match builtinFrame lvl d data with
  | .error f => (showFault f, d)
  | .ok (d', arr) => (runScript false lvl hash d'.windowSize (scriptOf arr Gen.prodSliceSize) data frags, d')

def freshMatcher : Model.MG.Driver := Model.MG.Driver.new Gen.prodSliceSize Gen.prodMaxSlices

def parseJob (s : String) : Option (Level × List Byte × List Nat) :=
  match s.splitOn ":" with
  | [l, d, fr] =>
    (match parseLevel l, bytesOfHex d, parseNatList fr with
     | some lvl, some data, some frags => some (lvl, data, frags)
     | _, _, _ => none)
  | _ => none

/-- frames pushed through ONE compressor object, in order -/
def runReuse (hash : Bool) : List (Level × List Byte × List Nat) → Model.MG.Driver → List String → List String
  | [], _, acc => acc.reverse
  | (lvl, data, frags) :: rest, d, acc =>
    let (ans, d') := runBuiltin lvl hash d data frags
    let ans := if ans.startsWith "fault" then "fault" else ans
    runReuse hash rest d' (ans :: acc)

def handle (cmd : String) (args : List String) : String :=
  match cmd, args with
  | "run", [l, h, "B", "B", d, fr] =>
    (match parseLevel l, h.toNat?, bytesOfHex d, parseNatList fr with
     | some lvl, some hh, some data, some frags => (runBuiltin lvl (hh = 1) freshMatcher data frags).1
     | _, _, _, _ => badOp)
  | "reuse", [h, jobs] =>
    (match h.toNat?, (jobs.splitOn "/").mapM parseJob with
     | some hh, some js => " | ".intercalate (runReuse (hh = 1) js freshMatcher [])
     | _, _ => badOp)
  | "run", [l, h, w, sc, d, fr] | "mrun", [l, h, w, sc, d, fr] =>
    (match parseLevel l, h.toNat?, w.toNat?, parseScript sc, bytesOfHex d, parseNatList fr with
     | some lvl, some hh, some ww, some entries, some data, some frags =>
       run (cmd == "mrun") lvl (hh = 1) ww entries data frags
     | _, _, _, _, _, _ => badOp)
  | _, _ => badOp

end Zstd.Driver.Enc
