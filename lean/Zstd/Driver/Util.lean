import Zstd.Basic
namespace Zstd.Driver
open Zstd

def natArgs (args : List String) : Option (List Nat) := args.mapM String.toNat?

def showNats (xs : List Nat) : String := " ".intercalate (xs.map toString)

def showFault (f : Fault) : String := f.render

def badOp : String := "bad-op"

end Zstd.Driver
