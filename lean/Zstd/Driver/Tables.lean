import Zstd.Driver.Util
import Zstd.Model.SeqCodes
/- line protocol, engine `tables` (stateless): one request per line, one answer per line -/
namespace Zstd.Driver.Tables
open Zstd Zstd.Model Zstd.Driver

def pair (r : Except Fault (Nat × Nat)) : String :=
  match r with
  | .ok (a, b) => s!"ok {a} {b}"
  | .error f => showFault f

def triple (r : Except Fault (Nat × Nat × Nat)) : String :=
  match r with
  | .ok (a, b, c) => s!"ok {a} {b} {c}"
  | .error f => showFault f

def handleNat (cmd : String) (args : List String) : String :=
  match cmd, natArgs args with
  | "ll_dec", some [c] => pair (lookupLL c)
  | "ml_dec", some [c] => pair (lookupML c)
  | "ll_enc", some [v] => triple (encodeLL v)
  | "ml_enc", some [v] => triple (encodeML v)
  | "of_enc", some [v] => triple (encodeOffset v)
  | "of_hist", some [ov, ll, s0, s1, s2] =>
    (match doOffsetHistory ov ll (s0, s1, s2) with
     | .ok (a, (t0, t1, t2)) => s!"ok {a} {t0} {t1} {t2}"
     | .error f => showFault f)
  | "seqnum_enc", some [n] =>
    (match encodeSeqnum n with
     | .ok bs => s!"ok {hexOfBytes bs}"
     | .error f => showFault f)
  | _, _ => badOp

def handle (cmd : String) (args : List String) : String :=
  match cmd, args with
  | "seqhdr", [h] =>
    (match bytesOfHex h with
     | some bs =>
       (match parseSeqHeader bs with
        | .ok (n, m, used) =>
          -- the two reserved low bits are not observable through the accessors of the real type
          let ms := match m with | some x => toString (x / 4 * 4) | none => "-"
          s!"ok {n} {ms} {used}"
        | .error (.notEnoughBytes need got) => s!"err notenough {need} {got}")
     | none => badOp)
  | _, _ => handleNat cmd args

end Zstd.Driver.Tables
