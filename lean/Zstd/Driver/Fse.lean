import Zstd.Driver.Util
import Zstd.Driver.Spec
import Zstd.Model.Fse
import Zstd.Spec.Fse
/-
engine `fse` (stateless)

  fse norm <maxlog> <avoid> <counts>          normaliser only:            ok <al> <probs>
  fse build <maxlog> <avoid> <counts>         normalise, build, describe: ok <al> <probs> E<enc digest> W<description hex> R<bytes read> D<dec digest>
  fse fromprobs <al> <probs>                  both builders on an explicit distribution (max symbol 255)
                                                                          ok E<enc digest|fault> D<dec digest|err>
  fse specprobs <al> <probs>                  Spec.Fse.buildTable alone (oracle line):  ok D<digest>
  fse enctab <al> <probs>                     encoder table in clear (small tables)
  fse dectab <maxsym> <al> <probs>            decoder table in clear (build_from_probabilities)
  fse dec <maxsym> <maxlog> <hex>             build_decoder:              ok <bytes> <al> <probs> D<dec digest> | err …
  fse spec <maxsym> <maxlog> <hex>            Spec.readDescription + Spec.buildTable, same answer format as `dec`
  fse next <al> <probs> <sym> <idx>           next_state:                 ok <nb> <base> <last> <index>
  fse enc1 <maxlog> <avoid> <data hex>        build_table_from_data + encode:            ok <stream>
  fse enc2 <maxlog> <avoid> <data hex>        build_table_from_data + encode_interleaved: ok <stream>
  fse dec1 <maxlog> <n> <hex>                 build_decoder, skip end mark, single-state loop: ok <symbols> <bits_remaining>
  fse dec2 <maxlog> <hex>                     build_decoder, skip end mark, two-state loop:    ok <symbols> <bits_remaining>
  fse defaults                                the three default tables, both sides
lists are comma separated, `-` = empty; long byte strings are printed as `len:xxh64`.
-/
namespace Zstd.Driver.Fse
open Zstd Zstd.Driver Zstd.Model Zstd.Model.Fse Zstd.Model.BitIO

def natList (s : String) : Option (List Nat) := if s == "-" then some [] else (s.splitOn ",").mapM String.toNat?
def intList (s : String) : Option (List Int) := if s == "-" then some [] else (s.splitOn ",").mapM String.toInt?
def showInts (xs : List Int) : String := if xs.isEmpty then "-" else ",".intercalate (xs.map toString)

def le4 (n : Nat) : List Nat := [n % 256, n / 256 % 256, n / 65536 % 256, n / 16777216 % 256]

def showBytes (bs : List Nat) : String := Driver.Spec.showContent bs

/-- canonical serialisation of an encoder table: per symbol that has states or a non-zero
probability: symbol, probability+1, number of states, then (num_bits, baseline, last_index, index) -/
def encWords (t : ETable) : List Nat :=
  t.tableSize :: (t.states.toList.zipIdx.flatMap fun (ss, sym) =>
    if ss.states.isEmpty ∧ ss.probability = 0 then []
    else [sym, (ss.probability + 1).toNat, ss.states.size] ++
      ss.states.toList.flatMap fun s => [s.numBits, s.baseline, s.lastIndex, s.index])

def decWords (al : Nat) (dec : Array DEntry) : List Nat :=
  al :: dec.size :: dec.toList.flatMap fun e => [e.symbol, e.numBits, e.baseLine]

def digestWords (ws : List Nat) : String := Driver.Spec.digest (ws.flatMap le4)

def showWords (ws : List Nat) : String := ",".intercalate (ws.map toString)

def showErr : Err → String
  | .accLogIsZero => "err acclogzero"
  | .accLogTooBig g m => s!"err acclogtoobig {g} {m}"
  | .getBitsTooMany r => s!"err getbits toomany {r}"
  | .getBitsNotEnough r m => s!"err getbits notenough {r} {m}"
  | .probabilityCounterMismatch g e => s!"err countermismatch {g} {e}"
  | .tooManySymbols g => s!"err toomanysymbols {g}"
  | .tableIsUninitialized => "err uninitialized"
  | .fault f => showFault f

/-- embedded positions (`fromprobs`, `defaults`): a panic is printed as the bare word `fault`
(the harness cannot know the model's site names) -/
def showErrEmbedded : Err → String
  | .fault _ => "fault"
  | e => showErr e

def decOf (maxSym al : Nat) (probs : List Int) : String :=
  match (DTable.new maxSym).buildFromProbabilities al probs with
  | (_, .error e) => showErrEmbedded e
  | (t, .ok ()) => "D" ++ digestWords (decWords t.accuracyLog t.decode)

def build (maxLog : Nat) (avoid : Bool) (counts : List Nat) : String :=
  match normalize counts maxLog avoid with
  | .error f => showFault f
  | .ok (probs, al) =>
    match buildTableFromProbabilities probs al with
    | .error f => showFault f
    | .ok et =>
      match et.writeTable BitWriter.new with
      | .error f => showFault f
      | .ok w =>
        match w.dump with
        | .error f => showFault f
        | .ok desc =>
          -- the decoder rebuilt from the description (max symbol 255, as the table reader of the Huffman weights uses)
          match (DTable.new 255).buildDecoder desc maxLog with
          | (_, .error e) => s!"ok {al} {showInts probs} E{digestWords (encWords et)} W{showBytes desc.toList} " ++ showErrEmbedded e
          | (dt, .ok n) =>
            s!"ok {al} {showInts probs} E{digestWords (encWords et)} W{showBytes desc.toList} R{n} D{digestWords (decWords dt.accuracyLog dt.decode)}"

def dataOf (h : String) : Option (List Nat) := bytesOfHex h

def encWith (inter : Bool) (maxLog : Nat) (avoid : Bool) (data : List Nat) : String :=
  match buildTableFromData data maxLog avoid with
  | .error f => showFault f
  | .ok et =>
    match (if inter then encodeInterleaved et BitWriter.new data else encode et BitWriter.new data) with
    | .error f => showFault f
    | .ok w =>
      match w.dump with
      | .error f => showFault f
      | .ok out => s!"ok {showBytes out.toList}"

def decWith (inter : Bool) (maxLog n : Nat) (src : List Nat) : String :=
  match (DTable.new 255).buildDecoder src.toArray maxLog with
  | (_, .error e) => showErr e
  | (t, .ok used) =>
    let br := BitReaderRev.new (src.drop used).toArray
    match skipEndMark br with
    | .error f => showFault f
    | .ok none => "err extrapadding"
    | .ok (some br) =>
      if inter then
        match decodeInterleavedStream t br with
        | .error e => showErr e
        | .ok (none, _) => "err toomanyweights"
        | .ok (some syms, br) => s!"ok {showBytes syms} {br.bitsRemaining}"
      else
        match decodeStream t n br with
        | .error e => showErr e
        | .ok (syms, br) => s!"ok {showBytes syms} {br.bitsRemaining}"

/-- the RFC transcription on the same request as `dec` -/
def specDec (maxSym maxLog : Nat) (src : List Nat) : String :=
  match Zstd.Spec.Fse.readDescription src maxLog maxSym with
  | none => "err"
  | some (al, probs, used) =>
    match Zstd.Spec.Fse.buildTable al probs with
    | none => "err build"
    | some t =>
      let ws := al :: t.entries.size :: t.entries.toList.flatMap fun e => [e.symbol, e.nbBits, e.baseline]
      s!"ok {used} {al} {showInts probs} D{digestWords ws}"

def handle (cmd : String) (args : List String) : String :=
  match cmd, args with
  | "norm", [ml, av, cs] =>
    (match ml.toNat?, av.toNat?, natList cs with
     | some ml, some av, some cs =>
       (match normalize cs ml (av != 0) with
        | .ok (probs, al) => s!"ok {al} {showInts probs}"
        | .error f => showFault f)
     | _, _, _ => badOp)
  | "build", [ml, av, cs] =>
    (match ml.toNat?, av.toNat?, natList cs with
     | some ml, some av, some cs => build ml (av != 0) cs
     | _, _, _ => badOp)
  | "fromprobs", [al, ps] =>
    (match al.toNat?, intList ps with
     | some al, some ps =>
       let e := match buildTableFromProbabilities ps al with
         | .ok et => "E" ++ digestWords (encWords et)
         | .error _ => "fault"
       s!"ok {e} | {decOf 255 al ps}"
     | _, _ => badOp)
  | "specprobs", [al, ps] =>
    -- the RFC transcription alone: `Spec.Fse.buildTable` on an explicit distribution (an ORACLE line)
    (match al.toNat?, intList ps with
     | some al, some ps =>
       (match Zstd.Spec.Fse.buildTable al ps with
        | none => "err build"
        | some t =>
          let ws := al :: t.entries.size :: t.entries.toList.flatMap fun e => [e.symbol, e.nbBits, e.baseline]
          s!"ok D{digestWords ws}")
     | _, _ => badOp)
  | "enctab", [al, ps] =>
    (match al.toNat?, intList ps with
     | some al, some ps =>
       (match buildTableFromProbabilities ps al with
        | .ok et => s!"ok {showWords (encWords et)}"
        | .error f => showFault f)
     | _, _ => badOp)
  | "dectab", [ms, al, ps] =>
    (match ms.toNat?, al.toNat?, intList ps with
     | some ms, some al, some ps =>
       (match (DTable.new ms).buildFromProbabilities al ps with
        | (_, .error e) => showErr e
        | (t, .ok ()) => s!"ok {showWords (decWords t.accuracyLog t.decode)} C{showWords t.symbolCounter.toList}")
     | _, _, _ => badOp)
  | "dec", [ms, ml, h] =>
    (match ms.toNat?, ml.toNat?, bytesOfHex h with
     | some ms, some ml, some bs =>
       (match (DTable.new ms).buildDecoder bs.toArray ml with
        | (_, .error e) => showErr e
        | (t, .ok n) => s!"ok {n} {t.accuracyLog} {showInts t.probs.toList} D{digestWords (decWords t.accuracyLog t.decode)}")
     | _, _, _ => badOp)
  | "spec", [ms, ml, h] =>
    (match ms.toNat?, ml.toNat?, bytesOfHex h with
     | some ms, some ml, some bs => specDec ms ml bs
     | _, _, _ => badOp)
  | "next", [al, ps, sym, idx] =>
    (match al.toNat?, intList ps, sym.toNat?, idx.toNat? with
     | some al, some ps, some sym, some idx =>
       (match buildTableFromProbabilities ps al with
        | .error f => showFault f
        | .ok et =>
          match et.nextState sym idx with
          | .ok s => s!"ok {s.numBits} {s.baseline} {s.lastIndex} {s.index}"
          | .error f => showFault f)
     | _, _, _, _ => badOp)
  | "enc1", [ml, av, h] =>
    (match ml.toNat?, av.toNat?, dataOf h with
     | some ml, some av, some d => encWith false ml (av != 0) d
     | _, _, _ => badOp)
  | "enc2", [ml, av, h] =>
    (match ml.toNat?, av.toNat?, dataOf h with
     | some ml, some av, some d => encWith true ml (av != 0) d
     | _, _, _ => badOp)
  | "dec1", [ml, n, h] =>
    (match ml.toNat?, n.toNat?, bytesOfHex h with
     | some ml, some n, some bs => decWith false ml n bs
     | _, _, _ => badOp)
  | "dec2", [ml, h] =>
    (match ml.toNat?, bytesOfHex h with
     | some ml, some bs => decWith true ml 0 bs
     | _, _ => badOp)
  | "defaults", [] =>
    let one := fun (e : Except Fault ETable) (ms al : Nat) (ps : List Int) =>
      (match e with | .ok et => "E" ++ digestWords (encWords et) | .error _ => "fault") ++ " " ++ decOf ms al ps
    s!"ok {one defaultLlTable Gen.maxLiteralLengthCode Gen.llDefaultAccLog Gen.llDistDec} {one defaultMlTable Gen.maxMatchLengthCode Gen.mlDefaultAccLog Gen.mlDistDec} {one defaultOfTable Gen.maxOffsetCode Gen.ofDefaultAccLog Gen.ofDistDec}"
  | _, _ => badOp

end Zstd.Driver.Fse
