import Zstd.Driver.Util
import Zstd.Model.BitIO
/-
engine `bits` (stateless; one request = one whole operation sequence on a fresh reader/writer)

  bits fwd <hex> <op,op,…>      ops: g<n> get_bits, r<n> return_bits, l bits_left, i bits_read
  bits rev <hex> <op,op,…>      ops: g<n> get_bits, t<a>:<b>:<c> get_bits_triple, b bits_remaining
  bits wr  <hex|-> <op,op,…>    initial vector (`-` = BitWriter::new()), ops:
                                w<value>:<n> write_bits, f flush, c<idx>:<value>:<n> change_bits,
                                a<hex> append_bytes, r<idx> reset_to, i index, m misaligned, d dump (last op)
answer: `ok tok tok …` (one token per op that returns something), or `fault` as soon as one op panics.
-/
namespace Zstd.Driver.BitIO
open Zstd Zstd.Driver Zstd.Model.BitIO

def splitOps (s : String) : List String := if s == "-" then [] else s.splitOn ","

def natsOf (s : String) : Option (List Nat) := (s.splitOn ":").mapM String.toNat?

def fwd (src : Array Nat) (ops : List String) : String :=
  let rec go : List String → BitReader → List String → String
    | [], _, acc => " ".intercalate ("ok" :: acc.reverse)
    | op :: rest, r, acc =>
      match op.toList with
      | 'g' :: n =>
        (match (String.ofList n).toNat? with
         | none => badOp
         | some n =>
           match r.getBits n with
           | .ok (v, r) => go rest r (toString v :: acc)
           | .error (.tooManyBits q l) => go rest r (s!"e1:{q}:{l}" :: acc)
           | .error (.notEnoughRemainingBits q m) => go rest r (s!"e2:{q}:{m}" :: acc)
           | .error (.fault _) => "fault")
      | 'r' :: n =>
        (match (String.ofList n).toNat? with
         | none => badOp
         | some n =>
           match r.returnBits n with
           | .ok r => go rest r acc
           | .error _ => "fault")
      | ['l'] => (match r.bitsLeft with | .ok v => go rest r (toString v :: acc) | .error _ => "fault")
      | ['i'] => go rest r (toString r.bitsRead :: acc)
      | _ => badOp
  go ops (BitReader.new src) []

def rev (src : Array Nat) (ops : List String) : String :=
  let rec go : List String → BitReaderRev → List String → String
    | [], _, acc => " ".intercalate ("ok" :: acc.reverse)
    | op :: rest, r, acc =>
      match op.toList with
      | 'g' :: n =>
        (match (String.ofList n).toNat? with
         | none => badOp
         | some n =>
           match r.getBits n with
           | .ok (v, r) => go rest r (toString v :: acc)
           | .error _ => "fault")
      | 't' :: n =>
        (match natsOf (String.ofList n) with
         | some [a, b, c] =>
           (match r.getBitsTriple a b c with
            | .ok ((x, y, z), r) => go rest r (s!"{x}:{y}:{z}" :: acc)
            | .error _ => "fault")
         | _ => badOp)
      | ['b'] => go rest r (toString r.bitsRemaining :: acc)
      | _ => badOp
  go ops (BitReaderRev.new src) []

def wr (init : Option (Array Nat)) (ops : List String) : String :=
  let rec go : List String → BitWriter → List String → String
    | [], _, acc => " ".intercalate ("ok" :: acc.reverse)
    | op :: rest, w, acc =>
      match op.toList with
      | 'w' :: a =>
        (match natsOf (String.ofList a) with
         | some [v, n] => (match w.writeBits v n with | .ok w => go rest w acc | .error _ => "fault")
         | _ => badOp)
      | ['f'] => (match w.flush with | .ok w => go rest w acc | .error _ => "fault")
      | 'c' :: a =>
        (match natsOf (String.ofList a) with
         | some [i, v, n] => (match w.changeBits i v n with | .ok w => go rest w acc | .error _ => "fault")
         | _ => badOp)
      | 'a' :: h =>
        (match bytesOfHex (String.ofList h) with
         | some bs => (match w.appendBytes bs with | .ok w => go rest w acc | .error _ => "fault")
         | none => badOp)
      | 'r' :: a =>
        (match (String.ofList a).toNat? with
         | some i => (match w.resetTo i with | .ok w => go rest w acc | .error _ => "fault")
         | none => badOp)
      | ['i'] => go rest w (toString w.index :: acc)
      | ['m'] => go rest w (toString w.misaligned :: acc)
      | ['d'] =>
        (match w.dump with
         | .ok out => " ".intercalate ("ok" :: ((if out.isEmpty then "-" else hexOfBytes out.toList) :: acc).reverse)
         | .error _ => "fault")
      | _ => badOp
  go ops (match init with | none => BitWriter.new | some v => BitWriter.ofOutput v) []

def handle (cmd : String) (args : List String) : String :=
  match cmd, args with
  | "fwd", [h, ops] => (match bytesOfHex h with | some bs => fwd bs.toArray (splitOps ops) | none => badOp)
  | "rev", [h, ops] => (match bytesOfHex h with | some bs => rev bs.toArray (splitOps ops) | none => badOp)
  | "wr", [h, ops] =>
    if h == "-" then wr none (splitOps ops)
    else (match bytesOfHex h with | some bs => wr (some bs.toArray) (splitOps ops) | none => badOp)
  | _, _ => badOp

end Zstd.Driver.BitIO
