import Zstd.Driver.Util
import Zstd.Spec.Frame
/- engine `spec`: the RFC transcription run as an oracle -/
namespace Zstd.Driver.Spec
open Zstd Zstd.Driver

def hex16 (v : UInt64) : String :=
  let n := v.toNat
  String.join ((List.range 8).reverse.map fun i => hexByte (n / 256 ^ i % 256))

/-- `len:xxh64` digest, same format as the harness' `digest()` -/
def digest (bs : List Nat) : String := s!"{bs.length}:{hex16 (Zstd.Spec.Xxh64.xxh64 0 bs)}"

def showContent (bs : List Nat) : String := if bs.length ≤ 64 then hexOfBytes bs ++ (if bs.isEmpty then "-" else "") else digest bs

def handle (cmd : String) (args : List String) : String :=
  match cmd, args with
  | "frame", [h] =>
    (match bytesOfHex h with
     | none => badOp
     | some bs =>
       match Zstd.Spec.decodeFrame bs with
       | none => "err"
       | some r => s!"ok {r.consumed} {digest r.content}")
  | "all", [h] =>
    (match bytesOfHex h with
     | none => badOp
     | some bs =>
       match Zstd.Spec.decodeAll [] (bs.length + 1) bs [] with
       | none => "err"
       | some c => s!"ok {digest c}")
  | "xxh64", [h] =>
    (match bytesOfHex h with
     | none => badOp
     | some bs => s!"ok {hex16 (Zstd.Spec.Xxh64.xxh64 0 bs)}")
  | "dictframe", [dh, h] =>
    (match bytesOfHex dh, bytesOfHex h with
     | some db, some bs =>
       (match Zstd.Spec.parseDict db with
        | none => "err dict"
        | some d =>
          match Zstd.Spec.decodeFrame bs [d] with
          | none => "err"
          | some r => s!"ok {r.consumed} {digest r.content}")
     | _, _ => badOp)
  | _, _ => badOp

end Zstd.Driver.Spec
