import Zstd.Model.Headers
/-
Model of window acceptance (C11): `FrameDecoderState::{new, reset, check_window_size}`,
`FrameDecoder::{new, set_max_window_size, reset/init, decode_all}`,
`StreamingDecoder::{new, new_with_max_window_size, new_with_decoder}` — as far as the window limit
goes — with an ALLOCATION LOG: the model records every "scratch allocated / reset with window w"
and every ring-buffer allocation, so that "rejected before any window-sized allocation" is a
statement about the log.

The comparison operators, the order of check and allocation, the clamp in the setter, the default
limit and what the error reports all come from `Zstd.Gen.Guards` / `Zstd.Gen.Consts`.

Rust anchors: decoding/frame_decoder.rs:103-221, 541-577; decoding/streaming_decoder.rs:50-80;
decoding/scratch.rs `DecoderScratch::{new, reset}`; decoding/decode_buffer.rs `reset`;
decoding/ringbuffer.rs `reserve`, `reserve_amortized`, `free`, `clear`.
-/
namespace Zstd.Model.Hdr
open Zstd

inductive AllocEvent where
  /-- `DecoderScratch::new(window_size)` (first use; the ring buffer itself is still empty) -/
  | scratchNew (w : Nat)
  /-- `decoder_scratch.reset(window_size)` (reuse) -/
  | scratchReset (w : Nat)
  /-- the ring buffer allocated `cap` bytes (`reserve_amortized`) -/
  | ringAlloc (cap : Nat)
  deriving Repr, DecidableEq

inductive FrameDecErr where
  /-- `ReadFrameHeaderError(..)` -/
  | readHeader (e : FrameHdrErr)
  /-- `FrameHeaderError(WindowTooBig / WindowTooSmall)`: outside the format's legal range -/
  | headerErr (e : WindowErr)
  /-- `WindowSizeTooBig { requested, max }` -/
  | windowSizeTooBig (requested max : Nat)
  /-- `DictNotProvided { dict_id }` (raised AFTER the window check and the scratch (re)allocation) -/
  | dictNotProvided (id : Nat)
  /-- `FailedToSkipFrame` (`decode_all`) -/
  | failedToSkipFrame
  /-- the input leaves the part of `decode_all` that this model covers (anything but an empty last
  raw block after the header) -/
  | outsideModel
  | fault (f : Fault)
  deriving Repr, DecidableEq

/-- the part of `FrameDecoderState` that window acceptance touches -/
structure FDState where
  header : DecFrameHeader
  /-- `decoder_scratch.buffer.window_size` -/
  window : Nat
  /-- capacity of the ring buffer's allocation -/
  ringCap : Nat
  bytesRead : Nat
  usingDict : Option Nat
  deriving Repr, DecidableEq

structure FrameDecoder where
  state : Option FDState
  dicts : List Nat
  maxWindow : Nat
  log : List AllocEvent
  deriving Repr, DecidableEq

def u64Max : Nat := 2 ^ 64 - 1

/-- `FrameDecoder::new()` -/
def FrameDecoder.new : FrameDecoder :=
  { state := none, dicts := [], log := [],
    maxWindow := if Gen.newUsesDefaultLimit then Gen.defaultMaxWindowSize else u64Max }

/-- `set_max_window_size(max_window_size)` (`max_window_size` is a `u64`) -/
def FrameDecoder.setMaxWindowSize (d : FrameDecoder) (m : Nat) : FrameDecoder :=
  { d with maxWindow := if Gen.setMaxWindowClamps then min m Gen.maxWindowSize else m }

/-- `check_window_size(window_size, max_window_size)` -/
def checkWindowSize (w max : Nat) : Except FrameDecErr Unit :=
  if Gen.windowOverLimit w max then
    .error (if Gen.checkReportsRequestedAndMax then .windowSizeTooBig w max else .windowSizeTooBig max w)
  else .ok ()

/-- `usize::next_power_of_two` -/
def npot (n : Nat) : Nat := if n ≤ 1 then 1 else 2 ^ (Nat.log2 (n - 1) + 1)

/-- `RingBuffer::reserve(amount)` on a cleared buffer of capacity `cap`:
new capacity and the allocation made, if any -/
def ringReserve (cap amount : Nat) : Nat × List AllocEvent :=
  let free := cap - 1          -- `(cap - tail + head).saturating_sub(1)` with head = tail = 0
  if free ≥ amount then (cap, [])
  else
    let newCap := max (npot cap) (npot (cap + (amount - free))) + 1
    (newCap, [.ringAlloc newCap])

/-- `FrameDecoderState::new(source, max_window_size)`: events, result -/
def stateNew (src : List Nat) (max : Nat) : List AllocEvent × Except FrameDecErr FDState :=
  match readFrameHeader src with
  | .error e => ([], .error (.readHeader e))
  | .ok (h, n, _) =>
    match h.windowSize with
    | .error e => ([], .error (.headerErr e))
    | .ok w =>
      let check := if Gen.checkPresent_new then checkWindowSize w max else .ok ()
      let st : FDState := { header := h, window := w, ringCap := 0, bytesRead := n, usingDict := none }
      match check with
      | .error e => (if Gen.checkBeforeAlloc_new then [] else [.scratchNew w], .error e)
      | .ok _ => ([.scratchNew w], .ok st)

/-- `FrameDecoderState::reset(&mut self, source, max_window_size)`: events, state afterwards, result -/
def stateReset (s : FDState) (src : List Nat) (max : Nat) : List AllocEvent × FDState × Except FrameDecErr Unit :=
  match readFrameHeader src with
  | .error e => ([], s, .error (.readHeader e))
  | .ok (h, n, _) =>
    match h.windowSize with
    | .error e => ([], s, .error (.headerErr e))
    | .ok w =>
      let check := if Gen.checkPresent_reset then checkWindowSize w max else .ok ()
      let (cap', ev) := ringReserve s.ringCap w
      let st : FDState := { header := h, window := w, ringCap := cap', bytesRead := n, usingDict := none }
      match check with
      | .error e =>
        if Gen.checkBeforeAlloc_reset ∧ Gen.checkBeforeMutate_reset then ([], s, .error e)
        else (.scratchReset w :: ev, st, .error e)
      | .ok _ => (.scratchReset w :: ev, st, .ok ())

/-- `FrameDecoder::reset(source)` (= `init`): decoder afterwards, result -/
def FrameDecoder.reset (d : FrameDecoder) (src : List Nat) : FrameDecoder × Except FrameDecErr Unit :=
  let r : List AllocEvent × Option FDState × Except FrameDecErr Unit :=
    match d.state with
    | some s =>
      let (ev, s', r) := stateReset s src (if Gen.resetPassesLimit_reuse then d.maxWindow else u64Max)
      (ev, some s', r)
    | none =>
      match stateNew src (if Gen.resetPassesLimit_new then d.maxWindow else u64Max) with
      | (ev, .error e) => (ev, none, .error e)
      | (ev, .ok s') => (ev, some s', .ok ())
  match r with
  | (ev, st, .error e) => ({ d with state := st, log := d.log ++ ev }, .error e)
  | (ev, none, .ok _) => ({ d with log := d.log ++ ev }, .error (.fault (.unwrap "frame_decoder.rs:reset:state")))
  | (ev, some s, .ok _) =>
    match s.header.dictId with
    | none => ({ d with state := some s, log := d.log ++ ev }, .ok ())
    | some id =>
      if id ∈ d.dicts then ({ d with state := some { s with usingDict := some id }, log := d.log ++ ev }, .ok ())
      else ({ d with state := some s, log := d.log ++ ev }, .error (.dictNotProvided id))

/-- `StreamingDecoder::new(source)` -/
def streamingNew (src : List Nat) : FrameDecoder × Except FrameDecErr Unit :=
  FrameDecoder.new.reset src

/-- `StreamingDecoder::new_with_max_window_size(source, max_window_size)` -/
def streamingNewWithMax (src : List Nat) (m : Nat) : FrameDecoder × Except FrameDecErr Unit :=
  if Gen.streamingSetsLimitBeforeInit then (FrameDecoder.new.setMaxWindowSize m).reset src
  else
    let (d, r) := FrameDecoder.new.reset src
    (d.setMaxWindowSize m, r)

/-- `StreamingDecoder::new_with_decoder(source, &mut decoder)` -/
def streamingNewWithDecoder (d : FrameDecoder) (src : List Nat) : FrameDecoder × Except FrameDecErr Unit :=
  d.reset src

/-- `decode_all(input, output)` on inputs made of skippable frames and of frames whose body is one
empty last raw block (`01 00 00`, plus 4 checksum bytes when the descriptor asks for them): each
frame goes through `init`; the body decodes to nothing.  Returns the decoder and `Ok(frames decoded)`.
`fuel`: any value ≥ `input.length` (every iteration consumes at least 5 bytes). -/
def FrameDecoder.decodeAllMin (d : FrameDecoder) (input : List Nat) : Nat → Nat → FrameDecoder × Except FrameDecErr Nat
  | 0, _ => (d, .error .outsideModel)
  | fuel + 1, done =>
    if input.isEmpty then (d, .ok done) else
    match d.reset input with
    | (d', .error (.readHeader (.skipFrame _ len))) =>
      -- `input` has advanced past magic number and length field
      let rest := input.drop 8
      if rest.length < len then (d', .error .failedToSkipFrame)
      else d'.decodeAllMin (rest.drop len) fuel done
    | (d', .error e) => (d', .error e)
    | (d', .ok _) =>
      match d'.state with
      | none => (d', .error (.fault (.unwrap "frame_decoder.rs:decode_blocks:state")))
      | some s =>
        let rest := input.drop s.bytesRead
        let ck := if Gen.fdChecksum s.header.desc then 4 else 0
        match rest with
        | 1 :: 0 :: 0 :: tail =>
          if tail.length < ck then (d', .error .outsideModel)
          else d'.decodeAllMin (tail.drop ck) fuel (done + 1)
        | _ => (d', .error .outsideModel)

end Zstd.Model.Hdr
