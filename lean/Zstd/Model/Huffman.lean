import Zstd.Basic
import Zstd.Gen.Consts
import Zstd.Gen.Huf
import Zstd.Model.Fse
/-
Model of the Huffman coder of `ruzstd` (C13; used by C01/C02/C16):

* encoder — `huff0/huff0_encoder.rs`: `distribute_weights`, `redistribute_weights`,
  `HuffmanTable::{build_from_data, build_from_counts, build_from_weights, can_encode}`,
  `HuffmanEncoder::{weights, write_table, encode_stream, encode, encode4x}`;
* decoder — `huff0/huff0_decoder.rs`: `HuffmanTable::{read_weights, build_table_from_weights,
  build_decoder}`, `HuffmanDecoder::{init_state, decode_symbol, next_state}`;
* `decoding/literals_section_decoder.rs`: `decode_literals`, `decompress_literals`.

Every Rust panic site reachable from these functions is a `Fault`; every `Err(..)` is a constructor
of `HufErr` / `LitErr` named after the Rust variant.  Constants and comparison operators come from
`Zstd.Gen.Huf` (regenerated from the source text on every run).

LOCAL STAND-INS (to be swapped for the shared models of `Zstd.Model.BitIO` / `Zstd.Model.Fse`):

* `Huf.Bits` — the bit writer and the reversed bit reader at the level of bit lists.  The writer is
  modelled for a byte-aligned starting position only (true for every caller: `compress_literals`
  writes 24/32/40 header bits into a writer created with `BitWriter::from(vec)`; the hooks use a fresh
  writer).  The reversed reader is the abstract one (`bits_remaining = 8·len − consumed` as an `Int`,
  zero fill past the beginning); the engine `huf rev` ties it to the real `BitReaderReversed`.
* (replaced) the FSE table of compressed weights on the decoder side and the reader of the weights'
  stream are the shared models `Zstd.Model.Fse.{DTable.buildDecoder, Decoder, skipEndMark}` over
  `Zstd.Model.BitIO.BitReaderRev` (production parameters: max log 6, max symbol 255); `HufErr.fseTable`
  carries the individual `FSETableError` variant.  The `FSETable` object inside the Huffman table is
  not part of `DecTable`: it is rebuilt from scratch by every `read_weights` (`build_decoder` resets
  the accuracy log, `read_probabilities` clears the probabilities, `build_decoding_table` clears the
  table and the counters), only its constant `max_symbol = 255` survives.
* the FSE *encoder* used by `write_table` for more than 16 weights is a parameter `fseEnc` (the bytes
  `build_table_from_data(weights, 6, true)` + `write_table` + `encode_interleaved` produce).
-/
namespace Zstd.Model.Huf
open Zstd

/-! ## local bit-level stand-ins -/
namespace Bits

/-- the `n` low bits of `v`, most significant first -/
def bitsBE : Nat → Nat → List Bool
  | 0, _ => []
  | n + 1, v => (v / 2 ^ n % 2 == 1) :: bitsBE n v

/-- value of a bit list, most significant first -/
def valBE : List Bool → Nat → Nat
  | [], acc => acc
  | b :: bs, acc => valBE bs (2 * acc + (if b then 1 else 0))

/-- bits of a byte string as the reversed reader sees them: last byte first, each byte from its
most significant bit (`acc` = what follows) -/
def revBitsAux : List Nat → List Bool → List Bool
  | [], acc => acc
  | b :: bs, acc => revBitsAux bs (bitsBE 8 b ++ acc)

def revBits (bytes : List Nat) : List Bool := revBitsAux bytes []

/-- pack a bit list given in REVERSED write order (length a multiple of 8) into bytes in output
order (`acc` = bytes that follow) -/
def packRevAux : List Bool → List Nat → List Nat
  | b7 :: b6 :: b5 :: b4 :: b3 :: b2 :: b1 :: b0 :: rest, acc =>
    packRevAux rest (valBE [b7, b6, b5, b4, b3, b2, b1, b0] 0 :: acc)
  | _, acc => acc

def packRev (rev : List Bool) : List Nat := packRevAux rev []

/-- Abstract `BitReaderReversed`: `bits` = real bits not yet consumed (next one first), `left` =
their number (kept next to the list so that `bits_remaining()` is O(1); `RevReader.new` and
`getBits` maintain `left = bits.length`), `over` = number of bits delivered as zero fill because the
reader ran past the beginning of the source. -/
structure RevReader where
  bits : List Bool
  left : Nat
  over : Nat
  deriving Repr, DecidableEq

def RevReader.new (src : List Nat) : RevReader := { bits := revBits src, left := 8 * src.length, over := 0 }

/-- `bits_remaining()` -/
def RevReader.bitsRemaining (r : RevReader) : Int := (r.left : Int) - (r.over : Int)

/-- `get_bits(n)` (n ≤ 56 in every call made by the Huffman code: n ≤ max_num_bits or accuracy log) -/
def RevReader.getBits (r : RevReader) (n : Nat) : Nat × RevReader :=
  if n ≤ r.left then
    (valBE (r.bits.take n) 0, { bits := r.bits.drop n, left := r.left - n, over := r.over })
  else
    (valBE r.bits 0 * 2 ^ (n - r.left), { bits := [], left := 0, over := r.over + (n - r.left) })

/-- the padding loop that precedes every backward stream:
`loop { val = get_bits(1); skipped += 1; if val == 1 || skipped > 8 { break } }`.
Returns `skipped_bits` and the reader. -/
def skipPadding : Nat → Nat → RevReader → Nat × RevReader
  | 0, skipped, r => (skipped, r)
  | fuel + 1, skipped, r =>
    let (v, r') := r.getBits 1
    let skipped := skipped + 1
    if v = 1 ∨ skipped > Gen.hufMaxSkip then (skipped, r') else skipPadding fuel skipped r'

end Bits
open Bits

/-! ## errors -/

/-- `HuffmanTableError` variants that `build_decoder` can return -/
inductive HufErr where
  | sourceIsEmpty
  | notEnoughBytesForWeights (got expected : Nat)
  | fseTable (e : Fse.Err)                     -- `FSETableError` (the variant of the shared FSE model)
  | fseTableUsedTooManyBytes (used avail : Nat)
  | notEnoughBytesToDecompressWeights (got need : Nat)
  | extraPadding (skipped : Nat)
  | fseDecoder                                 -- `FSEDecoderError::TableIsUninitialized`
  | tooManyWeights (got : Nat)
  | notEnoughBytesInSource (got need : Nat)
  | weightBiggerThanMaxNumBits (got : Nat)
  | missingWeights
  | leftoverIsNotAPowerOf2 (got : Nat)
  | maxBitsTooHigh (got : Nat)
  deriving Repr, DecidableEq

/-- `DecompressLiteralsError` variants that `decode_literals` can return -/
inductive LitErr where
  | missingCompressedSize
  | missingNumStreams
  | huf (e : HufErr)
  | uninitializedHuffmanTable
  | missingBytesForJumpHeader (got : Nat)
  | missingBytesForLiterals (got needed : Nat)
  | extraPadding (skipped : Nat)
  | bitstreamReadMismatch (readTil expected : Int)
  | decodedLiteralCountMismatch (decoded expected : Nat)
  deriving Repr, DecidableEq

/-- failure of a decoder function: a Rust `Err(..)` or a Rust panic -/
inductive DErr (ε : Type) where
  | err (e : ε)
  | fault (f : Fault)
  deriving Repr, DecidableEq

abbrev DRes (ε α : Type) := Except (DErr ε) α

def liftF {ε α : Type} : Except Fault α → DRes ε α
  | .ok a => .ok a
  | .error f => .error (.fault f)

/-! ## encoder: weight shapes -/

/-- cons `n` copies of `x` onto `acc` -/
def pushN : Nat → Nat → List Nat → List Nat
  | 0, _, acc => acc
  | n + 1, x, acc => pushN n x (x :: acc)

/-- the `while weights.len() < amount` loop of `distribute_weights`; `accRev` is the vector reversed,
`len` its length -/
def distLoop : Nat → Nat → Nat → Nat → Nat → List Nat → Except Fault (List Nat)
  | 0, amount, len, _, _, accRev =>
    if len < amount then .error (.unreachable "model-fuel:distribute_weights") else .ok accRev
  | fuel + 1, amount, len, target, counter, accRev =>
    if len < amount then
      if counter - target ≥ 64 then .error (.overflow "huff0_encoder.rs:distribute_weights:shl")
      else
        let addNew := 2 ^ (counter - target)
        let avail := amount - len
        if addNew > avail then
          distLoop fuel amount (len + 1) counter (counter + 1) (counter :: accRev)
        else
          distLoop fuel amount (len + addNew) target (counter + 1) (pushN addNew target accRev)
    else .ok accRev

/-- `distribute_weights(amount)` -/
def distributeWeights (amount : Nat) : Except Fault (List Nat) :=
  if !Gen.hufAmountLoOk amount Gen.hufAmountLo then .error (.assert "huff0_encoder.rs:distribute_weights:amount>=2")
  else if !Gen.hufAmountHiOk amount Gen.hufAmountHi then .error (.assert "huff0_encoder.rs:distribute_weights:amount<=256")
  else
    match distLoop amount amount 2 1 2 [1, 1] with
    | .error f => .error f
    | .ok accRev =>
      -- `assert_eq!(amount, weights.len())`
      if accRev.length = amount then .ok accRev.reverse
      else .error (.assert "huff0_encoder.rs:distribute_weights:len")

/-- Σ 2^w with the overflow checks of `1 << x` (usize) and of the `usize` sum -/
def sumPow2 : List Nat → Nat → Except Fault Nat
  | [], acc => .ok acc
  | w :: ws, acc =>
    if w ≥ 64 then .error (.overflow "huff0_encoder.rs:redistribute_weights:shl")
    else if acc + 2 ^ w ≥ 2 ^ 64 then .error (.overflow "huff0_encoder.rs:redistribute_weights:sum")
    else sumPow2 ws (acc + 2 ^ w)

/-- first loop of `redistribute_weights`: raise every weight below `d` to `d`; returns the new weights
(reversed onto `accRev`) and the added mass `Σ (2^d − 2^w)` -/
def raiseLoop (d : Nat) : List Nat → Nat → List Nat → List Nat × Nat
  | [], added, accRev => (accRev, added)
  | w :: ws, added, accRev =>
    if w < d then raiseLoop d ws (added + (2 ^ d - 2 ^ w)) (d :: accRev)
    else raiseLoop d ws added (w :: accRev)

/-- inner `for` of the reduction loop: scan until `1 << (weight − 1) > added`, remember the first
index of the largest weight seen.  `.error` = `weight − 1` underflow. -/
def scanLoop (added : Nat) : List Nat → Nat → Nat → Nat → Except Fault (Nat × Nat)
  | [], _, curIdx, curW => .ok (curIdx, curW)
  | w :: ws, idx, curIdx, curW =>
    if w = 0 then .error (.overflow "huff0_encoder.rs:redistribute_weights:weight-1")
    else if 2 ^ (w - 1) > added then .ok (curIdx, curW)
    else if w > curW then scanLoop added ws (idx + 1) idx w
    else scanLoop added ws (idx + 1) curIdx curW

/-- `weights[idx] -= 1` -/
def decAt : List Nat → Nat → Except Fault (List Nat)
  | [], _ => .error (.index "huff0_encoder.rs:redistribute_weights:weights[current_idx]")
  | w :: ws, 0 =>
    if w = 0 then .error (.overflow "huff0_encoder.rs:redistribute_weights:weights[current_idx]-=1")
    else .ok ((w - 1) :: ws)
  | w :: ws, i + 1 =>
    match decAt ws i with
    | .ok ws' => .ok (w :: ws')
    | .error f => .error f

/-- `while added_weights > 0` of `redistribute_weights`.  (`added` is matched as `a + 1` so that
kernel evaluation works on a numeral instead of a growing chain of subtractions.) -/
def reduceLoop : Nat → List Nat → Nat → Except Fault (List Nat)
  | 0, ws, added => if added > 0 then .error (.unreachable "model-fuel:redistribute_weights") else .ok ws
  | fuel + 1, ws, added =>
    match added with
    | 0 => .ok ws
    | a + 1 =>
      match scanLoop (a + 1) ws 0 0 0 with
      | .error f => .error f
      | .ok (curIdx, curW) =>
        if curW = 0 then .error (.overflow "huff0_encoder.rs:redistribute_weights:current_weight-1")
        else
          match decAt ws curIdx with
          | .error f => .error f
          | .ok ws' => reduceLoop fuel ws' (a + 1 - 2 ^ (curW - 1))

/-- final normalisation: subtract `weights[0] − 1` from every weight -/
def subAll (off : Nat) : List Nat → Except Fault (List Nat)
  | [] => .ok []
  | w :: ws =>
    if w < off then .error (.overflow "huff0_encoder.rs:redistribute_weights:normalise")
    else
      match subAll off ws with
      | .ok r => .ok ((w - off) :: r)
      | .error f => .error f

/-- `redistribute_weights(weights, max_num_bits)`; `fuel` bounds the reduction loop (every round
removes at least one unit of added mass, so `added` rounds always suffice) -/
def redistributeWeights (ws : List Nat) (maxNumBits : Nat) : Except Fault (List Nat) :=
  match sumPow2 ws 0 with
  | .error f => .error f
  | .ok sum =>
    if sum = 0 then .error (.assert "huff0_encoder.rs:redistribute_weights:ilog2(0)")
    else
      let sumLog := Nat.log2 sum
      if sumLog < maxNumBits then .ok ws
      else
        let d := sumLog - maxNumBits + 1
        let (raisedRev, added) := raiseLoop d ws 0 []
        match reduceLoop added raisedRev.reverse added with
        | .error f => .error f
        | .ok ws' =>
          match ws' with
          | [] => .error (.index "huff0_encoder.rs:redistribute_weights:weights[0]")
          | w0 :: _ => if w0 > 1 then subAll (w0 - 1) ws' else .ok ws'

/-- the code shape for `n` distinct symbols: what `build_from_counts` computes before assigning the
weights to symbols (ascending, the smallest weight goes to the rarest symbol) -/
def shape (n : Nat) : Except Fault (List Nat) :=
  match distributeWeights n with
  | .error f => .error f
  | .ok ws => redistributeWeights ws (Nat.log2 ws.length + Gen.hufLimitAdd)

/-! ## encoder: table -/

/-- `huff0_encoder::HuffmanTable`: per symbol (code, number of bits); 0 bits = no code -/
structure EncTable where
  codes : List (Nat × Nat)
  deriving Repr, DecidableEq

/-- insert `x` before the first element `y` with `le x y` (same shape as Mathlib's `orderedInsert`) -/
def insertSorted {α : Type} (le : α → α → Bool) (x : α) : List α → List α
  | [] => [x]
  | y :: ys => if le x y then x :: y :: ys else y :: insertSorted le x ys

/-- stable insertion sort (`sort_by` / `sort_by_key` are stable): elements are inserted from the
right, each before the elements it is `le` to, so equal keys keep their original order -/
def stableSort {α : Type} (le : α → α → Bool) : List α → List α
  | [] => []
  | x :: xs => insertSorted le x (stableSort le xs)

/-- (symbol as u8, weight) entries with non-zero weight, in symbol order -/
def sortEntries : List Nat → Nat → List (Nat × Nat)
  | [], _ => []
  | w :: ws, sym => if w > 0 then (sym % 256, w) :: sortEntries ws (sym + 1) else sortEntries ws (sym + 1)

/-- order of `build_from_weights`: by weight, then by symbol -/
def entryLe (a b : Nat × Nat) : Bool := a.2 < b.2 || (a.2 == b.2 && a.1 ≤ b.1)

/-- Σ 1 << (w − 1) over the entries (usize) -/
def massSum : List (Nat × Nat) → Nat → Except Fault Nat
  | [], acc => .ok acc
  | (_, w) :: es, acc =>
    if w - 1 ≥ 64 then .error (.overflow "huff0_encoder.rs:build_from_weights:shl")
    else if acc + 2 ^ (w - 1) ≥ 2 ^ 64 then .error (.overflow "huff0_encoder.rs:build_from_weights:sum")
    else massSum es (acc + 2 ^ (w - 1))

def isPow2 (n : Nat) : Bool := n ≠ 0 && 2 ^ Nat.log2 n == n

/-- `table.codes[i] = v` -/
def setCode : List (Nat × Nat) → Nat → Nat × Nat → Except Fault (List (Nat × Nat))
  | [], _, _ => .error (.index "huff0_encoder.rs:build_from_weights:codes[symbol]")
  | _ :: cs, 0, v => .ok (v :: cs)
  | c :: cs, i + 1, v =>
    match setCode cs i v with
    | .ok r => .ok (c :: r)
    | .error f => .error f

/-- the code-assignment loop of `build_from_weights` over the sorted entries -/
def assignCodes (maxNumBits : Nat) : List (Nat × Nat) → Nat → Nat → Nat → List (Nat × Nat) →
    Except Fault (List (Nat × Nat))
  | [], _, _, _, codes => .ok codes
  | (sym, w) :: es, curCode, curWeight, curNumBits, codes =>
    if curWeight ≠ w then
      -- sorted ascending, so `w − curWeight` cannot underflow; a shift by ≥ 64 would panic
      if w < curWeight then .error (.overflow "huff0_encoder.rs:build_from_weights:weight-current_weight")
      else if w - curWeight ≥ 64 then .error (.overflow "huff0_encoder.rs:build_from_weights:shr")
      else if maxNumBits < w then .error (.overflow "huff0_encoder.rs:build_from_weights:max_num_bits-weight")
      else
        let code := curCode / 2 ^ (w - curWeight)
        let nb := maxNumBits - w + 1
        match setCode codes sym (code % 2 ^ 32, nb % 256) with
        | .error f => .error f
        | .ok codes' => assignCodes maxNumBits es (code + 1) w nb codes'
    else
      match setCode codes sym (curCode % 2 ^ 32, curNumBits % 256) with
      | .error f => .error f
      | .ok codes' => assignCodes maxNumBits es (curCode + 1) curWeight curNumBits codes'

/-- `HuffmanTable::build_from_weights` -/
def buildFromWeights (weights : List Nat) : Except Fault EncTable :=
  let sorted := stableSort entryLe (sortEntries weights 0)
  match massSum sorted 0 with
  | .error f => .error f
  | .ok sum =>
    if !isPow2 sum then .error (.assert "huff0_encoder.rs:build_from_weights:internal-error")
    else
      let maxNumBits := Nat.log2 sum      -- highest_bit_set(sum) − 1
      match assignCodes maxNumBits sorted 0 0 0 (List.replicate weights.length (0, 0)) with
      | .error f => .error f
      | .ok codes => .ok { codes := codes }

/-- `weights_distributed[idx] = v` -/
def setNat : List Nat → Nat → Nat → Except Fault (List Nat)
  | [], _, _ => .error (.index "huff0_encoder.rs:build_from_counts:weights_distributed[idx]")
  | _ :: cs, 0, v => .ok (v :: cs)
  | c :: cs, i + 1, v =>
    match setNat cs i v with
    | .ok r => .ok (c :: r)
    | .error f => .error f

/-- the assignment loop of `build_from_counts`: walk the symbols from the rarest to the most frequent;
`order` = (symbol index, count = 0?) in sorted order; `ws` = remaining shape weights (ascending) -/
def scatter : List (Nat × Bool) → List Nat → List Nat → Except Fault (List Nat)
  | [], _, out => .ok out
  | (idx, true) :: rest, ws, out =>
    match setNat out idx 0 with
    | .error f => .error f
    | .ok out' => scatter rest ws out'
  | (idx, false) :: rest, ws, out =>
    match ws with
    | [] => .error (.unwrap "huff0_encoder.rs:build_from_counts:weights.pop()")
    | w :: ws' =>
      match setNat out idx w with
      | .error f => .error f
      | .ok out' => scatter rest ws' out'

/-- what `build_from_counts` uses of the counts: their number, and the symbol indices in stable
ascending count order, each with the flag "count is zero" -/
def rankOrder (counts : List Nat) : List (Nat × Bool) :=
  (stableSort (fun (a b : Nat × Nat) => a.1 ≤ b.1) counts.zipIdx).map fun p => (p.2, p.1 == 0)

/-- `build_from_counts` as a function of the length and the rank order only -/
def buildFromRank (len : Nat) (order : List (Nat × Bool)) : Except Fault EncTable :=
  if !Gen.hufCountsLenOk len Gen.hufMaxCounts then .error (.assert "huff0_encoder.rs:build_from_counts:len<=256")
  else
    let zeros := (order.filter (·.2)).length
    match shape (len - zeros) with
    | .error f => .error f
    | .ok ws =>
      match scatter order ws (List.replicate len 0) with
      | .error f => .error f
      | .ok wd => buildFromWeights wd

/-- `HuffmanTable::build_from_counts` -/
def buildFromCounts (counts : List Nat) : Except Fault EncTable :=
  buildFromRank counts.length (rankOrder counts)

/-- histogram of `build_from_data`: `counts[..=max]` -/
def countsOf (data : List Nat) : List Nat :=
  let arr := data.foldl (fun (a : Array Nat) x => a.modify x (· + 1)) (Array.replicate 256 0)
  let max := data.foldl (fun m x => Nat.max m x) 0
  (arr.toList.take (max + 1))

/-- `HuffmanTable::build_from_data` (bytes are `Nat`s below 256) -/
def buildFromData (data : List Nat) : Except Fault EncTable := buildFromCounts (countsOf data)

/-- `HuffmanTable::can_encode` -/
def canEncodeLoop : List (Nat × Nat) → List (Nat × Nat) → Nat → Option Nat
  | (_, o) :: os, (_, s) :: ss, sum =>
    if o ≠ 0 ∧ s = 0 then none else canEncodeLoop os ss (sum + (if o ≥ s then o - s else s - o))
  | _, _, sum => some sum

def canEncode (self other : EncTable) : Option Nat :=
  if other.codes.length > self.codes.length then none else canEncodeLoop other.codes self.codes 0

/-! ## encoder: table description and streams -/

/-- `HuffmanEncoder::weights` -/
def weights (t : EncTable) : Except Fault (List Nat) :=
  match t.codes with
  | [] => .error (.unwrap "huff0_encoder.rs:weights:max()")
  | _ =>
    let max := t.codes.foldl (fun m c => Nat.max m c.2) 0
    .ok (t.codes.map fun c => if c.2 = 0 then 0 else max - c.2 + 1)

/-- the direct form: two weights per byte -/
def directBytes : List Nat → Except Fault (List Nat)
  | [] => .ok []
  | [w] =>
    if w ≥ 16 then .error (.assert "huff0_encoder.rs:write_table:weight<16")
    else .ok [w * 2 ^ Gen.hufOddShift % 256]
  | w1 :: w2 :: rest =>
    if w1 ≥ 16 ∨ w2 ≥ 16 then .error (.assert "huff0_encoder.rs:write_table:weight<16")
    else
      match directBytes rest with
      | .error f => .error f
      | .ok bs => .ok ((if Gen.hufPairSecondLow then w2 + 16 * w1 else w1 + 16 * w2) :: bs)

/-- `HuffmanEncoder::write_table`.  `fseEnc ws` = the bytes that
`FSEEncoder::new(build_table_from_data(ws, 6, true), writer).encode_interleaved(ws)` appends
(table description followed by the interleaved stream). -/
def writeTable (fseEnc : List Nat → Except Fault (List Nat)) (t : EncTable) : Except Fault (List Nat) :=
  match weights t with
  | .error f => .error f
  | .ok ws =>
    let ws := ws.dropLast       -- `&weights[..weights.len() - 1]`; the length is ≥ 1 here
    if Gen.hufUseFse ws.length Gen.hufDirectMax then
      match fseEnc ws with
      | .error f => .error f
      | .ok bytes =>
        if !Gen.hufFseLenOk bytes.length Gen.hufFseLenBound then
          .error (.assert "huff0_encoder.rs:write_table:encoded_len<128")
        else .ok (bytes.length :: bytes)
    else
      match directBytes ws with
      | .error f => .error f
      | .ok bs => .ok ((ws.length + Gen.hufDirectHeaderAddEnc) :: bs)

/-- the code bits of `data` as the reversed reader will see them: first symbol first, each code
most significant bit first.  Faults: symbol outside the table, symbol without a code
(`debug_assert!(num_bits > 0)`), code wider than its length (stricter than the writer's
`debug_assert!(bits.ilog2() <= num_bits)`; unreachable for tables made by `build_from_weights`). -/
def codeBits (t : EncTable) : List Nat → Except Fault (List Bool)
  | [] => .ok []
  | s :: rest =>
    match t.codes[s]? with
    | none => .error (.index "huff0_encoder.rs:encode_stream:codes[symbol]")
    | some (code, nb) =>
      if nb = 0 then .error (.assert "huff0_encoder.rs:encode_stream:num_bits>0")
      else if code ≥ 2 ^ nb then .error (.assert "bit_writer.rs:write_bits_64:dirty-upper-bits")
      else
        match codeBits t rest with
        | .error f => .error f
        | .ok bits => .ok (bitsBE nb code ++ bits)

/-- marker bit and zero padding up to the byte boundary, in reversed order -/
def finishStream (bits : List Bool) : List Bool :=
  let fill := if bits.length % 8 = 0 then 8 else 8 - bits.length % 8
  List.replicate (fill - 1) false ++ true :: bits

/-- `HuffmanEncoder::encode_stream` on a byte-aligned writer: the bytes appended -/
def encodeStream (t : EncTable) (data : List Nat) : Except Fault (List Nat) :=
  match codeBits t data with
  | .error f => .error f
  | .ok bits => .ok (packRev (finishStream bits))

/-- `HuffmanEncoder::encode` -/
def encode (fseEnc : List Nat → Except Fault (List Nat)) (t : EncTable) (data : List Nat) (withTable : Bool) :
    Except Fault (List Nat) :=
  match (if withTable then writeTable fseEnc t else .ok []) with
  | .error f => .error f
  | .ok desc =>
    match encodeStream t data with
    | .error f => .error f
    | .ok s => .ok (desc ++ s)

/-- `HuffmanEncoder::encode4x` -/
def encode4x (fseEnc : List Nat → Except Fault (List Nat)) (t : EncTable) (data : List Nat) (withTable : Bool) :
    Except Fault (List Nat) :=
  if !Gen.hufEnc4LenOk data.length Gen.hufEnc4MinLen then .error (.assert "huff0_encoder.rs:encode4x:len>=4")
  else
    let split := (data.length + Gen.hufSplitDiv - 1) / Gen.hufSplitDiv
    -- `&data[split*2..split*3]` panics when 3·split > len (len = 5)
    if split * 3 > data.length then .error (.index "huff0_encoder.rs:encode4x:data[split*2..split*3]")
    else
      let src1 := data.take split
      let src2 := (data.drop split).take split
      let src3 := (data.drop (split * 2)).take split
      let src4 := data.drop (split * 3)
      match (if withTable then writeTable fseEnc t else .ok []) with
      | .error f => .error f
      | .ok desc =>
        match encodeStream t src1, encodeStream t src2, encodeStream t src3, encodeStream t src4 with
        | .ok s1, .ok s2, .ok s3, .ok s4 =>
          if s1.length > 65535 ∨ s2.length > 65535 ∨ s3.length > 65535 then
            .error (.assert "huff0_encoder.rs:encode4x:size<=u16::MAX")
          else .ok (desc ++ leBytes 2 s1.length ++ leBytes 2 s2.length ++ leBytes 2 s3.length
                      ++ s1 ++ s2 ++ s3 ++ s4)
        | .error f, _, _, _ => .error f
        | _, .error f, _, _ => .error f
        | _, _, .error f, _ => .error f
        | _, _, _, .error f => .error f

/-! ## decoder: table -/

structure Entry where
  symbol : Nat
  numBits : Nat
  deriving Repr, DecidableEq, Inhabited

/-- the fields of `huff0_decoder::HuffmanTable` that carry state from one call to the next
(`bit_ranks` / `rank_indexes` are rebuilt before every use, `fse_table` is rebuilt before every use) -/
structure DecTable where
  decode : Array Entry
  weights : List Nat
  maxNumBits : Nat
  bits : List Nat
  deriving Repr, DecidableEq

/-- `HuffmanTable::new()` -/
def DecTable.empty : DecTable := { decode := #[], weights := [], maxNumBits := 0, bits := [] }

/-- `Vec::resize(n, 0)` -/
def resizeNat (l : List Nat) (n : Nat) : List Nat := l.take n ++ List.replicate (n - l.length) 0

/-- the direct form: `n` nibbles, even index = high nibble -/
def nibbles : Nat → List Nat → Except Fault (List Nat)
  | 0, _ => .ok []
  | _ + 1, [] => .error (.index "huff0_decoder.rs:read_weights:weights_raw[idx/2]")
  | 1, b :: _ => .ok [if Gen.hufEvenIdxHigh then b / 16 else b % 16]
  | n + 2, b :: bs =>
    match nibbles n bs with
    | .error f => .error f
    | .ok r => .ok (if Gen.hufEvenIdxHigh then b / 16 :: b % 16 :: r else b % 16 :: b / 16 :: r)

/-- `br.bits_remaining() <= -1` with the operator and constant of the source -/
def fseStreamEnd (br : BitIO.BitReaderRev) : Bool :=
  Gen.hufFseStreamEnd (br.bitsRemaining + 4096).toNat Gen.hufFseStreamEndK

/-- the two-decoder loop of `read_weights` over the shared FSE decoder (`Fse.decodeInterLoop` is the
same loop; this one also returns the weights pushed so far when it ends with TooManyWeights, because
they stay in `self.weights`); `acc` = `self.weights` reversed.
Result: `.ok (.ok ws)` = loop left through `break`; `.ok (.error ws)` = TooManyWeights. -/
def fseWeightsLoop (ft : Fse.DTable) : Nat → Fse.Decoder → Fse.Decoder → BitIO.BitReaderRev → List Nat →
    Except Fse.Err (Except (List Nat) (List Nat))
  | 0, _, _, _, _ => .error (.fault (.unreachable "model-fuel:read_weights"))
  | fuel + 1, d1, d2, br, acc =>
    let acc := d1.decodeSymbol :: acc
    match d1.updateState ft br with
    | .error e => .error e
    | .ok (d1, br) =>
      if fseStreamEnd br then .ok (.ok (d2.decodeSymbol :: acc).reverse)
      else
        let acc := d2.decodeSymbol :: acc
        match d2.updateState ft br with
        | .error e => .error e
        | .ok (d2, br) =>
          if fseStreamEnd br then .ok (.ok (d1.decodeSymbol :: acc).reverse)
          else if Gen.hufTooManyWeights acc.length Gen.hufTooManyWeightsBound then .ok (.error acc.reverse)
          else fseWeightsLoop ft fuel d1 d2 br acc

/-- an error of the FSE layer as it surfaces from `read_weights` -/
def fseErr (e : Fse.Err) : DErr HufErr :=
  match e with
  | .fault f => .fault f
  | .tableIsUninitialized => .err .fseDecoder
  | e => .err (.fseTable e)

/-- `HuffmanTable::read_weights`: new state and result (bytes read) -/
def readWeights (t : DecTable) (source : List Nat) : DecTable × DRes HufErr Nat :=
  match source with
  | [] => (t, .error (.err .sourceIsEmpty))
  | header :: rest =>
    if header ≤ Gen.hufFseHeaderMax then
      if header > rest.length then (t, .error (.err (.notEnoughBytesForWeights rest.length header)))
      else
        match (Fse.DTable.new Gen.hufFseMaxSymbol).buildDecoder rest.toArray Gen.hufWeightsMaxLogDec with
        | (_, .error e) => (t, .error (fseErr e))
        | (ft, .ok used) =>
          if used > header then (t, .error (.err (.fseTableUsedTooManyBytes used header)))
          else
            let clen := header - used
            let cw := rest.drop used
            if cw.length < clen then (t, .error (.err (.notEnoughBytesToDecompressWeights cw.length clen)))
            else
              match Fse.skipEndMark (BitIO.BitReaderRev.new (cw.take clen).toArray) with
              | .error f => (t, .error (.fault f))
              | .ok none => (t, .error (.err (.extraPadding (Gen.hufMaxSkip + 1))))
              | .ok (some br) =>
                match (Fse.Decoder.new ft).initState ft br with
                | .error e => (t, .error (fseErr e))
                | .ok (d1, br) =>
                  match (Fse.Decoder.new ft).initState ft br with
                  | .error e => (t, .error (fseErr e))
                  | .ok (d2, br) =>
                    match fseWeightsLoop ft 130 d1 d2 br [] with
                    | .error e => ({ t with weights := [] }, .error (fseErr e))
                    | .ok (.error ws) => ({ t with weights := ws }, .error (.err (.tooManyWeights ws.length)))
                    | .ok (.ok ws) => ({ t with weights := ws }, .ok (1 + header))
    else
      let num := header - Gen.hufDirectHeaderSubDec
      let t := { t with weights := resizeNat t.weights num }
      let need := if num % 2 = 0 then num / 2 else num / 2 + 1
      if rest.length < need then (t, .error (.err (.notEnoughBytesInSource rest.length need)))
      else
        match nibbles num rest with
        | .error f => (t, .error (.fault f))
        | .ok ws =>
          let bitsRead := 8 + 4 * num
          ({ t with weights := ws }, .ok (if bitsRead % 8 = 0 then bitsRead / 8 else bitsRead / 8 + 1))

/-- first weight that is too big, if any -/
def firstTooBig : List Nat → Option Nat
  | [] => none
  | w :: ws => if Gen.hufWeightTooBig w Gen.hufMaxNumBits then some w else firstTooBig ws

/-- Σ (w > 0 ? 1 << (w − 1) : 0) -/
def weightSum : List Nat → Nat
  | [] => 0
  | w :: ws => (if w > 0 then 2 ^ (w - 1) else 0) + weightSum ws

/-- number of symbols with `b` bits -/
def countBits (b : Nat) : List Nat → Nat
  | [] => 0
  | x :: xs => (if x = b then 1 else 0) + countBits b xs

/-- `rank_indexes` before the fill loop: `go b acc` has `acc = [ri[b], …, ri[m]]` -/
def rankIndexesGo (m : Nat) (bits : List Nat) : Nat → List Nat → List Nat
  | 0, acc => acc
  | b + 1, acc =>
    match acc with
    | [] => []
    | h :: _ => rankIndexesGo m bits b ((h + countBits (b + 1) bits * 2 ^ (m - (b + 1))) :: acc)

def rankIndexes (m : Nat) (bits : List Nat) : List Nat := rankIndexesGo m bits m [0]

/-- `for idx in 0..len { decode[base + idx] = e }` (bounds checked by the caller) -/
def fill (a : Array Entry) (base : Nat) : Nat → Entry → Array Entry
  | 0, _ => a
  | n + 1, e => fill (a.setIfInBounds (base + n) e) base n e

/-- the symbol loop of `build_table_from_weights` -/
def fillLoop (m : Nat) : List Nat → Nat → List Nat → Array Entry → Except Fault (List Nat × Array Entry)
  | [], _, ri, dec => .ok (ri, dec)
  | b :: rest, sym, ri, dec =>
    if b = 0 then fillLoop m rest (sym + 1) ri dec
    else
      match ri[b]? with
      | none => .error (.index "huff0_decoder.rs:build_table_from_weights:rank_indexes[bits]")
      | some base =>
        let len := 2 ^ (m - b)
        if base + len > dec.size then .error (.index "huff0_decoder.rs:build_table_from_weights:decode[base+idx]")
        else fillLoop m rest (sym + 1) (ri.set b (base + len)) (fill dec base len { symbol := sym % 256, numBits := b })

/-- `Vec::resize(n, dummy)` on the decode table -/
def resizeDecode (a : Array Entry) (n : Nat) : Array Entry :=
  if a.size ≥ n then a.extract 0 n else a ++ Array.replicate (n - a.size) { symbol := 0, numBits := 0 }

/-- `HuffmanTable::build_table_from_weights`: new state and result -/
def buildTableFromWeights (t : DecTable) : DecTable × DRes HufErr Unit :=
  let ws := t.weights
  let t := { t with bits := List.replicate (ws.length + 1) 0 }
  match firstTooBig ws with
  | some w => (t, .error (.err (.weightBiggerThanMaxNumBits w)))
  | none =>
    let sum := weightSum ws
    if sum ≥ 2 ^ 32 then (t, .error (.fault (.overflow "huff0_decoder.rs:build_table_from_weights:weight_sum")))
    else if sum = 0 then (t, .error (.err .missingWeights))
    else
      let maxBits := Nat.log2 sum + 1            -- highest_bit_set
      let leftOver := 2 ^ maxBits - sum
      if !isPow2 leftOver then (t, .error (.err (.leftoverIsNotAPowerOf2 leftOver)))
      else
        let lastWeight := Nat.log2 leftOver + 1
        let bits := (ws.map fun w => if w > 0 then maxBits + 1 - w else 0) ++ [maxBits + 1 - lastWeight]
        let t := { t with bits := bits, maxNumBits := maxBits }
        if Gen.hufMaxBitsTooHigh maxBits Gen.hufMaxNumBits then (t, .error (.err (.maxBitsTooHigh maxBits)))
        else if bits.any (· > maxBits) then
          (t, .error (.fault (.index "huff0_decoder.rs:build_table_from_weights:bit_ranks[num_bits]")))
        else
          let dec := resizeDecode t.decode (2 ^ maxBits)
          let ri := rankIndexes maxBits bits
          match ri with
          | [] => (t, .error (.fault (.index "huff0_decoder.rs:build_table_from_weights:rank_indexes[0]")))
          | ri0 :: _ =>
            if ri0 ≠ dec.size then
              ({ t with decode := dec }, .error (.fault (.assert "huff0_decoder.rs:build_table_from_weights:rank_indexes[0]==decode.len()")))
            else
              match fillLoop maxBits bits 0 ri dec with
              | .error f => ({ t with decode := dec }, .error (.fault f))
              | .ok (_, dec') => ({ t with decode := dec' }, .ok ())

/-- `HuffmanTable::build_decoder`: new state and result (bytes used) -/
def buildDecoder (t : DecTable) (source : List Nat) : DecTable × DRes HufErr Nat :=
  let t := { t with decode := #[] }
  match readWeights t source with
  | (t, .error e) => (t, .error e)
  | (t, .ok used) =>
    match buildTableFromWeights t with
    | (t, .error e) => (t, .error e)
    | (t, .ok ()) => (t, .ok used)

/-! ## decoder: symbols -/

/-- `HuffmanDecoder::init_state` -/
def initState (t : DecTable) (br : RevReader) : Nat × RevReader := br.getBits t.maxNumBits

/-- `self.table.decode[self.state]` -/
def entryAt (t : DecTable) (state : Nat) : Except Fault Entry :=
  match t.decode[state]? with
  | some e => .ok e
  | none => .error (.index "huff0_decoder.rs:decode[state]")

/-- `HuffmanDecoder::decode_symbol` -/
def decodeSymbol (t : DecTable) (state : Nat) : Except Fault Nat :=
  match entryAt t state with
  | .ok e => .ok e.symbol
  | .error f => .error f

/-- `HuffmanDecoder::next_state`: new state and reader -/
def nextState (t : DecTable) (state : Nat) (br : RevReader) : Except Fault (Nat × RevReader) :=
  match entryAt t state with
  | .error f => .error f
  | .ok e =>
    if e.numBits ≥ 64 then .error (.overflow "huff0_decoder.rs:next_state:shl") else
    let (newBits, br') := br.getBits e.numBits
    .ok ((((state <<< e.numBits) % 2 ^ 64) &&& (t.decode.size - 1)) ||| newBits, br')

/-- `while br.bits_remaining() > -(max_num_bits) { push(decode_symbol()); next_state() }`.
`fuel` bounds the iterations; running out of fuel corresponds to a loop that would not end in the
Rust code (an entry with `num_bits = 0`). -/
def decodeLoop (t : DecTable) : Nat → Nat → RevReader → List Nat → Except Fault (RevReader × List Nat)
  | 0, _, br, outRev =>
    if br.bitsRemaining > -(t.maxNumBits : Int) then .error (.unreachable "model-fuel:decompress_literals(hang)")
    else .ok (br, outRev)
  | fuel + 1, state, br, outRev =>
    if br.bitsRemaining > -(t.maxNumBits : Int) then
      match decodeSymbol t state with
      | .error f => .error f
      | .ok s =>
        match nextState t state br with
        | .error f => .error f
        | .ok (state', br') => decodeLoop t fuel state' br' (s :: outRev)
    else .ok (br, outRev)

/-- one backward stream: padding, initial state, symbols.  `check` = the 4-stream variant, which
verifies `bits_remaining == -max_num_bits` afterwards. -/
def decodeOneStream (t : DecTable) (stream : List Nat) (check : Bool) (outRev : List Nat) : DRes LitErr (List Nat) :=
  let br := RevReader.new stream
  let (skipped, br) := skipPadding 9 0 br
  if skipped > Gen.hufMaxSkip then .error (.err (.extraPadding skipped))
  else
    let (state, br) := initState t br
    match decodeLoop t (8 * stream.length + t.maxNumBits + 1) state br outRev with
    | .error f => .error (.fault f)
    | .ok (br, outRev) =>
      if check ∧ br.bitsRemaining ≠ -(t.maxNumBits : Int) then
        .error (.err (.bitstreamReadMismatch br.bitsRemaining (-(t.maxNumBits : Int))))
      else .ok outRev

/-- `LiteralsSectionType` -/
inductive LitType where
  | raw | rle | compressed | treeless
  deriving Repr, DecidableEq

/-- `LiteralsSection` -/
structure LitSection where
  lsType : LitType
  regeneratedSize : Nat
  compressedSize : Option Nat
  numStreams : Option Nat
  deriving Repr, DecidableEq

/-- `decompress_literals`: new table state and (new target, bytes read) -/
def decompressLiterals (sec : LitSection) (t : DecTable) (source : List Nat) (target : List Nat) :
    DecTable × DRes LitErr (List Nat × Nat) :=
  match sec.compressedSize with
  | none => (t, .error (.err .missingCompressedSize))
  | some csize =>
    match sec.numStreams with
    | none => (t, .error (.err .missingNumStreams))
    | some nstreams =>
      if source.length < csize then (t, .error (.fault (.index "literals_section_decoder.rs:source[0..compressed_size]")))
      else
        let source := source.take csize
        let step1 : DecTable × DRes LitErr Nat :=
          match sec.lsType with
          | .compressed =>
            match buildDecoder t source with
            | (t', .ok used) => (t', .ok used)
            | (t', .error (.err e)) => (t', .error (.err (.huf e)))
            | (t', .error (.fault f)) => (t', .error (.fault f))
          | .treeless => if t.maxNumBits = 0 then (t, .error (.err .uninitializedHuffmanTable)) else (t, .ok 0)
          | _ => (t, .ok 0)
        match step1 with
        | (t, .error e) => (t, .error e)
        | (t, .ok bytesRead) =>
          let source := source.drop bytesRead
          let res : DRes LitErr (List Nat × Nat) :=
            if nstreams = 4 then
              if Gen.hufJumpHeaderMissing source.length Gen.hufJumpHeaderLen then
                .error (.err (.missingBytesForJumpHeader source.length))
              else
                match source with
                | b0 :: b1 :: b2 :: b3 :: b4 :: b5 :: src =>
                  let jump1 := b0 + b1 * 256
                  let jump2 := jump1 + b2 + b3 * 256
                  let jump3 := jump2 + b4 + b5 * 256
                  if Gen.hufJumpTooFar src.length jump3 then .error (.err (.missingBytesForLiterals src.length jump3))
                  else
                    let s1 := src.take jump1
                    let s2 := (src.drop jump1).take (jump2 - jump1)
                    let s3 := (src.drop jump2).take (jump3 - jump2)
                    let s4 := src.drop jump3
                    match decodeOneStream t s1 true target.reverse with
                    | .error e => .error e
                    | .ok o1 =>
                      match decodeOneStream t s2 true o1 with
                      | .error e => .error e
                      | .ok o2 =>
                        match decodeOneStream t s3 true o2 with
                        | .error e => .error e
                        | .ok o3 =>
                          match decodeOneStream t s4 true o3 with
                          | .error e => .error e
                          | .ok o4 => .ok (o4.reverse, bytesRead + 6 + src.length)
                | _ => .error (.fault (.index "literals_section_decoder.rs:source[0..6]"))
            else if nstreams ≠ 1 then .error (.fault (.assert "literals_section_decoder.rs:num_streams==1"))
            else
              match decodeOneStream t source false target.reverse with
              | .error e => .error e
              | .ok o => .ok (o.reverse, bytesRead + source.length)
          match res with
          | .error e => (t, .error e)
          | .ok (target', n) =>
            if target'.length ≠ sec.regeneratedSize then
              (t, .error (.err (.decodedLiteralCountMismatch target'.length sec.regeneratedSize)))
            else (t, .ok (target', n))

/-- `decode_literals` -/
def decodeLiterals (sec : LitSection) (t : DecTable) (source : List Nat) (target : List Nat) :
    DecTable × DRes LitErr (List Nat × Nat) :=
  match sec.lsType with
  | .raw =>
    if source.length < sec.regeneratedSize then (t, .error (.fault (.index "literals_section_decoder.rs:source[0..regenerated_size]")))
    else (t, .ok (target ++ source.take sec.regeneratedSize, sec.regeneratedSize))
  | .rle =>
    match source with
    | [] => (t, .error (.fault (.index "literals_section_decoder.rs:source[0]")))
    | b :: _ => (t, .ok (target ++ List.replicate sec.regeneratedSize b, 1))
  | _ => decompressLiterals sec t source target

end Zstd.Model.Huf
