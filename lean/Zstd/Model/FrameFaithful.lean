import Zstd.Model.BlockDecode
/-
Instance B of the frame-level model's block decoder: the FAITHFUL block decoder
`Blk.decompressBlock` (Model/BlockDecode.lean) with the real scratch state `Blk.Scratch`
(Huffman table, the three FSE tables with their RLE symbols, the offset history).

With this instance `Zstd.Model.Decoder Blk.Scratch` mirrors the Rust `FrameDecoder` also on
MALFORMED block content: every leniency and every error variant family of `decompress_block`
(`literalsHeader` / `literalsTooLarge` / `malformedSection` / `literals` / `seqHeader` /
`sequences` / the `exec…` errors) is the one the code reports, and the scratch is left as the
code leaves it.  This is the instance the drivers of engines `dec`, `hostile`, `reuse`, `dict`,
`mem` run (Driver/Dec.lean); the frame-level theorems (Props C01 C03 C05 C06 C07 C08 C09 C10) are
proved for every instance that satisfies `BlockContract` (Proofs/FrameDecoderContract.lean), and
`Proofs/FrameFaithful.lean` proves that contract for this instance.

Also here: the faithful mirror of `Dictionary::decode_dict` (decoding/dictionary.rs), producing a
`Dict Blk.Scratch` (= what `DecoderScratch::init_from_dict` copies into the scratch).
-/
namespace Zstd.Model.Blk
open Zstd Zstd.Model

/-- the frame-level error a block-level error family is reported as -/
def BlkErr.toDErr : BlkErr → DErr
  | .literalsHeader => .literalsHeader
  | .literalsTooLarge n => .literalsTooLarge n
  | .malformedSection => .malformedSection
  | .literals => .literals
  | .seqHeader => .seqHeader
  | .sequences => .sequences
  | .exec e => e

def BOut.toOut : BOut → Out Unit
  | .ok => .ok ()
  | .err e => .err e.toDErr
  | .fault f => .fault f

/-! ### `decompress_block` = (a part that does not look at the decode buffer) ; (one buffer operation)

Everything `decompress_block` does before sequence execution — literals header, literals, sequences
header, FSE tables, the sequence stream — reads the block content and the scratch only.  `stage`
is that part; it ends in one of three ways, and `Stage.apply` is the buffer operation that follows.
`Proofs/FrameFaithful.lean` proves `decompressBlock content s b = (stage content s).apply b`; the
ghost offsets of the instance and the whole `BlockContract` come from this factorisation. -/

inductive Stage where
  /-- return without touching the buffer (every error / fault before execution) -/
  | stop (s : Scratch) (lits : List Nat) (o : BOut)
  /-- no sequences: `buffer.push(literals)` -/
  | push (s : Scratch) (lits : List Nat)
  /-- `execute_sequences` -/
  | exec (s : Scratch) (lits : List Nat) (seqs : List Spec.Seq)

def Stage.apply : Stage → DBuf → (Scratch × DBuf × List Nat × List Spec.Seq) × BOut
  | .stop s lits o, b => ((s, b, lits, []), o)
  | .push s lits, b => ((s, b.push lits.toArray, lits, []), .ok)
  | .exec s lits seqs, b =>
    match executeSequences seqs lits s.hist 0 b with
    | ((b', h), .ok ()) => (({ s with hist := h }, b', lits, seqs), .ok)
    | ((b', h), .err e) => (({ s with hist := h }, b', lits, seqs), .err (.exec e))
    | ((b', h), .fault f) => (({ s with hist := h }, b', lits, seqs), .fault f)

/-- `decompressBody` without the buffer -/
def stageBody (s : Scratch) (sec : Hdr.LitSection) (raw : List Nat) (upper : Nat) : Stage :=
  if raw.length < upper then .stop s [] (.err .malformedSection) else
  let lsec : Huf.LitSection := { lsType := litTypeOf sec.ty, regeneratedSize := sec.regen,
                                 compressedSize := sec.comp, numStreams := sec.streams }
  match Huf.decodeLiterals lsec s.huf (raw.take upper) [] with
  | (huf, .error (.fault f)) => .stop { s with huf := huf } [] (.fault f)
  | (huf, .error (.err _)) => .stop { s with huf := huf } [] (.err .literals)
  | (huf, .ok (lits, used)) =>
    let s := { s with huf := huf }
    if sec.regen ≠ lits.length then .stop s lits (.fault (.assert "block_decoder.rs:decompress_block:Wrong number of literals"))
    else if used ≠ upper then .stop s lits (.fault (.assert "block_decoder.rs:decompress_block:bytes_used_in_literals_section"))
    else
      let raw2 := raw.drop upper
      match parseSeqHeader raw2 with
      | .error _ => .stop s lits (.err .seqHeader)
      | .ok (n, modes, shLen) =>
        let raw3 := raw2.drop shLen
        if n ≠ 0 then
          match decodeSequences n modes raw3 s.fse with
          | (fse, .error (.fault f)) => .stop { s with fse := fse } lits (.fault f)
          | (fse, .error _) => .stop { s with fse := fse } lits (.err .sequences)
          | (fse, .ok seqs) => .exec { s with fse := fse } lits seqs
        else
          if !raw3.isEmpty then .stop s lits (.err .sequences)
          else .push s lits

/-- `decompressBlock` without the buffer -/
def stage (content : List Nat) (s : Scratch) : Stage :=
  match Hdr.parseLitHeader Hdr.LitSection.new content with
  | .error (.fault f) => .stop s [] (.fault f)
  | .error _ => .stop s [] (.err .literalsHeader)
  | .ok (sec, hdrLen) =>
    let raw := content.drop hdrLen
    if sec.regen > Gen.maxBlockSize then .stop s [] (.err (.literalsTooLarge sec.regen)) else
    match upperLimit sec with
    | .error f => .stop s [] (.fault f)
    | .ok upper => stageBody s sec raw upper

/-- the block decoder of instance B, in the shape the frame-level model calls it -/
def run (content : List Nat) (s : Scratch) (b : DBuf) : (DBuf × Scratch) × Out Unit :=
  match decompressBlock content s b with
  | ((s', b', _, _), o) => ((b', s'), o.toOut)

/-- ghost: the offsets the block's sequences resolve to (in order, against the repeat-offset
history the block starts with) -/
def offsets (content : List Nat) (s : Scratch) : List Nat :=
  match stage content s with
  | .exec s' _ seqs => resolvedOffsets seqs s'.hist
  | _ => []

end Zstd.Model.Blk

namespace Zstd.Model

/-- **instance B**: the faithful block decoder.  `fresh` = the scratch of a new decoder; the code's
`DecoderScratch::reset` (`Blk.Scratch.reset`) gives the same value on every scratch whose FSE
tables have the standard alphabets, which is an invariant of the block decoder
(`Blk.decompressBlock_alphabets`, Proofs/BlockNoFault.lean). -/
instance instBlockDecFaithful : BlockDec Blk.Scratch where
  fresh := {}
  run := Blk.run
  offsets := Blk.offsets

/-- the decoder the drivers run -/
abbrev DecB := Decoder Blk.Scratch

end Zstd.Model

namespace Zstd.Model.Blk
open Zstd Zstd.Model

/-! ### `Dictionary::decode_dict` -/

def le32 (l : List Nat) : Nat :=
  l.headD 0 + 256 * ((l.drop 1).headD 0) + 65536 * ((l.drop 2).headD 0) + 16777216 * ((l.drop 3).headD 0)

/-- `Dictionary::decode_dict(raw)` (decoding/dictionary.rs:47-137): `none` = any
`DictionaryDecodeError`.  The tables are built by the same `build_decoder`s the block decoder uses,
with the same leniencies; the resulting entropy state is what `init_from_dict` (`reinit_from` on
the three FSE tables and the Huffman table, the RLE symbols, `offset_hist`) installs. -/
def decodeDict (raw : List Nat) : Except Fault (Option (Dict Scratch)) :=
  if raw.length < 8 then .ok none else
  if raw.take 4 ≠ [0x37, 0xA4, 0x30, 0xEC] then .ok none else
  let id := le32 (raw.drop 4)
  let t0 := raw.drop 8
  match Huf.buildDecoder Huf.DecTable.empty t0 with
  | (_, .error (.fault f)) => .error f
  | (_, .error (.err _)) => .ok none
  | (huf, .ok hufSize) =>
    if t0.length < hufSize then .ok none else
    let t1 := t0.drop hufSize
    match (Fse.DTable.new Gen.maxOffsetCode).buildDecoder t1.toArray Gen.ofMaxLog with
    | (_, .error (.fault f)) => .error f
    | (_, .error _) => .ok none
    | (ofT, .ok ofSize) =>
      if t1.length < ofSize then .ok none else
      let t2 := t1.drop ofSize
      match (Fse.DTable.new Gen.maxMatchLengthCode).buildDecoder t2.toArray Gen.mlMaxLog with
      | (_, .error (.fault f)) => .error f
      | (_, .error _) => .ok none
      | (mlT, .ok mlSize) =>
        if t2.length < mlSize then .ok none else
        let t3 := t2.drop mlSize
        match (Fse.DTable.new Gen.maxLiteralLengthCode).buildDecoder t3.toArray Gen.llMaxLog with
        | (_, .error (.fault f)) => .error f
        | (_, .error _) => .ok none
        | (llT, .ok llSize) =>
          if t3.length < llSize then .ok none else
          let t4 := t3.drop llSize
          if t4.length < 12 then .ok none else
          .ok (some { id := id,
                      entropy := { huf := huf,
                                   fse := { offsets := ofT, matchLengths := mlT, literalLengths := llT },
                                   hist := (le32 t4, le32 (t4.drop 4), le32 (t4.drop 8)) },
                      content := (t4.drop 12).toArray })

end Zstd.Model.Blk
