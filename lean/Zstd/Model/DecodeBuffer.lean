import Zstd.Model.RingBuffer
/-
Model of `ruzstd/src/decoding/decode_buffer.rs`: the decoder's output window on top of the ring.

A Rust panic is `Except.error (f : Fault)` (the state is gone).  A Rust `Err(..)` is an ordinary
return value next to the state the call leaves behind, because callers keep using the buffer.
The hasher is abstract: `hash` is the list of bytes fed to it so far, in order.
`total_output_counter` is a `u64`; its overflow (2^64 bytes of output) is not modelled.
-/
namespace Zstd.Model

/-- the chunk size of `copy_bytes_overshooting` on this target (`size_of::<u128>()`, SSE2/NEON),
extracted from the source -/
def copyChunk : Nat := Gen.ringCopyChunk

/-- `DecodeBufferError` -/
inductive DecodeBufferError where
  | notEnoughBytesInDictionary (got need : Nat)
  | offsetTooBig (offset bufLen : Nat)
  deriving Repr, DecidableEq

/-- an I/O error of a sink, opaque -/
abbrev IoErr := Nat

/-- The Rust loop never terminates on these arguments.  `Fault` has no constructor for that; the
site string says so. -/
def hang (site : String) : Fault := .unreachable ("hang:" ++ site)

structure DecodeBuffer where
  buffer : RingBuffer := {}
  dict : List Byte := []
  windowSize : Nat := 0
  /-- `total_output_counter` -/
  total : Nat := 0
  /-- bytes fed to the XXH64 hasher so far -/
  hash : List Byte := []

/-! ### sinks -/

/-- one answer of `Write::write(buf)`: take (at most) `k` bytes — `Ok(min k buf.len())`, so
`accept 0` is `Ok(0)` — or fail -/
inductive SinkAns where
  | accept (k : Nat)
  | err (e : IoErr)
  deriving Repr, DecidableEq

/-- a scripted `Write`: the answers still to give (an exhausted script takes everything it is
offered) and the bytes taken so far -/
structure Sink where
  script : List SinkAns := []
  got : List Byte := []

/-- `write_all_bytes(sink, buf)` from `written` on: `(written, result, sink)`.  One script entry per
`sink.write` call. -/
def sinkWriteAllFrom : List SinkAns → List Byte → List Byte → Nat → Nat × Option IoErr × Sink
  | [], got, buf, written =>
    if written < buf.length then (buf.length, none, ⟨[], got ++ buf.drop written⟩) else (written, none, ⟨[], got⟩)
  | s :: rest, got, buf, written =>
    if written < buf.length then
      match s with
      | .accept k =>
        let w := min k (buf.length - written)
        if w = 0 then (written, none, ⟨rest, got⟩)
        else sinkWriteAllFrom rest (got ++ (buf.drop written).take w) buf (written + w)
      | .err e => (written, some e, ⟨rest, got⟩)
    else (written, none, ⟨s :: rest, got⟩)

/-- `write_all_bytes(sink, buf)` -/
def sinkWriteAll (sink : Sink) (buf : List Byte) : Nat × Option IoErr × Sink :=
  sinkWriteAllFrom sink.script sink.got buf 0

namespace DecodeBuffer

def new (windowSize : Nat) : DecodeBuffer := { windowSize := windowSize }

/-- `reset(window_size)` -/
def reset (d : DecodeBuffer) (windowSize : Nat) : Except Fault DecodeBuffer :=
  d.buffer.clear.reserve windowSize >>= fun b =>
  pure { buffer := b, dict := [], windowSize := windowSize, total := 0, hash := [] }

/-- `len()` -/
def len (d : DecodeBuffer) : Except Fault Nat := d.buffer.lenC

/-- `extend_and_fill` -/
def extendAndFill (d : DecodeBuffer) (b : Byte) (n : Nat) : Except Fault DecodeBuffer :=
  d.buffer.extendAndFill b n >>= fun r => pure { d with buffer := r }

/-- `extend_from_reader`: `(buffer, returned Ok?, reader rest)` -/
def extendFromReader (d : DecodeBuffer) (avail : List Byte) (n : Nat) :
    Except Fault (DecodeBuffer × Bool × List Byte) :=
  d.buffer.extendFromReader avail n >>= fun res => pure ({ d with buffer := res.1 }, res.2)

/-- `push(data)` -/
def push (d : DecodeBuffer) (data : List Byte) : Except Fault DecodeBuffer :=
  d.buffer.extend data >>= fun r => pure { d with buffer := r, total := d.total + data.length }

/-- the `while copied_counter_left > 0` loop of `repeat_in_chunks`.  `fuel` bounds the number of
iterations; with `offset > 0` every iteration copies at least one byte, so `fuel = match_length`
suffices.  With `offset = 0` and `match_length > 0` the Rust loop spins forever (chunk size 0). -/
def repeatInChunks (C : Nat) : Nat → RingBuffer → Nat → Nat → Nat → Except Fault RingBuffer
  | 0, r, _, left, _ =>
    if left > 0 then .error (hang "decode_buffer.rs:repeat_in_chunks") else .ok r
  | fuel + 1, r, offset, left, startIdx =>
    if left > 0 then
      let chunk := min offset left
      r.extendFromWithinUnchecked C startIdx chunk >>= fun r' =>
      repeatInChunks C fuel r' offset (left - chunk) (startIdx + chunk)
    else .ok r

/-- `repeat(offset, match_length)` together with `repeat_from_dict`, which calls back into `repeat`
(once: the continuation has `offset = buffer.len()`); `fuel` is the recursion depth allowed. -/
def repeatF (C : Nat) : Nat → DecodeBuffer → Nat → Nat →
    Except Fault (DecodeBuffer × Except DecodeBufferError Unit)
  | 0, _, _, _ => .error (.unreachable "decode_buffer.rs:repeat:recursion deeper than one continuation")
  | fuel + 1, d, offset, ml =>
    d.buffer.lenC >>= fun bufLen =>
    if offset > bufLen then
      -- repeat_from_dict
      if d.total ≤ d.windowSize then
        let bytesFromDict := offset - bufLen
        if bytesFromDict > d.dict.length then
          pure (d, .error (.notEnoughBytesInDictionary d.dict.length bytesFromDict))
        else if bytesFromDict < ml then
          let dictSlice := d.dict.drop (d.dict.length - bytesFromDict)
          d.buffer.extend dictSlice >>= fun b =>
          let d := { d with buffer := b, total := d.total + bytesFromDict }
          d.buffer.lenC >>= fun l' =>
          repeatF C fuel d l' (ml - bytesFromDict)
        else
          let low := d.dict.length - bytesFromDict
          -- `&self.dict_content[low..low + match_length]`; NOTE: the counter is not advanced on this path
          d.buffer.extend ((d.dict.drop low).take ml) >>= fun b =>
          pure ({ d with buffer := b }, .ok ())
      else pure (d, .error (.offsetTooBig offset bufLen))
    else
      let startIdx := bufLen - offset
      let endIdx := startIdx + ml
      d.buffer.reserve ml >>= fun b =>
      (if endIdx > bufLen then repeatInChunks C ml b offset ml startIdx
       else b.extendFromWithinUnchecked C startIdx ml) >>= fun b' =>
      pure ({ d with buffer := b', total := d.total + ml }, .ok ())

/-- `repeat(offset, match_length)` -/
def «repeat» (C : Nat) (d : DecodeBuffer) (offset ml : Nat) :
    Except Fault (DecodeBuffer × Except DecodeBufferError Unit) :=
  repeatF C 2 d offset ml

/-- `can_drain_to_window_size()` -/
def canDrainToWindowSize (d : DecodeBuffer) : Except Fault (Option Nat) :=
  d.buffer.lenC >>= fun l => pure (if l > d.windowSize then some (l - d.windowSize) else none)

/-- `can_drain()` -/
def canDrain (d : DecodeBuffer) : Except Fault Nat := d.buffer.lenC

/-- `drain()`: everything, hashed, buffer cleared -/
def drain (d : DecodeBuffer) : Except Fault (DecodeBuffer × List Byte) :=
  d.buffer.asSlices >>= fun res =>
  pure ({ d with buffer := res.2.clear, hash := d.hash ++ res.1.1 ++ res.1.2 }, res.1.1 ++ res.1.2)

/-- what `DrainGuard::drop` does -/
def guardDrop (b : RingBuffer) (amount : Nat) : Except Fault RingBuffer :=
  if amount ≠ 0 then b.dropFirstN amount else pure b

/-- `drain_to(amount, write_bytes)`.  `wb` is the closure: given its state and the offered bytes it
answers `(written, result, state)` (or panics).  Returns the buffer, the closure state and the
`Result<usize, Error>`.  `&slice[..written]` is an index panic when the closure claims more than the
slice holds. -/
def drainTo {σ : Type} (d : DecodeBuffer) (amount : Nat)
    (wb : σ → List Byte → Except Fault (Nat × Option IoErr × σ)) (s : σ) :
    Except Fault (DecodeBuffer × σ × Except IoErr Nat) :=
  if amount = 0 then pure (d, s, .ok 0) else
  d.buffer.asSlices >>= fun res =>
  let slice1 := res.1.1
  let slice2 := res.1.2
  let b := res.2
  let n1 := min slice1.length amount
  let n2 := min slice2.length (amount - n1)
  if n1 ≠ 0 then
    wb s (slice1.take n1) >>= fun r1 =>
    let written1 := r1.1
    check (written1 ≤ slice1.length) "decode_buffer.rs:drain_to:&slice1[..written1]" >>= fun _ =>
    let hash1 := d.hash ++ slice1.take written1
    match r1.2.1 with
    | some e =>
      guardDrop b written1 >>= fun b' => pure ({ d with buffer := b', hash := hash1 }, r1.2.2, .error e)
    | none =>
      if written1 = n1 ∧ n2 ≠ 0 then
        wb r1.2.2 (slice2.take n2) >>= fun r2 =>
        let written2 := r2.1
        check (written2 ≤ slice2.length) "decode_buffer.rs:drain_to:&slice2[..written2]" >>= fun _ =>
        let hash2 := hash1 ++ slice2.take written2
        guardDrop b (written1 + written2) >>= fun b' =>
        match r2.2.1 with
        | some e => pure ({ d with buffer := b', hash := hash2 }, r2.2.2, .error e)
        | none => pure ({ d with buffer := b', hash := hash2 }, r2.2.2, .ok (written1 + written2))
      else
        guardDrop b written1 >>= fun b' =>
        pure ({ d with buffer := b', hash := hash1 }, r1.2.2, .ok written1)
  else
    pure ({ d with buffer := b }, s, .ok 0)

/-- the closure of `read` / `read_all`: copy into `target[written..][..buf.len()]`; the state is
`(target.len(), bytes stored so far)` -/
def targetClosure (st : Nat × List Byte) (buf : List Byte) : Except Fault (Nat × Option IoErr × (Nat × List Byte)) :=
  check (st.2.length + buf.length ≤ st.1) "decode_buffer.rs:read:target[written..][..buf.len()]" >>= fun _ =>
  pure (buf.length, none, (st.1, st.2 ++ buf))

/-- the closure of `drain_to_window_size`: `vec.extend_from_slice(buf)` -/
def vecClosure (st : List Byte) (buf : List Byte) : Except Fault (Nat × Option IoErr × List Byte) :=
  pure (buf.length, none, st ++ buf)

/-- the closure of the `*_writer` functions -/
def sinkClosure (st : Sink) (buf : List Byte) : Except Fault (Nat × Option IoErr × Sink) :=
  pure (sinkWriteAll st buf)

/-- `<DecodeBuffer as Read>::read(target)` with `target.len() = targetLen`: the bytes stored in the
prefix of `target` and the `Result` -/
def read (d : DecodeBuffer) (targetLen : Nat) : Except Fault (DecodeBuffer × List Byte × Except IoErr Nat) :=
  d.canDrainToWindowSize >>= fun c =>
  let amount := min (c.getD 0) targetLen
  d.drainTo amount targetClosure (targetLen, []) >>= fun res =>
  pure (res.1, res.2.1.2, match res.2.2 with | .ok _ => .ok amount | .error e => .error e)

/-- `read_all(target)` -/
def readAll (d : DecodeBuffer) (targetLen : Nat) : Except Fault (DecodeBuffer × List Byte × Except IoErr Nat) :=
  d.buffer.lenC >>= fun l =>
  let amount := min l targetLen
  d.drainTo amount targetClosure (targetLen, []) >>= fun res =>
  pure (res.1, res.2.1.2, match res.2.2 with | .ok _ => .ok amount | .error e => .error e)

/-- `drain_to_window_size()` -/
def drainToWindowSize (d : DecodeBuffer) : Except Fault (DecodeBuffer × Option (List Byte)) :=
  d.canDrainToWindowSize >>= fun c =>
  match c with
  | none => pure (d, none)
  | some canDrain =>
    d.drainTo canDrain vecClosure [] >>= fun res =>
    pure (res.1, match res.2.2 with | .ok _ => some res.2.1 | .error _ => none)

/-- `drain_to_window_size_writer(sink)` -/
def drainToWindowSizeWriter (d : DecodeBuffer) (sink : Sink) :
    Except Fault (DecodeBuffer × Sink × Except IoErr Nat) :=
  d.canDrainToWindowSize >>= fun c =>
  match c with
  | none => pure (d, sink, .ok 0)
  | some canDrain => d.drainTo canDrain sinkClosure sink

/-- `drain_to_writer(sink)` -/
def drainToWriter (d : DecodeBuffer) (sink : Sink) : Except Fault (DecodeBuffer × Sink × Except IoErr Nat) :=
  d.buffer.lenC >>= fun l => d.drainTo l sinkClosure sink

end DecodeBuffer

end Zstd.Model
