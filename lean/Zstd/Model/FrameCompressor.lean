import Zstd.Basic
import Zstd.Gen.Consts
import Zstd.Gen.Guards
import Zstd.Gen.Enc
import Zstd.Model.SeqCodes
import Zstd.Spec.Xxh64
/-
Model of the frame/block level of the encoder.

Rust anchors
  encoding/frame_compressor.rs   `FrameCompressor::compress` (per-frame reset, header, read loop,
                                 `last_block` logic, empty block, level dispatch, checksum trailer)
  encoding/levels/fastest.rs     `compress_fastest` (RLE / compressed / raw fallback, F5 repair)
  encoding/block_header.rs       `BlockHeader::serialize`
  encoding/frame_header.rs       `FrameHeader::serialize` — ONLY the bytes `compress` can produce
                                 (magic, descriptor, window descriptor).  LOCAL COPY, to be replaced by
                                 `Model/Headers.lean` of the C14 slice (marked `-- C14:`).
  encoding/blocks/compressed.rs  `compress_block` down to the entropy coders, `raw_literals`

External things are parameters:
  * the source (`Read`): `data` plus a fragmentation script `frags` (requested chunk sizes);
  * the user `Matcher`: `window : Nat` (`window_size()`), and per `get_next_space` call an `MBlock`
    (size of the space, what `start_matching` reports for it);
  * the block encoder `compress_block`: `enc : BlockEnc H` in the generic definitions/theorems;
    `compressBlock cd` is the concrete one over abstract entropy coders `cd : Coders H`
    (`H` = the encoder-side Huffman table type, supplied by the C13 slice);
  * cargo feature `hash`: `hash : Bool`.

Every comparison operator, constant and "is this statement present" fact that the properties depend
on is taken from `Zstd.Gen.*` (regenerated from the source text on every run).
-/
namespace Zstd.Model.Enc
open Zstd

/-- `CompressionLevel` -/
inductive Level where
  | uncompressed | fastest | default | better | best
  deriving Repr, DecidableEq, Inhabited

/-- `Sequence::Triple { literals, offset, match_len }` -/
structure MSeq where
  lits : List Byte
  offset : Nat
  matchLen : Nat
  deriving Repr, DecidableEq, Inhabited

/-- what `start_matching` reports for one committed space: the triples in order and the final
`Sequence::Literals` (`[]` when none is reported) -/
structure Parse where
  seqs : List MSeq := []
  tail : List Byte := []
  deriving Repr, DecidableEq, Inhabited

/-- script entry for one `get_next_space` call -/
structure MBlock where
  space : Nat
  parse : Parse := {}
  deriving Repr, Inhabited

/-- `CompressState` minus the matcher.  `fse_tables.*_previous` are write-only in the current code
(`choose_table` never looks at them; the extractor checks that anchor), so they carry no
information and are omitted. -/
structure EncState (H : Type) where
  lastHuff : Option H := none

/-- the block encoder as a parameter: `compress_block(state, &mut compressed)` -/
abbrev BlockEnc (H : Type) := Parse → EncState H → Except Fault (List Byte × EncState H)

def outOfFuel : Fault := .assert "model:out-of-fuel"

/-! ### headers -/

/-- `BlockHeader::serialize` for a non-reserved type (`ty` already mapped by the `match`);
`size` is a `u32`: `<<` drops the bits shifted out, silently. -/
def blockHeader (last : Bool) (ty size : Nat) : List Byte :=
  let v := ((size <<< Gen.blockSizeShift) % 2 ^ 32) ||| (ty <<< Gen.blockTypeShift) ||| (if last then 1 else 0)
  leBytes Gen.blockHeaderBytes v

/-- `u64::next_power_of_two` (mathematical value) -/
def nextPowerOfTwo (n : Nat) : Nat := if n ≤ 1 then 1 else 2 ^ (Nat.log2 (n - 1) + 1)

/-- C14: `FrameHeader::serialize`, window descriptor byte from `Matcher::window_size()`.
`next_power_of_two` overflows above 2^63 (panic in a debug build); `exponent as u8` and
`exponent << 3` truncate silently. -/
def windowDescriptor (w : Nat) : Except Fault Byte :=
  let p := nextPowerOfTwo w
  if p ≥ 2 ^ 64 then .error (.overflow "frame_header.rs:serialize:next_power_of_two")
  else
    let log := Nat.log2 p
    if Gen.windowLogGuard log Gen.windowLogK then
      (if log < Gen.windowLogSub then .error (.overflow "frame_header.rs:serialize:log-10")
       else .ok ((((log - Gen.windowLogSub) % 256) <<< Gen.windowExpShift) % 256))
    else .ok (((Gen.windowLogElse % 256) <<< Gen.windowExpShift) % 256)

/-- C14: `FrameHeader::descriptor()` for `{frame_content_size: None, single_segment: false,
content_checksum: hash, dictionary_id: None, window_size: Some(_)}`: only the checksum bit (bit 2). -/
def frameDescriptor (hash : Bool) : Byte := if hash then 4 else 0

/-- the `window_size` field `compress` puts into the header for a matcher with `window_size() = w`:
since the repair of F13 at least `MAX_BLOCK_SIZE`, because a block may be as large as a space
(up to 128 KiB) whatever window the matcher searches in, and Block_Maximum_Size =
min(Window_Size, 128 KiB).  Presence of the `.max(..)` is extracted from the source. -/
def headerWindow (w : Nat) : Nat :=
  if Gen.frameDeclaresAtLeastMaxBlock then max w Gen.maxBlockSize else w

/-- C14: the frame header `compress` writes: magic (4, LE), descriptor, window descriptor -/
def frameHeader (hash : Bool) (w : Nat) : Except Fault (List Byte) :=
  match windowDescriptor (headerWindow w) with
  | .error f => .error f
  | .ok wd => .ok (leBytes 4 Gen.magicNum ++ [frameDescriptor hash, wd])

/-- Window_Size the header declares (what the decoder will use) -/
def declaredWindow (w : Nat) : Nat :=
  match windowDescriptor (headerWindow w) with
  | .ok wd => 2 ^ (10 + wd / 8)
  | .error _ => 0

/-! ### the source -/

/-- one `source.read(&mut buf)` with `cap = buf.len()`: a script entry `f` asks for `f` bytes,
clipped to `1 ..= cap`; the reader returns 0 only at the end of the data (or for an empty buffer).
Returns (bytes delivered, remaining data, remaining script). -/
def readOnce (data : List Byte) (frags : List Nat) (cap : Nat) : List Byte × List Byte × List Nat :=
  let want := match frags with
    | [] => cap
    | f :: _ => min (max f 1) cap
  let n := min want data.length
  (data.take n, data.drop n, frags.tail)

/-- the `'read_loop`: fill a space of `space` bytes.  `none` = out of fuel (never with
`fuel > data.length`, theorem `readLoop_spec`).  Returns (block, last_block, data left, script left). -/
def readLoop : Nat → Nat → List Byte → List Byte → List Nat →
    Option (List Byte × Bool × List Byte × List Nat)
  | 0, _, _, _, _ => none
  | fuel + 1, space, acc, data, frags =>
    -- `source.read(&mut uncompressed_data[read_bytes..])`
    match readOnce data frags (space - acc.length) with
    | (chunk, data', frags') =>
      if chunk.length = 0 then some (acc, Gen.readZeroMeansLast, data', frags')
      else
        let acc' := acc ++ chunk
        if Gen.readFullGuard acc'.length space then some (acc', Gen.readFullMeansLast, data', frags')
        else readLoop fuel space acc' data' frags'

/-! ### block emission -/

/-- `compress_fastest(state, last_block, uncompressed_data, output)`; `p` is what the matcher
reports if `start_matching` is called; `get_last_space()` returns the committed block. -/
def compressFastest {H : Type} (enc : BlockEnc H) (last : Bool) (blk : List Byte) (p : Parse)
    (st : EncState H) : Except Fault (List Byte × EncState H) :=
  let blockSize := blk.length % 2 ^ 32            -- `uncompressed_data.len() as u32`
  match blk with
  | [] => .error (.index "fastest.rs:compress_fastest:uncompressed_data[0]")
  | b :: _ =>
    if blk.all (fun x => x == b) then
      .ok (blockHeader last Gen.blockTypeRle blockSize ++ [b], st)
    else
      match enc p st with
      | .error f => .error f
      | .ok (compressed, st') =>
        let csize := compressed.length
        if Gen.fastestRawFallbackPresent &&
            (Gen.rawFallbackVsBlock csize blockSize || Gen.rawFallbackVsMax csize Gen.maxBlockSize) then
          let st'' : EncState H := if Gen.fastestRawForgetsHuff then { st' with lastHuff := none } else st'
          .ok (blockHeader last Gen.blockTypeRaw blockSize ++ blk, st'')
        else
          .ok (blockHeader last Gen.blockTypeCompressed (csize % 2 ^ 32) ++ compressed, st')

/-- the `match self.compression_level` of `compress` for one non-empty block -/
def emitBlock {H : Type} (lvl : Level) (enc : BlockEnc H) (last : Bool) (blk : List Byte) (p : Parse)
    (st : EncState H) : Except Fault (List Byte × EncState H) :=
  match lvl with
  | .uncompressed =>
    -- `block_size: read_bytes.try_into().unwrap()` (usize → u32)
    if blk.length ≥ 2 ^ 32 then .error (.unwrap "frame_compressor.rs:compress:read_bytes.try_into()")
    else .ok (blockHeader last Gen.blockTypeRaw blk.length ++ blk, st)
  | .fastest => compressFastest enc last blk p st
  | _ => .error (.unimplemented "frame_compressor.rs:compress:level")

/-- result of the block loop: bytes of all blocks, what the hasher has seen, final state,
number of `get_next_space` calls so far -/
structure LoopOut (H : Type) where
  bytes : List Byte
  hashed : List Byte
  st : EncState H
  idx : Nat

/-- the per-block emitter of the loop: `(last_block, block, matcher parse, state) ↦ bytes, state` -/
abbrev Emit (H : Type) := Bool → List Byte → Parse → EncState H → Except Fault (List Byte × EncState H)

/-- the outer `loop` of `compress`, generic in the per-block emitter (`emitBlock lvl enc` in
`compressFrame`).  Fuel: every iteration but the last consumes at least one byte of `data`, so
`data.length + 1` suffices (theorem `compressLoop_no_fuel_fault`). -/
def compressLoop {H : Type} (emit : Emit H) (script : Nat → MBlock) :
    Nat → Nat → EncState H → List Byte → List Byte → List Nat → Except Fault (LoopOut H)
  | 0, _, _, _, _, _ => .error outOfFuel
  | fuel + 1, idx, st, hashed, data, frags =>
    let mb := script idx                                     -- `get_next_space()`
    match readLoop (data.length + 1) mb.space [] data frags with
    | none => .error outOfFuel
    | some (blk, last, data', frags') =>
      let hashed' := if Gen.hashesInputBlock then hashed ++ blk else hashed
      if blk.isEmpty then
        -- "totally empty file" special case; also the extra block after a full last block
        .ok ⟨blockHeader true Gen.blockTypeRaw 0, hashed', st, idx + 1⟩
      else
        match emit last blk mb.parse st with
        | .error f => .error f
        | .ok (bytes, st') =>
          if last then .ok ⟨bytes, hashed', st', idx + 1⟩
          else
            match compressLoop emit script fuel (idx + 1) st' hashed' data' frags' with
            | .error f => .error f
            | .ok r => .ok { r with bytes := bytes ++ r.bytes }

/-- the `FrameCompressor` object between calls -/
structure Compressor (H : Type) where
  level : Level
  st : EncState H := {}
  /-- bytes written into `self.hasher` since it was last seeded -/
  hasher : List Byte := []
  /-- `get_next_space` calls since the matcher was last reset -/
  matcherIdx : Nat := 0

/-- `FrameCompressor::new(level)` / `new_with_matcher(_, level)` -/
def Compressor.fresh {H : Type} (lvl : Level) : Compressor H := { level := lvl }

/-- `FrameCompressor::compress` with the source and the drain set.  `w` = `window_size()` after the
reset, `script` = the matcher's behaviour after the reset.  Output: the bytes written to the drain. -/
def compressFrame {H : Type} (hash : Bool) (enc : BlockEnc H) (c : Compressor H) (w : Nat)
    (script : Nat → MBlock) (data : List Byte) (frags : List Nat) :
    Except Fault (List Byte × Compressor H) :=
  let idx0 := if Gen.frameResetsMatcher then 0 else c.matcherIdx
  let st0 : EncState H := if Gen.frameResetsHuff then { c.st with lastHuff := none } else c.st
  let hashed0 := if Gen.frameReseedsHasher then [] else c.hasher
  match frameHeader hash w with
  | .error f => .error f
  | .ok hdr =>
    match compressLoop (emitBlock c.level enc) script (data.length + 1) idx0 st0 hashed0 data frags with
    | .error f => .error f
    | .ok r =>
      -- `(self.hasher.finish() as u32).to_le_bytes()`
      let trailer := if hash then leBytes 4 (Spec.Xxh64.checksum32 r.hashed) else []
      .ok (hdr ++ r.bytes ++ trailer, { c with st := r.st, hasher := r.hashed, matcherIdx := r.idx })

/-- `set_compression_level` -/
def Compressor.setLevel {H : Type} (c : Compressor H) (lvl : Level) : Compressor H := { c with level := lvl }

/-- the frame a FRESH compressor writes -/
def compress {H : Type} (hash : Bool) (enc : BlockEnc H) (lvl : Level) (w : Nat) (script : Nat → MBlock)
    (data : List Byte) (frags : List Nat) : Except Fault (List Byte) :=
  (compressFrame hash enc (Compressor.fresh lvl) w script data frags).map (·.1)

/-- one entry of a compressor's history -/
structure Job where
  level : Level
  window : Nat
  script : Nat → MBlock
  data : List Byte
  frags : List Nat

/-- push a list of frames through one compressor; a frame that panics leaves the object in an
arbitrary state, modelled by `after` (any function of the state before) -/
def runHistory {H : Type} (hash : Bool) (enc : BlockEnc H) (after : Compressor H → Compressor H) :
    List Job → Compressor H → Compressor H
  | [], c => c
  | j :: js, c =>
    let c1 := c.setLevel j.level
    match compressFrame hash enc c1 j.window j.script j.data j.frags with
    | .ok (_, c2) => runHistory hash enc after js c2
    | .error _ => runHistory hash enc after js (after c1)

/-- the built-in matcher's frame-level behaviour (`MatchGeneratorDriver::new(slice, n)` with the
production arguments): every space has `slice_size` bytes, `window_size() = n * slice_size`.
What `start_matching` reports is the C17 slice's model; here it is a parameter. -/
def builtinScript (parse : Nat → Parse) : Nat → MBlock := fun i => ⟨Gen.prodSliceSize, parse i⟩
def builtinWindow : Nat := Gen.prodMaxSlices * Gen.prodSliceSize

/-! ### `compress_block` down to the entropy coders -/

/-- `crate::blocks::sequence_section::Sequence` as built by the `start_matching` closure -/
structure RSeq where
  ll : Nat
  ml : Nat
  of : Nat
  deriving Repr, DecidableEq

/-- codes and extra bits of one sequence: `encode_literal_length`, `encode_match_len`,
`encode_offset` results `(code, extra value, extra bits)` -/
structure CodedSeq where
  ll : Nat × Nat × Nat
  ml : Nat × Nat × Nat
  of : Nat × Nat × Nat
  deriving Repr, DecidableEq

/-- the entropy coders as parameters (C12 / C13 slices) -/
structure Coders (H : Type) where
  /-- `compress_literals(literals, last_table, writer)`: the bytes it leaves in the writer and the
  returned `Option<HuffmanTable>` -/
  compressLiterals : List Byte → Option H → Except Fault (List Byte × Option H)
  /-- everything after the sequence count: modes byte, three table descriptions, bitstream -/
  encodeSeqSection : List CodedSeq → Except Fault (List Byte)

/-- the closure of `start_matching`: `ll: literals.len() as u32, ml: match_len as u32,
of: (offset + K) as u32` (`offset + K` is `usize` arithmetic) -/
def toRSeq (s : MSeq) : Except Fault RSeq :=
  if s.offset + Gen.offsetAdd ≥ 2 ^ 64 then .error (.overflow "compressed.rs:compress_block:offset+3")
  else .ok ⟨s.lits.length % 2 ^ 32, s.matchLen % 2 ^ 32, (s.offset + Gen.offsetAdd) % 2 ^ 32⟩

/-- `literals_vec` -/
def parseLiterals (p : Parse) : List Byte := p.seqs.flatMap (·.lits) ++ p.tail

/-- `raw_literals`: 2 bits type 0, 2 bits size format 3, `rawLitSizeBits` bits of size, the bytes.
`write_bits` has `debug_assert!(bits.ilog2() <= num_bits)` (sic): a size of `2^bits .. 2^(bits+1)`
passes it and pollutes the next field; that case is outside every property here and is reported
as a fault of its own. -/
def rawLiterals (lits : List Byte) : Except Fault (List Byte) :=
  let n := lits.length % 2 ^ 32
  if n ≥ 2 ^ (Gen.rawLitSizeBits + 1) then .error (.assert "bit_writer.rs:write_bits_64:debug_assert")
  else if n ≥ 2 ^ Gen.rawLitSizeBits then .error (.assert "compressed.rs:raw_literals:size-field-polluted(not modelled)")
  else .ok (leBytes ((4 + Gen.rawLitSizeBits) / 8) (0 + 3 * 4 + n * 16) ++ lits)

def mapMExcept {α β : Type} (f : α → Except Fault β) : List α → Except Fault (List β)
  | [] => .ok []
  | a :: as =>
    match f a with
    | .error e => .error e
    | .ok b =>
      match mapMExcept f as with
      | .error e => .error e
      | .ok bs => .ok (b :: bs)

/-- the literals section of `compress_block`: `compress_literals` above the threshold (a returned
table replaces `last_huff_table`), `raw_literals` otherwise -/
def litStep {H : Type} (cd : Coders H) (literals : List Byte) (st : EncState H) :
    Except Fault (List Byte × EncState H) :=
  if Gen.litHuffGuard literals.length Gen.litHuffThreshold then
    match cd.compressLiterals literals st.lastHuff with
    | .error f => .error f
    | .ok (bytes, some t) => .ok (bytes, { st with lastHuff := some t })   -- `last_huff_table.replace(table)`
    | .ok (bytes, none) => .ok (bytes, st)
  else
    match rawLiterals literals with
    | .error f => .error f
    | .ok bytes => .ok (bytes, st)

/-- `compress_block` over abstract entropy coders -/
def compressBlock {H : Type} (cd : Coders H) : BlockEnc H := fun p st =>
  let literals := parseLiterals p
  match mapMExcept toRSeq p.seqs with
  | .error f => .error f
  | .ok seqs =>
    match litStep cd literals st with
    | .error f => .error f
    | .ok (litBytes, st') =>
      if seqs.isEmpty then .ok (litBytes ++ [0], st')
      else
        match encodeSeqnum seqs.length with
        | .error f => .error f
        | .ok cnt =>
          -- `choose_table` ×3 walks all sequences through the three code mappings
          match mapMExcept (fun s => encodeLL s.ll) seqs, mapMExcept (fun s => encodeML s.ml) seqs,
                mapMExcept (fun s => encodeOffset s.of) seqs with
          | .ok lls, .ok mls, .ok ofs =>
            let coded := (lls.zip (mls.zip ofs)).map fun (a, b, c) => CodedSeq.mk a b c
            match cd.encodeSeqSection coded with
            | .error f => .error f
            | .ok body => .ok (litBytes ++ cnt ++ body, st')
          | .error f, _, _ => .error f
          | _, .error f, _ => .error f
          | _, _, .error f => .error f

/-- `compress_literals`: the size-format arm for `n` literals, `(format, bits)`;
`.error` = the `unimplemented!("too many literals")` arm -/
def litSizeFormat (n : Nat) : Except Fault (Nat × Nat) :=
  match Gen.litSizeFormatArms.find? (fun (lo, hi, _, _) => lo ≤ n && n < hi) with
  | some (_, _, f, b) => .ok (f, b)
  | none => .error (.unimplemented "compressed.rs:compress_literals:too many literals")

/-! ### what a well-behaved matcher is (C16) -/

/-- copy `n` bytes from `offset` back, byte by byte (overlap allowed) -/
def copyMatch : Nat → Nat → Array Byte → Option (Array Byte)
  | 0, _, out => some out
  | n + 1, offset, out =>
    if offset = 0 ∨ offset > out.size then none
    else
      match out[out.size - offset]? with
      | some b => copyMatch n offset (out.push b)
      | none => none

/-- run a parse on top of `out` (everything the frame produced before the block):
`3 ≤ match_len`, `1 ≤ offset ≤ min w (bytes before the match position)` -/
def execParse (w : Nat) : List MSeq → List Byte → Array Byte → Option (Array Byte)
  | [], tail, out => some (out ++ tail.toArray)
  | s :: rest, tail, out =>
    let out1 := out ++ s.lits.toArray
    if s.matchLen < 3 ∨ s.offset = 0 ∨ s.offset > w ∨ s.offset > out1.size then none
    else
      match copyMatch s.matchLen s.offset out1 with
      | none => none
      | some out2 => execParse w rest tail out2

/-- the parse regenerates exactly `blk` on top of `pre` -/
def validParse (w : Nat) (pre blk : List Byte) (p : Parse) : Bool :=
  match execParse w p.seqs p.tail pre.toArray with
  | some out => out.toList == pre ++ blk
  | none => false

def isConstant (blk : List Byte) : Bool :=
  match blk with
  | [] => true
  | b :: _ => blk.all (fun x => x == b)

/-- offset in the frame of the block of the `i`-th `get_next_space` call -/
def blockStart (script : Nat → MBlock) : Nat → Nat
  | 0 => 0
  | i + 1 => blockStart script i + (script i).space

/-- C16: a well-behaved matcher for `data`.
`space_le` is the trait's documented maximum (128 KiB); the declared window is at least that
(repair of F13), so it is also the format's Block_Maximum_Size; `window_le` is what the one-byte window descriptor written by
`FrameHeader::serialize` can express (`exponent << 3` is truncated silently above 2^41). -/
structure ValidMatcher (w : Nat) (script : Nat → MBlock) (data : List Byte) : Prop where
  window_le : w ≤ 2 ^ 41
  space_pos : ∀ i, 0 < (script i).space
  space_le : ∀ i, (script i).space ≤ Gen.maxBlockSize
  parse_ok : ∀ i,
    let s := blockStart script i
    let blk := (data.drop s).take (script i).space
    isConstant blk = false → validParse w (data.take s) blk (script i).parse = true

/-- executable version of `ValidMatcher` for a script given as a finite list followed by a default
entry (`n` = number of blocks the data can reach) -/
def validMatcherB (w : Nat) (script : Nat → MBlock) (data : List Byte) : Nat → Nat → Bool
  | 0, _ => true
  | fuel + 1, i =>
    let s := blockStart script i
    let mb := script i
    let blk := (data.drop s).take mb.space
    decide (0 < mb.space) && decide (mb.space ≤ Gen.maxBlockSize) &&
      (isConstant blk || validParse w (data.take s) blk mb.parse) &&
      (if s + mb.space > data.length then true else validMatcherB w script data fuel (i + 1))

end Zstd.Model.Enc
