import Zstd.Model.FrameCompressor
import Zstd.Model.Huffman
import Zstd.Model.Fse
import Zstd.Model.MatchGenerator
/-
The abstract entropy coders of `Model/FrameCompressor.lean` (`Coders H`) instantiated with the merged
models of the C12 (FSE), C13 (Huffman) and bit-I/O slices, and the built-in matcher's script computed
with the C17 model — so that the whole of `compress(_, _, Fastest)` is executable in the model and
comparable BYTE FOR BYTE with the code.

Rust anchors: encoding/blocks/compressed.rs `compress_literals` (incl. the RLE-literals repair of
F10), `rle_literals`, `encode_sequences`, `encode_fse_table_modes`, `encode_table`, the table
building in `compress_block` (`choose_table`: always a new table).

Everything here is byte level: the one `BitWriter` of `compress_block` is byte aligned at every
section boundary (after the literals section, after the sequence count, after each table
description), so each section can be produced on a writer of its own.
-/
namespace Zstd.Model.Enc
open Zstd Zstd.Model.BitIO

/-- the bytes a sequence of writer operations leaves, starting from an empty aligned writer -/
def dumpBytes (r : Except Fault BitWriter) : Except Fault (List Byte) :=
  match r with
  | .error f => .error f
  | .ok w =>
    match w.dump with
    | .error f => .error f
    | .ok a => .ok a.toList

/-- `FSEEncoder::new(build_table_from_data(weights, 6, true), writer).encode_interleaved(weights)`
as used by `HuffmanEncoder::write_table` (the writer is byte aligned there) -/
def fseWeights (ws : List Nat) : Except Fault (List Nat) :=
  match Fse.buildTableFromData ws 6 true with
  | .error f => .error f
  | .ok t => dumpBytes (Fse.encodeInterleaved t BitWriter.new ws)

/-- `rle_literals(byte, len, writer)`: type 1, size format 0b11, 20 bits of size, the byte -/
def rleLiterals (b : Byte) (len : Nat) : Except Fault (List Byte) :=
  let n := len % 2 ^ 32
  if n ≥ 2 ^ (Gen.rawLitSizeBits + 1) then .error (.assert "bit_writer.rs:write_bits_64:debug_assert")
  else if n ≥ 2 ^ Gen.rawLitSizeBits then .error (.assert "compressed.rs:rle_literals:size-field-polluted(not modelled)")
  else .ok (leBytes ((4 + Gen.rawLitSizeBits) / 8) (1 + 3 * 4 + n * 16) ++ [b])

/-- `compress_literals(literals, last_table, writer)`: the bytes it leaves and the table it returns -/
def compressLiteralsReal (lits : List Byte) (prev : Option Huf.EncTable) :
    Except Fault (List Byte × Option Huf.EncTable) :=
  match lits with
  | [] => .error (.index "compressed.rs:compress_literals:empty (only called above the threshold)")
  | first :: _ =>
    -- repair of F10: a single distinct value is written as RLE literals, no table remembered
    if lits.all (fun x => x == first) then
      match rleLiterals first lits.length with
      | .error f => .error f
      | .ok bytes => .ok (bytes, none)
    else
      match Huf.buildFromData lits with
      | .error f => .error f
      | .ok newT =>
        let (table, newTable) : Huf.EncTable × Bool :=
          match prev with
          | some t =>
            (match Huf.canEncode t newT with
             | some diff => if Gen.treelessDiffGuard diff Gen.treelessDiffK then (newT, true) else (t, false)
             | none => (newT, true))
          | none => (newT, true)
        match litSizeFormat lits.length with
        | .error f => .error f
        | .ok (sizeFormat, sizeBits) =>
          let enc := if sizeFormat = 0 then Huf.encode fseWeights table lits newTable
                     else Huf.encode4x fseWeights table lits newTable
          match enc with
          | .error f => .error f
          | .ok encoded =>
            let hdrLen := (4 + 2 * sizeBits) / 8
            let totalLen := hdrLen + encoded.length
            if Gen.litRawFallbackGuard totalLen lits.length then
              -- `writer.reset_to(reset_idx); raw_literals(literals, writer); None`
              match rawLiterals lits with
              | .error f => .error f
              | .ok bytes => .ok (bytes, none)
            else
              -- type (2 bits), size format (2), regenerated size, compressed size (`change_bits`)
              let ty := if newTable then 2 else 3
              let hdr := ty + sizeFormat * 4 + lits.length * 16 + encoded.length * 2 ^ (4 + sizeBits)
              .ok (leBytes hdrLen hdr ++ encoded, if newTable then some newT else none)

/-- one step of the backward loop of `encode_sequences` -/
def seqStep (llT mlT ofT : Fse.ETable) (w : BitWriter) (llS mlS ofS : Fse.EState) (s : CodedSeq) :
    Except Fault (BitWriter × Fse.EState × Fse.EState × Fse.EState) :=
  match Fse.encStep ofT w ofS s.of.1 with
  | .error f => .error f
  | .ok (w, ofS) =>
    match Fse.encStep mlT w mlS s.ml.1 with
    | .error f => .error f
    | .ok (w, mlS) =>
      match Fse.encStep llT w llS s.ll.1 with
      | .error f => .error f
      | .ok (w, llS) =>
        match w.writeBits s.ll.2.1 s.ll.2.2 with
        | .error f => .error f
        | .ok w =>
          match w.writeBits s.ml.2.1 s.ml.2.2 with
          | .error f => .error f
          | .ok w =>
            match w.writeBits s.of.2.1 s.of.2.2 with
            | .error f => .error f
            | .ok w => .ok (w, llS, mlS, ofS)

def seqLoop (llT mlT ofT : Fse.ETable) : List CodedSeq → BitWriter → Fse.EState → Fse.EState → Fse.EState →
    Except Fault (BitWriter × Fse.EState × Fse.EState × Fse.EState)
  | [], w, a, b, c => .ok (w, a, b, c)
  | s :: rest, w, a, b, c =>
    match seqStep llT mlT ofT w a b c s with
    | .error f => .error f
    | .ok (w, a, b, c) => seqLoop llT mlT ofT rest w a b c

/-- `encode_sequences(sequences, writer, ll_table, ml_table, of_table)` -/
def encodeSequences (llT mlT ofT : Fse.ETable) (w : BitWriter) (coded : List CodedSeq) : Except Fault BitWriter :=
  match coded.getLast? with
  | none => .error (.index "compressed.rs:encode_sequences:sequences[len-1]")
  | some last =>
    match llT.startState last.ll.1, mlT.startState last.ml.1, ofT.startState last.of.1 with
    | .ok llS, .ok mlS, .ok ofS =>
      match w.writeBits last.ll.2.1 last.ll.2.2 with
      | .error f => .error f
      | .ok w =>
        match w.writeBits last.ml.2.1 last.ml.2.2 with
        | .error f => .error f
        | .ok w =>
          match w.writeBits last.of.2.1 last.of.2.2 with
          | .error f => .error f
          | .ok w =>
            match seqLoop llT mlT ofT coded.dropLast.reverse w llS mlS ofS with
            | .error f => .error f
            | .ok (w, llS, mlS, ofS) =>
              match mlT.accLog, ofT.accLog, llT.accLog with
              | .ok mlA, .ok ofA, .ok llA =>
                match w.writeBits mlS.index mlA with
                | .error f => .error f
                | .ok w =>
                  match w.writeBits ofS.index ofA with
                  | .error f => .error f
                  | .ok w =>
                    match w.writeBits llS.index llA with
                    | .error f => .error f
                    | .ok w => Fse.writeEndMark w
              | .error f, _, _ => .error f
              | _, .error f, _ => .error f
              | _, _, .error f => .error f
    | .error f, _, _ => .error f
    | _, .error f, _ => .error f
    | _, _, .error f => .error f

/-- everything of the sequences section after the count: modes byte (three `Encoded` tables:
`2 << 6 | 2 << 4 | 2 << 2`), the LL, OF, ML table descriptions, the interleaved bitstream -/
def encodeSeqSectionReal (coded : List CodedSeq) : Except Fault (List Byte) :=
  -- max accuracy logs and the zero-bit-avoidance flag: extracted from `compress_block`/`choose_table` on every run
  match Fse.buildTableFromData (coded.map (·.ll.1)) Gen.llEncMaxLog Gen.seqEncAvoidZeroBits,
        Fse.buildTableFromData (coded.map (·.ml.1)) Gen.mlEncMaxLog Gen.seqEncAvoidZeroBits,
        Fse.buildTableFromData (coded.map (·.of.1)) Gen.ofEncMaxLog Gen.seqEncAvoidZeroBits with
  | .ok llT, .ok mlT, .ok ofT =>
    dumpBytes <|
      match BitWriter.new.writeBits (2 * 64 + 2 * 16 + 2 * 4) 8 with
      | .error f => .error f
      | .ok w =>
        match llT.writeTable w with
        | .error f => .error f
        | .ok w =>
          match ofT.writeTable w with
          | .error f => .error f
          | .ok w =>
            match mlT.writeTable w with
            | .error f => .error f
            | .ok w => encodeSequences llT mlT ofT w coded
  | .error f, _, _ => .error f
  | _, .error f, _ => .error f
  | _, _, .error f => .error f

/-- the real entropy coders -/
def realCoders : Coders Huf.EncTable :=
  { compressLiterals := compressLiteralsReal, encodeSeqSection := encodeSeqSectionReal }

/-- `compress_block` as it is -/
def compressBlockReal : BlockEnc Huf.EncTable := compressBlock realCoders

/-! ### the built-in matcher's script (C17 model, production parameters) -/

def parseOfSeqs : List MG.Seq → List MSeq → List Byte → Parse
  | [], acc, tail => { seqs := acc.reverse, tail := tail }
  | .triple l o m :: rest, acc, tail => parseOfSeqs rest (⟨l, o, m⟩ :: acc) tail
  | .literals l :: rest, acc, tail => parseOfSeqs rest acc (tail ++ l)

/-- drive `MatchGeneratorDriver` through the blocks of one Fastest frame the way `compress` /
`compress_fastest` do (`get_next_space`, `commit_space`, then `skip_matching` for a constant block,
`start_matching` otherwise) and collect what `start_matching` reports.  Returns the matcher
afterwards as well: pooled vectors and suffix stores survive `reset`, so the parses — hence the
bytes — of a REUSED compressor depend on its history. -/
def builtinBlocks : Nat → MG.Driver → List Byte → Array MBlock → Except Fault (MG.Driver × Array MBlock)
  | 0, d, _, acc => .ok (d, acc)
  | fuel + 1, d, rest, acc =>
    let (d, space) := d.getNextSpace
    let blk := rest.take space.size
    if blk.isEmpty then .ok (d, acc.push ⟨space.size, {}⟩)
    else
      match d.commitSpace blk.toArray space.size with
      | .error f => .error f
      | .ok d =>
        if isConstant blk then
          match d.skipMatching MG.realKey with
          | .error f => .error f
          | .ok d =>
            let acc := acc.push ⟨space.size, {}⟩
            if rest.length < space.size then .ok (d, acc) else builtinBlocks fuel d (rest.drop space.size) acc
        else
          match d.startMatching MG.realKey with
          | .error f => .error f
          | .ok (d, seqs) =>
            let acc := acc.push ⟨space.size, parseOfSeqs seqs [] []⟩
            if rest.length < space.size then .ok (d, acc) else builtinBlocks fuel d (rest.drop space.size) acc

/-- `get_next_space` once per block without ever committing (Uncompressed level): the pooled
vectors are taken and dropped -/
def builtinTakeSpaces : Nat → MG.Driver → Nat → Array MBlock → MG.Driver × Array MBlock
  | 0, d, _, acc => (d, acc)
  | fuel + 1, d, left, acc =>
    let (d, space) := d.getNextSpace
    let acc := acc.push ⟨space.size, {}⟩
    if space.size = 0 ∨ left < space.size then (d, acc) else builtinTakeSpaces fuel d (left - space.size) acc

/-- what the built-in matcher of a compressor in state `d` does during one `compress()` call at
`lvl` (after the `reset` at its start): the script of the frame and the matcher afterwards.  At an
unimplemented level the first space is taken, then `compress` panics (non-empty input) or writes
the empty frame. -/
def builtinFrame (lvl : Level) (d : MG.Driver) (data : List Byte) : Except Fault (MG.Driver × Array MBlock) :=
  let d := d.reset
  match lvl with
  | .fastest => builtinBlocks (data.length + 2) d data #[]
  | .uncompressed => .ok (builtinTakeSpaces (data.length + 2) d data.length #[])
  | _ => let (d, space) := d.getNextSpace; .ok (d, #[⟨space.size, {}⟩])

/-- a finite script followed by empty entries of `dflt` bytes -/
def scriptOfArray (arr : Array MBlock) (dflt : Nat) (i : Nat) : MBlock :=
  match arr[i]? with
  | some b => b
  | none => ⟨dflt, {}⟩

/-- the script of a FRESH built-in matcher for `data` at the Fastest level -/
def builtinFastestScript (data : List Byte) : Except Fault (Array MBlock) :=
  (builtinFrame .fastest (MG.Driver.new Gen.prodSliceSize Gen.prodMaxSlices) data).map (·.2)

end Zstd.Model.Enc
