import Zstd.Basic
import Zstd.Gen.Consts
import Zstd.Gen.Guards
import Zstd.Gen.Headers
import Zstd.Model.SeqCodes
import Zstd.Spec.Frame
/-
Model of the frame-level decoder: `FrameDecoder` (decoding/frame_decoder.rs), `FrameDecoderState`,
`BlockDecoder` (decoding/block_decoder.rs), `execute_sequences` (decoding/sequence_execution.rs),
`DecodeBuffer` at the level of its abstract content (decoding/decode_buffer.rs; the raw-pointer ring
underneath is modelled and proved equivalent to this byte queue in Model/RingBuffer.lean — C04),
`StreamingDecoder::read` (decoding/streaming_decoder.rs).

It is a state machine `State → Op → State × Out` mirroring the Rust control flow statement by
statement, including the leniencies of the code (no reserved-bit check, block maximum = 128 KiB
regardless of window, offsets larger than the window accepted while the bytes are still buffered,
`total_output_counter` not advanced by raw/RLE blocks …).  The entropy stages (literals and
sequence *decoding*) are called through two functions at the bottom of the "sections" part.
-/
namespace Zstd.Model
open Zstd

/-! ### errors: one constructor per Rust error site that the model distinguishes -/

inductive DErr where
  | notInitialized
  | magicRead | badMagic (m : Nat) | skipFrame (magic len : Nat)
  | descriptorRead | windowDescRead | dictIdRead | fcsRead
  | windowTooBig (w : Nat) | windowTooSmall (w : Nat)
  | windowOverLimit (requested max : Nat)
  | dictNotProvided (id : Nat)
  | blockHeaderRead | reservedBlock | blockSizeTooLarge (n : Nat)
  | blockBodyRead
  | literalsHeader | literalsTooLarge (n : Nat) | malformedSection
  | literals | seqHeader | sequences | extraBits
  | execNotEnoughLiterals | execZeroOffset | execBlockSizeExceeded
  | execOffsetTooBig | execNotEnoughDict
  | checksumRead
  | targetTooSmall | failedToSkipFrame
  | sink
  deriving Repr, DecidableEq

def DErr.render : DErr → String
  | .notInitialized => "err notInitialized"
  | .magicRead => "err magicRead" | .badMagic m => s!"err badMagic {m}" | .skipFrame m l => s!"err skipFrame {m} {l}"
  | .descriptorRead => "err descriptorRead" | .windowDescRead => "err windowDescRead"
  | .dictIdRead => "err dictIdRead" | .fcsRead => "err fcsRead"
  | .windowTooBig w => s!"err windowTooBig {w}" | .windowTooSmall w => s!"err windowTooSmall {w}"
  | .windowOverLimit r m => s!"err windowOverLimit {r} {m}"
  | .dictNotProvided i => s!"err dictNotProvided {i}"
  | .blockHeaderRead => "err blockHeaderRead" | .reservedBlock => "err reservedBlock"
  | .blockSizeTooLarge n => s!"err blockSizeTooLarge {n}"
  | .blockBodyRead => "err blockBodyRead"
  | .literalsHeader => "err literalsHeader" | .literalsTooLarge n => s!"err literalsTooLarge {n}"
  | .malformedSection => "err malformedSection"
  | .literals => "err literals" | .seqHeader => "err seqHeader" | .sequences => "err sequences"
  | .extraBits => "err sequences"   -- Rust: DecodeSequenceError::ExtraBits, same family
  | .execNotEnoughLiterals => "err execNotEnoughLiterals" | .execZeroOffset => "err execZeroOffset"
  | .execBlockSizeExceeded => "err execBlockSizeExceeded"
  | .execOffsetTooBig => "err execOffsetTooBig" | .execNotEnoughDict => "err execNotEnoughDict"
  | .checksumRead => "err checksumRead"
  | .targetTooSmall => "err targetTooSmall" | .failedToSkipFrame => "err failedToSkipFrame"
  | .sink => "err sink"

/-- outcome of a model operation: a value, a decode error (Rust `Err`), or a fault (Rust panic).
Stateful operations return `σ × Out α`: the state component is the state the Rust object is left
in — also on the error paths (the caller may still drain, query and reset). -/
inductive Out (α : Type) where
  | ok (a : α)
  | err (e : DErr)
  | fault (f : Fault)
  deriving Repr

def Out.isOk {α} : Out α → Bool
  | .ok _ => true
  | _ => false

/-! ### the decode buffer at the level of its content -/

structure DBuf where
  content : Array Nat := #[]        -- bytes currently held (oldest first)
  dict : Array Nat := #[]
  window : Nat := 0
  totalOut : Nat := 0               -- `total_output_counter` (exactly as the code maintains it)
  hashed : Array Nat := #[]         -- every byte fed to the hasher so far, in order
  deriving Repr, Inhabited

def DBuf.reset (b : DBuf) (window : Nat) : DBuf :=
  { b with content := #[], dict := #[], window := window, totalOut := 0, hashed := #[] }

def DBuf.push (b : DBuf) (data : Array Nat) : DBuf :=
  { b with content := b.content ++ data, totalOut := b.totalOut + data.size }

/-- byte-by-byte overlapping copy inside the content: `n` bytes starting `offset` back.
Pre: `0 < offset ≤ content.size`. -/
def copyWithin : Nat → Nat → Array Nat → Array Nat
  | 0, _, c => c
  | n + 1, offset, c => copyWithin n offset (c.push (c.getD (c.size - offset) 0))

/-- `DecodeBuffer::repeat` (with `repeat_from_dict`), on the abstract content -/
def DBuf.repeat (b : DBuf) (offset ml : Nat) : Except DErr DBuf :=
  if offset > b.content.size then
    -- repeat_from_dict
    if b.totalOut ≤ b.window then
      let fromDict := offset - b.content.size
      if fromDict > b.dict.size then .error .execNotEnoughDict
      else if fromDict < ml then
        let b1 := { b with content := b.content ++ b.dict.extract (b.dict.size - fromDict) b.dict.size,
                            totalOut := b.totalOut + fromDict }
        -- `self.repeat(self.buffer.len(), match_length - bytes_from_dict)`: offset = whole buffer
        let off' := b1.content.size
        let rest := ml - fromDict
        if off' = 0 then
          -- offset 0 ≤ len 0: start_idx = 0, chunked copy of 0-size chunks never terminates in
          -- the Rust code; cannot happen because fromDict ≥ 1 here (offset > content.size)
          .ok b1
        else .ok { b1 with content := copyWithin rest off' b1.content, totalOut := b1.totalOut + rest }
      else
        let low := b.dict.size - fromDict
        .ok { b with content := b.content ++ b.dict.extract low (low + ml) }
    else .error .execOffsetTooBig
  else
    .ok { b with content := copyWithin ml offset b.content, totalOut := b.totalOut + ml }

def DBuf.canDrainToWindow (b : DBuf) : Option Nat :=
  if b.content.size > b.window then some (b.content.size - b.window) else none

/-- remove `n` bytes from the front, hashing them: what every successful drain does -/
def DBuf.take (b : DBuf) (n : Nat) : Array Nat × DBuf :=
  let out := b.content.extract 0 n
  (out, { b with content := b.content.extract n b.content.size, hashed := b.hashed ++ out })

/-! ### frame header -/

structure FHeader where
  descriptor : Nat
  windowDesc : Nat
  dictId : Option Nat
  fcs : Nat
  deriving Repr, DecidableEq, Inhabited

def FHeader.singleSegment (h : FHeader) : Bool := h.descriptor / 32 % 2 = 1
def FHeader.checksumFlag (h : FHeader) : Bool := h.descriptor / 4 % 2 = 1

def lookupNat (t : List (Nat × Nat)) (k : Nat) : Option Nat := (t.find? (fun p => p.1 = k)).map (·.2)

/-- `FrameDescriptor::frame_content_size_bytes` (table from the source) -/
def fcsBytes (h : FHeader) : Nat :=
  let flag := h.descriptor / 64
  if flag = 0 then (if h.singleSegment then Gen.fcsBytesFlag0.1 else Gen.fcsBytesFlag0.2)
  else (lookupNat Gen.fcsBytes flag).getD 0

def dictIdBytes (d : Nat) : Nat := (lookupNat Gen.dictIdBytes (d % 4)).getD 0

/-- `FrameHeader::window_size` -/
def FHeader.windowSize (h : FHeader) : Except DErr Nat :=
  if h.singleSegment then .ok h.fcs
  else
    let exp := h.windowDesc / 8
    let mant := h.windowDesc % 8
    let base := 2 ^ (10 + exp)
    let w := base + base / 8 * mant
    if Gen.windowMinOk w Gen.minWindowSize then
      if Gen.windowMaxOk w Gen.maxWindowSize then .ok w else .error (.windowTooBig w)
    else .error (.windowTooSmall w)

/-- a byte source read front to back (`impl Read for &[u8]`): remaining bytes -/
abbrev Src := List Nat

/-- `read_exact n`: `none` = UnexpectedEof (the source is then exhausted) -/
def readExact (n : Nat) (s : Src) : Option (List Nat × Src) :=
  let t := s.take n            -- (length of the prefix only: keeps each read O(n))
  if t.length < n then none else some (t, s.drop n)

/-- `read_frame_header` → (header, bytes read, rest of source) -/
def readFrameHeader (s : Src) : Except DErr (FHeader × Nat × Src) :=
  match readExact 4 s with
  | none => .error .magicRead
  | some (m, s1) =>
    let magic := leNat m
    if Gen.skipMagicLo ≤ magic ∧ magic ≤ Gen.skipMagicHi then
      match readExact 4 s1 with
      | none => .error .descriptorRead
      | some (l, _) => .error (.skipFrame magic (leNat l))
    else if magic ≠ Gen.magicNum then .error (.badMagic magic)
    else
      match readExact 1 s1 with
      | none => .error .descriptorRead
      | some (d, s2) =>
        let desc := d.headD 0
        let single := desc / 32 % 2 = 1
        match (if single then some ([0], s2) else readExact 1 s2) with
        | none => .error .windowDescRead
        | some (wd, s3) =>
          let dlen := dictIdBytes desc
          match readExact dlen s3 with
          | none => .error .dictIdRead
          | some (db, s4) =>
            let did := leNat db
            let h0 : FHeader := ⟨desc, if single then 0 else wd.headD 0, if dlen = 0 ∨ did = 0 then none else some did, 0⟩
            let flen := fcsBytes h0
            match readExact flen s4 with
            | none => .error .fcsRead
            | some (fb, s5) =>
              let fcs := if flen = 0 then 0 else if flen = 2 then leNat fb + 256 else leNat fb
              .ok ({ h0 with fcs := fcs }, 5 + (if single then 0 else 1) + dlen + flen, s5)

/-! ### the block decoder the frame level is parametric in -/

/-- What the frame-level machinery needs of a block decoder (`BlockDecoder::decompress_block` with the
entropy part of `DecoderScratch` as its state `σ`).  Two instances exist: the Spec stand-in of this
file (`σ = Spec.Entropy`, strict, generic error classes) and the faithful mirror
`Blk.decompressBlock` of Model/BlockDecode.lean (`σ = Blk.Scratch`, every leniency and error
variant of the code).  The frame-level theorems are proved for EVERY instance that satisfies
`BlockContract` (Proofs/FrameDecoderContract.lean). -/
class BlockDec (σ : Type) where
  /-- the entropy state after `DecoderScratch::reset` / `new` -/
  fresh : σ
  /-- `decompress_block(content)` on the scratch and the decode buffer: state left behind (also on
  error paths) and outcome -/
  run : List Nat → σ → DBuf → (DBuf × σ) × Out Unit
  /-- ghost (not used by `run`): the offsets the block's sequences resolve to, as a function of the
  block content and the entropy state only — used to STATE the window condition of C06 -/
  offsets : List Nat → σ → List Nat

/-! ### decoder state -/

structure Dict (σ : Type) where
  id : Nat
  entropy : σ
  content : Array Nat
  deriving Repr, Inhabited

structure FState (σ : Type) where
  header : FHeader
  finished : Bool := false
  blockCounter : Nat := 0
  bytesRead : Nat := 0
  checksum : Option Nat := none
  usingDict : Option Nat := none
  entropy : σ
  buf : DBuf := {}
  deriving Repr, Inhabited

structure Decoder (σ : Type) where
  state : Option (FState σ) := none
  dicts : List (Dict σ) := []
  maxWindow : Nat := Gen.defaultMaxWindowSize
  deriving Repr, Inhabited

variable {σ : Type} [BlockDec σ]

def Decoder.setMaxWindowSize (d : Decoder σ) (w : Nat) : Decoder σ :=
  { d with maxWindow := min w Gen.maxWindowSize }

/-- what `reset` computes from the source, the registered dictionaries and the limit — the
previous state is not an input: `FrameDecoderState::new` (first use) and `FrameDecoderState::reset`
(reuse) leave the same observable state -/
inductive ResetResult (σ : Type) where
  | keep (e : DErr)                       -- header / window error: the decoder is left unchanged
  | replace (st : FState σ) (o : Out Src)   -- the state is replaced (also when the dictionary is missing)

/-- the state of a frame whose header has just been read (no dictionary applied yet) -/
def freshState (h : FHeader) (hdrLen w : Nat) : FState σ :=
  { header := h, bytesRead := hdrLen, entropy := BlockDec.fresh, buf := ({} : DBuf).reset w }

/-- `DecoderScratch::init_from_dict` -/
def FState.withDict (st : FState σ) (dict : Dict σ) : FState σ :=
  { st with entropy := dict.entropy, usingDict := some dict.id, buf := { st.buf with dict := dict.content } }

/-- dictionary selection after the header checks -/
def applyDictChoice (dicts : List (Dict σ)) (st : FState σ) (rest : Src) : ResetResult σ :=
  match st.header.dictId with
  | none => .replace st (.ok rest)
  | some id =>
    match dicts.find? (fun x => x.id = id) with
    | none => .replace st (.err (.dictNotProvided id))
    | some dict => .replace (st.withDict dict) (.ok rest)

def resetCore (dicts : List (Dict σ)) (maxWindow : Nat) (s : Src) : ResetResult σ :=
  match readFrameHeader s with
  | .error e => .keep e
  | .ok (h, hdrLen, rest) =>
    match h.windowSize with
    | .error e => .keep e
    | .ok w =>
      if Gen.windowOverLimit w maxWindow then .keep (.windowOverLimit w maxWindow)
      else applyDictChoice dicts (freshState h hdrLen w) rest

/-- `FrameDecoder::reset` / `init` (both construction paths, `check_window_size`, dictionary).
On a header / window error the decoder is unchanged; on a missing dictionary the state HAS been
replaced by the new frame's (dictionary-less) state. -/
def Decoder.reset (d : Decoder σ) (s : Src) : Decoder σ × Out Src :=
  match resetCore d.dicts d.maxWindow s with
  | .keep e => (d, .err e)
  | .replace st o => ({ d with state := some st }, o)

/-- `FrameDecoder::add_dict(dict)`: `self.dicts.insert(dict.id, dict)` — a `BTreeMap` keyed by the id, so a
dictionary registered earlier under the same id is replaced (the list keeps the latest first and
`find?` returns it) -/
def Decoder.addDict (d : Decoder σ) (dict : Dict σ) : Decoder σ :=
  { d with dicts := dict :: d.dicts.filter (fun x => x.id ≠ dict.id) }

/-- `FrameDecoder::force_dict(id)`: seed the current frame's state from a registered dictionary -/
def Decoder.forceDict (d : Decoder σ) (id : Nat) : Decoder σ × Out Unit :=
  match d.state with
  | none => (d, .err .notInitialized)
  | some st =>
    match d.dicts.find? (fun x => x.id = id) with
    | none => (d, .err (.dictNotProvided id))
    | some dict =>
      ({ d with state := some (st.withDict dict) }, .ok ())

/-- the window-sized (re)allocations `reset` performs on this source: none unless the header
parses, the window is legal and within the limit (C11: the check precedes the allocation) -/
def Decoder.resetAllocs (d : Decoder σ) (s : Src) : List Nat :=
  match readFrameHeader s with
  | .error _ => []
  | .ok (h, _, _) =>
    match h.windowSize with
    | .error _ => []
    | .ok w => if Gen.windowOverLimit w d.maxWindow then [] else [w]

def Decoder.isFinished (d : Decoder σ) : Bool :=
  match d.state with
  | none => true
  | some st => if st.header.checksumFlag then st.finished && st.checksum.isSome else st.finished

/-! ### blocks -/

structure BHeader where
  last : Bool
  btype : Nat           -- 0 Raw, 1 RLE, 2 Compressed
  decompressedSize : Nat
  contentSize : Nat
  deriving Repr, DecidableEq

/-- `BlockDecoder::read_block_header` on three bytes -/
def parseBlockHeader (b0 b1 b2 : Nat) : Except DErr BHeader :=
  let t := (lookupNat Gen.blockTypeMap (b0 / 2 % 4)).getD 3
  if t = 3 then .error .reservedBlock
  else
    let size := b0 / 8 + b1 * 32 + b2 * 8192
    if Gen.blockSizeTooLarge size Gen.maxBlockSize then .error (.blockSizeTooLarge size)
    else
      .ok { last := b0 % 2 = 1, btype := t,
            decompressedSize := if t = 2 then 0 else size,
            contentSize := if t = 1 then 1 else size }

/-- stand-in for `decode_literals` (huff0 + literals_section_decoder): see Model/Huffman.lean for
the faithful mirror; this one goes through the Spec and reports a generic error -/
def decodeLiteralsM (raw : List Nat) (prev : Option Spec.Huffman.Table) :
    Except DErr (List Nat × Nat × Option Spec.Huffman.Table × Spec.LitHeader) :=
  match Spec.parseLitHeader raw with
  | none => .error .literalsHeader
  | some h =>
    if h.regen > Gen.maxBlockSize then .error (.literalsTooLarge h.regen)
    else
      let upper := if h.ltype = 0 then h.regen else if h.ltype = 1 then 1 else h.comp
      if (raw.drop h.hdrLen).length < upper then .error .malformedSection
      else
        match Spec.decodeLiterals (raw.take (h.hdrLen + upper)) prev with
        | none => .error .literals
        | some (lits, used, huf) => .ok (lits, used, huf, h)

/-- stand-in for `decode_sequences` (fse + sequence_section_decoder) through the Spec -/
def decodeSequencesM (raw : List Nat) (e : Spec.Entropy) : Except DErr (List Spec.Seq × Spec.Entropy) :=
  match Spec.decodeSequences raw e with
  | none => .error .sequences
  | some r => .ok r

/-- `execute_sequences` on the abstract buffer (with the block-size checks).  Returns the buffer
and offset history as the Rust scratch is left, also when an error interrupts the block. -/
def executeSequences : List Spec.Seq → List Nat → Nat × Nat × Nat → Nat → DBuf → (DBuf × (Nat × Nat × Nat)) × Out Unit
  | [], lits, h, seqSum, b =>
    if lits.isEmpty then ((b, h), .ok ())
    else if seqSum + lits.length > Gen.maxBlockSize then ((b, h), .err .execBlockSizeExceeded)
    else ((b.push lits.toArray, h), .ok ())
  | s :: rest, lits, h, seqSum, b =>
    if seqSum + s.ll + s.ml > Gen.maxBlockSize then ((b, h), .err .execBlockSizeExceeded)
    else if s.ll > lits.length then ((b, h), .err .execNotEnoughLiterals)
    else
      let b1 := if s.ll > 0 then b.push (lits.take s.ll).toArray else b
      match doOffsetHistory s.ov s.ll h with
      | .error f => ((b1, h), .fault f)
      | .ok (actual, h') =>
        if actual = 0 then ((b1, h'), .err .execZeroOffset)
        else
          let r := if s.ml > 0 then b1.repeat actual s.ml else .ok b1
          match r with
          | .error e => ((b1, h'), .err e)
          | .ok b2 => executeSequences rest (lits.drop s.ll) h' (seqSum + s.ml + s.ll) b2

/-- `BlockDecoder::decompress_block` on the block content -/
def decompressBlock (content : List Nat) (e : Spec.Entropy) (b : DBuf) : (DBuf × Spec.Entropy) × Out Unit :=
  match decodeLiteralsM content e.huf with
  | .error er => ((b, e), .err er)
  | .ok (lits, used, huf, _) =>
    let e1 := { e with huf := huf }
    let raw := content.drop used
    match Spec.parseSeqCount raw with
    | none => ((b, e1), .err .seqHeader)
    | some (n, _) =>
      if n = 0 then
        -- `bytes_in_sequence_header` is 1 (or 2 for the `80 00` form); anything after it is an error
        let hdr := if raw.headD 0 = 0 then 1 else 2
        if raw.length > hdr then ((b, e1), .err .extraBits)
        else ((b.push lits.toArray, e1), .ok ())
      else
        match decodeSequencesM raw e1 with
        | .error er => ((b, e1), .err er)
        | .ok (seqs, e') =>
          let ((b', (h1, h2, h3)), o) := executeSequences seqs lits (e'.hist.r1, e'.hist.r2, e'.hist.r3) 0 b
          ((b', { e' with hist := ⟨h1, h2, h3⟩ }), o)

/-- the offsets a block's sequences resolve to (after the repeat-offset rules), in order -/
def resolvedOffsets : List Spec.Seq → (Nat × Nat × Nat) → List Nat
  | [], _ => []
  | s :: rest, h =>
    match doOffsetHistory s.ov s.ll h with
    | .error _ => []
    | .ok (a, h') => a :: resolvedOffsets rest h'

/-- (stand-in) the offsets the sequences of a compressed block body resolve to ([] when the body does
not get as far as sequence execution) -/
def blockOffsets (content : List Nat) (e : Spec.Entropy) : List Nat :=
  match decodeLiteralsM content e.huf with
  | .error _ => []
  | .ok (_, used, huf, _) =>
    match Spec.parseSeqCount (content.drop used) with
    | none => []
    | some (n, _) =>
      if n = 0 then []
      else
        match decodeSequencesM (content.drop used) { e with huf := huf } with
        | .error _ => []
        | .ok (seqs, e') => resolvedOffsets seqs (e'.hist.r1, e'.hist.r2, e'.hist.r3)

/-- instance A: the Spec stand-in -/
instance instBlockDecStandIn : BlockDec Spec.Entropy where
  fresh := {}
  run := decompressBlock
  offsets := blockOffsets


/-- one block from a reader: header + `decode_block_content`.
Returns the state as left by the Rust code and, on success, the block header and the rest of the
source. -/
def decodeOneBlock (st : FState σ) (s : Src) : FState σ × Out (BHeader × Src) :=
  match readExact 3 s with
  | none => (st, .err .blockHeaderRead)
  | some (hb, s1) =>
    match parseBlockHeader (hb.getD 0 0) (hb.getD 1 0) (hb.getD 2 0) with
    | .error e => (st, .err e)
    | .ok bh =>
      let st := { st with bytesRead := st.bytesRead + 3 }
      if bh.btype = 1 then
        match readExact 1 s1 with
        | none => (st, .err .blockBodyRead)
        | some (rb, s2) =>
          -- extend_and_fill: does not advance total_output_counter
          let buf := { st.buf with content := st.buf.content ++ Array.replicate bh.decompressedSize (rb.headD 0) }
          ({ st with buf := buf, bytesRead := st.bytesRead + 1, blockCounter := st.blockCounter + 1 }, .ok (bh, s2))
      else if bh.btype = 0 then
        match readExact bh.decompressedSize s1 with
        | none => (st, .err .blockBodyRead)
        | some (data, s2) =>
          let buf := { st.buf with content := st.buf.content ++ data.toArray }
          ({ st with buf := buf, bytesRead := st.bytesRead + bh.decompressedSize, blockCounter := st.blockCounter + 1 }, .ok (bh, s2))
      else
        match readExact bh.contentSize s1 with
        | none => (st, .err .blockBodyRead)
        | some (content, s2) =>
          match BlockDec.run content st.entropy st.buf with
          | ((buf, e), .ok ()) =>
            ({ st with buf := buf, entropy := e, bytesRead := st.bytesRead + bh.contentSize, blockCounter := st.blockCounter + 1 }, .ok (bh, s2))
          | ((buf, e), .err er) => ({ st with buf := buf, entropy := e }, .err er)
          | ((buf, e), .fault f) => ({ st with buf := buf, entropy := e }, .fault f)

inductive Strategy where
  | all
  | uptoBlocks (n : Nat)
  | uptoBytes (n : Nat)
  deriving Repr, DecidableEq

/-- the loop of `FrameDecoder::decode_blocks` -/
def decodeBlocksLoop (strat : Strategy) (sizeBefore countBefore : Nat) :
    Nat → FState σ → Src → FState σ × Out Src
  | 0, st, s => (st, .ok s)     -- fuel: one unit per block; never exhausted (see `decodeBlocks`)
  | fuel + 1, st, s =>
    match decodeOneBlock st s with
    | (st1, .err e) => (st1, .err e)
    | (st1, .fault f) => (st1, .fault f)
    | (st1, .ok (bh, s1)) =>
      if bh.last then
        let st2 := { st1 with finished := true }
        if st2.header.checksumFlag then
          match readExact 4 s1 with
          | none => (st2, .err .checksumRead)      -- NB: `frame_finished` stays set
          | some (cb, s2) => ({ st2 with bytesRead := st2.bytesRead + 4, checksum := some (leNat cb) }, .ok s2)
        else (st2, .ok s1)
      else
        let stop := match strat with
          | .all => false
          | .uptoBlocks n => st1.blockCounter - countBefore ≥ n
          | .uptoBytes n => st1.buf.content.size - sizeBefore ≥ n
        if stop then (st1, .ok s1) else decodeBlocksLoop strat sizeBefore countBefore fuel st1 s1

/-- `FrameDecoder::decode_blocks(source, strat)` → `Ok(frame_finished)` -/
def Decoder.decodeBlocks (d : Decoder σ) (s : Src) (strat : Strategy) : Decoder σ × Out (Src × Bool) :=
  match d.state with
  | none => (d, .err .notInitialized)
  | some st =>
    -- every block consumes at least 3 bytes of source, so |s| + 1 iterations suffice
    match decodeBlocksLoop strat st.buf.content.size st.blockCounter (s.length + 1) st s with
    | (st', .ok s') => ({ d with state := some st' }, .ok (s', st'.finished))
    | (st', .err e) => ({ d with state := some st' }, .err e)
    | (st', .fault f) => ({ d with state := some st' }, .fault f)

/-! ### draining -/

/-- `collect()` -/
def Decoder.collect (d : Decoder σ) : Decoder σ × Option (Array Nat) :=
  match d.state with
  | none => (d, none)
  | some st =>
    if d.isFinished then
      let (out, b) := st.buf.take st.buf.content.size
      ({ d with state := some { st with buf := b } }, some out)
    else
      match st.buf.canDrainToWindow with
      | none => (d, none)
      | some n =>
        let (out, b) := st.buf.take n
        ({ d with state := some { st with buf := b } }, some out)

def Decoder.canCollect (d : Decoder σ) : Nat :=
  match d.state with
  | none => 0
  | some st => if d.isFinished then st.buf.content.size else (st.buf.canDrainToWindow).getD 0

/-- `impl Read for FrameDecoder`: `read(target)` with `target.len() = n` -/
def Decoder.read (d : Decoder σ) (n : Nat) : Decoder σ × Array Nat :=
  match d.state with
  | none => (d, #[])
  | some st =>
    let avail := if st.finished then st.buf.content.size else (st.buf.canDrainToWindow).getD 0
    let (out, b) := st.buf.take (min avail n)
    ({ d with state := some { st with buf := b } }, out)

/-- a sink script for `collect_to_writer`: each `write` call consumes one response -/
inductive SinkResp where
  | accept (k : Nat)      -- Ok(min k len); `accept 0` = Ok(0)
  | fail                  -- Err(..)
  deriving Repr, DecidableEq

/-- `write_all_bytes(sink, buf)` → (written, ok?, remaining script).  An exhausted script accepts
everything. -/
def writeAllBytes : Nat → List SinkResp → Nat → Nat → Nat × Bool × List SinkResp
  | 0, sc, _, written => (written, true, sc)
  | fuel + 1, sc, len, written =>
    if written ≥ len then (written, true, sc)
    else match sc with
      | [] => (len, true, [])
      | .fail :: rest => (written, false, rest)
      | .accept k :: rest =>
        let w := min k (len - written)
        if w = 0 then (written, true, rest) else writeAllBytes fuel rest len (written + w)

/-- `drain_to(amount, write_all_bytes)` over the ring's two segments.  `seg1` is the length of the
first ring segment (a property of the concrete ring; the abstract content does not determine it, so
it is an input of the model — the harness reports it, C04 proves it is `as_slices().0.len()`). -/
def DBuf.drainToSink (b : DBuf) (amount seg1 : Nat) (sc : List SinkResp) : DBuf × Nat × Bool × List SinkResp :=
  if amount = 0 then (b, 0, true, sc)
  else
    let n1 := min (min seg1 b.content.size) amount
    let n2 := min (b.content.size - min seg1 b.content.size) (amount - n1)
    if n1 = 0 then (b, 0, true, sc)
    else
      let (w1, ok1, sc1) := writeAllBytes (n1 + 1) sc n1 0
      if !ok1 then ((b.take w1).2, w1, false, sc1)
      else if w1 = n1 ∧ n2 ≠ 0 then
        let (w2, ok2, sc2) := writeAllBytes (n2 + 1) sc1 n2 0
        ((b.take (w1 + w2)).2, w1 + w2, ok2, sc2)
      else ((b.take w1).2, w1, true, sc1)

/-- `collect_to_writer(sink)` → (bytes written, ok?) -/
def Decoder.collectToWriter (d : Decoder σ) (seg1 : Nat) (sc : List SinkResp) : Decoder σ × Nat × Bool :=
  match d.state with
  | none => (d, 0, true)
  | some st =>
    let amount := if d.isFinished then st.buf.content.size else (st.buf.canDrainToWindow).getD 0
    let (b, w, ok, _) := st.buf.drainToSink amount seg1 sc
    ({ d with state := some { st with buf := b } }, w, ok)

def Decoder.calculatedChecksum (d : Decoder σ) : Option Nat :=
  d.state.map fun st => Spec.Xxh64.checksum32 st.buf.hashed.toList

/-! ### slice-to-slice incremental decoding -/

/-- the block loop of `decode_from_to` -/
def decodeFromToLoop : Nat → FState σ → Src → FState σ × Out Unit
  | 0, st, _ => (st, .ok ())
  | fuel + 1, st, s =>
    if (s.take 3).length < 3 then (st, .ok ())
    else
      match parseBlockHeader (s.getD 0 0) (s.getD 1 0) (s.getD 2 0) with
      | .error e => (st, .err e)
      | .ok bh =>
        if ((s.drop 3).take bh.contentSize).length < bh.contentSize then (st, .ok ())
        else
          match decodeOneBlock st s with
          | (st1, .err e) => (st1, .err e)
          | (st1, .fault f) => (st1, .fault f)
          | (st1, .ok (_, s1)) =>
            if bh.last then
              let st2 := { st1 with finished := true }
              if st2.header.checksumFlag ∧ (s1.take 4).length ≥ 4 then
                ({ st2 with bytesRead := st2.bytesRead + 4, checksum := some (leNat (s1.take 4)) }, .ok ())
              else (st2, .ok ())
            else decodeFromToLoop fuel st1 s1

/-- `decode_from_to(source, target)` with `target.len() = n` → (bytes read, bytes written = out) -/
def Decoder.decodeFromTo (d : Decoder σ) (s : Src) (n : Nat) : Decoder σ × Out (Nat × Array Nat) :=
  let startRead := match d.state with | some st => st.bytesRead | none => 0
  let finish (d2 : Decoder σ) : Decoder σ × Out (Nat × Array Nat) :=
    let (d3, out) := d2.read n
    match d3.state with
    | none => (d3, .fault (.unreachable "frame_decoder.rs:decode_from_to:Bug in library"))
    | some st => (d3, .ok (st.bytesRead - startRead, out))
  if !d.isFinished ∨ d.state.isNone then
    let (d1, r1) : Decoder σ × Out Src := if d.state.isNone then d.reset s else (d, .ok s)
    match r1 with
    | .err e => (d1, .err e)
    | .fault f => (d1, .fault f)
    | .ok s1 =>
      match d1.state with
      | none => (d1, .fault (.unreachable "frame_decoder.rs:decode_from_to:Bug in library"))
      | some st =>
        if st.header.checksumFlag ∧ st.finished ∧ st.checksum.isNone then
          -- only the checksum is outstanding
          if s1.length ≥ 4 then
            ({ d1 with state := some { st with bytesRead := st.bytesRead + 4, checksum := some (leNat (s1.take 4)) } }, .ok (4, #[]))
          else (d1, .ok (0, #[]))
        else
          match decodeFromToLoop (s1.length + 1) st s1 with
          | (st', .ok ()) => finish { d1 with state := some st' }
          | (st', .err e) => ({ d1 with state := some st' }, .err e)
          | (st', .fault f) => ({ d1 with state := some st' }, .fault f)
  else finish d

/-! ### multi-frame decoding -/

/-- inner loop of `decode_all` for one frame -/
def decodeAllFrame : Nat → Decoder σ → Src → Nat → Array Nat → Decoder σ × Out (Src × Nat × Array Nat)
  | 0, d, s, room, out => (d, .ok (s, room, out))
  | fuel + 1, d, s, room, out =>
    match d.decodeBlocks s (.uptoBytes (1024 * 1024)) with
    | (d1, .err e) => (d1, .err e)
    | (d1, .fault f) => (d1, .fault f)
    | (d1, .ok (s1, _)) =>
      let (d2, got) := d1.read room
      if d2.canCollect ≠ 0 then (d2, .err .targetTooSmall)
      else if d2.isFinished then (d2, .ok (s1, room - got.size, out ++ got))
      else decodeAllFrame fuel d2 s1 (room - got.size) (out ++ got)

/-- `decode_all(input, output)` with `output.len() = room` → the bytes written -/
def decodeAllLoop : Nat → Decoder σ → Src → Nat → Array Nat → Decoder σ × Out (Array Nat)
  | 0, d, _, _, out => (d, .ok out)
  | fuel + 1, d, s, room, out =>
    if s.isEmpty then (d, .ok out)
    else
      match d.reset s with
      | (d1, .err (.skipFrame _ len)) =>
        -- init consumed the 8 header bytes of the skippable frame from `input`
        let s1 := s.drop 8
        if s1.length < len then (d1, .err .failedToSkipFrame)
        else decodeAllLoop fuel d1 (s1.drop len) room out
      | (d1, .err e) => (d1, .err e)
      | (d1, .fault f) => (d1, .fault f)
      | (d1, .ok s1) =>
        match decodeAllFrame (s1.length + 2) d1 s1 room out with
        | (d2, .err e) => (d2, .err e)
        | (d2, .fault f) => (d2, .fault f)
        | (d2, .ok (s2, room', out')) => decodeAllLoop fuel d2 s2 room' out'

def Decoder.decodeAll (d : Decoder σ) (s : Src) (room : Nat) : Decoder σ × Out (Array Nat) :=
  decodeAllLoop (s.length + 1) d s room #[]

/-- `decode_all_to_vec(input, output)`: `vec` = the vector's content (`output.len()` bytes), `room` its
spare capacity (`capacity() − len()`; a `Vec` never has `capacity < len`).  Returns the vector's content
afterwards.  Statement by statement: `output.resize(cap, 0)`; `decode_all(input, &mut output[len..])`;
on `Ok(n)` `output.resize(min(len + n, cap), 0)`, on `Err` `output.resize(len, 0)` — both are
truncations of the resized vector, whose first `len` bytes `decode_all` cannot touch (it is handed
the slice behind them) and whose next `n` bytes are the bytes `decode_all` wrote. -/
def Decoder.decodeAllToVec (d : Decoder σ) (s : Src) (vec : Array Nat) (room : Nat) :
    Decoder σ × Array Nat × Out Unit :=
  let len := vec.size
  let cap := len + room
  let resized := vec ++ Array.replicate (cap - len) 0
  match d.decodeAll s (resized.size - len) with
  | (d', .ok out) =>
    -- the target slice `output[len..]` now starts with the `out.size` bytes written
    let after := resized.extract 0 len ++ out ++ resized.extract (len + out.size) resized.size
    (d', after.extract 0 (min (len + out.size) cap), .ok ())
  | (d', .err e) => (d', resized.extract 0 len, .err e)      -- whatever was written behind `len` is cut off
  | (d', .fault f) => (d', resized.extract 0 len, .fault f)

/-! ### streaming front end -/

/-- the `while` loop of `StreamingDecoder::read` -/
def streamingFill : Nat → Decoder σ → Src → Nat → Decoder σ × Out Src
  | 0, d, s, _ => (d, .ok s)
  | fuel + 1, d, s, n =>
    if d.canCollect < n ∧ !d.isFinished then
      match d.decodeBlocks s (.uptoBytes (n - d.canCollect)) with
      | (d1, .err e) => (d1, .err e)
      | (d1, .fault f) => (d1, .fault f)
      | (d1, .ok (s1, _)) => streamingFill fuel d1 s1 n
    else (d, .ok s)

/-- `StreamingDecoder::read(buf)` with `buf.len() = n` → (rest of source, bytes delivered) -/
def streamingRead (d : Decoder σ) (s : Src) (n : Nat) : Decoder σ × Out (Src × Array Nat) :=
  if d.isFinished ∧ d.canCollect = 0 then (d, .ok (s, #[]))
  else
    match streamingFill (s.length + 2) d s n with
    | (d1, .err e) => (d1, .err e)
    | (d1, .fault f) => (d1, .fault f)
    | (d1, .ok s1) =>
      let (d2, out) := d1.read n
      (d2, .ok (s1, out))

end Zstd.Model
