import Zstd.Basic
/-
Bit-level I/O of ruzstd, mirrored operation by operation.

  * `BitReader`          — `ruzstd/src/bit_io/bit_reader.rs`          (forward, little-endian fields)
  * `BitReaderRev`       — `ruzstd/src/bit_io/bit_reader_reverse.rs`  (backward, 64-bit container)
  * `BitWriter`          — `ruzstd/src/bit_io/bit_writer.rs`

Conventions: bytes are `Nat`s (< 256 is a hypothesis of the theorems, the driver only feeds bytes),
`u64`/`u8`/`usize` values are `Nat`s; where the Rust code would panic (debug-build arithmetic
overflow, shift by ≥ width, index out of bounds, `assert!`/`debug_assert!`, `panic!`) the model
returns a `Fault` that names the site.  The harness is built with `debug-assertions = true` and
`overflow-checks = true`, so these are the semantics the correspondence observes.

Assertions of the Rust code that are arithmetic tautologies are not modelled as checks; they are
listed here so that nobody has to rediscover them:
  bit_reader.rs:63   `left + full*8 + last == n`           (definition of `last`)
  bit_reader.rs:69   `idx % 8 == 0` after `idx += 8 - idx%8`
  bit_reader.rs:78   `n - bit_shift == last`
  bit_reader.rs:88   `idx == old_idx + n`
  bit_reader_reverse.rs:219  `bits_consumed < 8` at the end of `refill` (`& 7` or `= 0` in every case)
  bit_writer.rs:135  `bits_in_partial + num_bits >= 64` (the cold path is only called in the `else`)
  bit_writer.rs:161  `num_bits < 8` after the `while num_bits / 8 > 0` loop
  bit_writer.rs:65   second assert of `change_bits_64` (after `flush`, `bits_in_partial` is 0 … 7·8, see model)
-/
namespace Zstd.Model.BitIO
open Zstd

/-- `u64` truncation -/
@[inline] def u64 (x : Nat) : Nat := x % 2 ^ 64

/-! ## Forward reader -/

/-- `GetBitsError` plus panics -/
inductive BitErr where
  | tooManyBits (requested limit : Nat)
  | notEnoughRemainingBits (requested remaining : Nat)
  | fault (f : Fault)
  deriving Repr, DecidableEq

structure BitReader where
  src : Array Nat
  /-- counts bits already read -/
  idx : Nat := 0
  deriving Repr, DecidableEq

namespace BitReader

def new (src : Array Nat) : BitReader := { src := src, idx := 0 }

/-- `source.len() * 8 - idx` (usize; underflow is a debug-build panic) -/
def bitsLeft (r : BitReader) : Except Fault Nat :=
  if r.idx > r.src.size * 8 then .error (.overflow "bit_reader.rs:14:bits_left") else .ok (r.src.size * 8 - r.idx)

def bitsRead (r : BitReader) : Nat := r.idx

def returnBits (r : BitReader) (n : Nat) : Except Fault BitReader :=
  if n > r.idx then .error (.assert "bit_reader.rs:23:return_bits") else .ok { r with idx := r.idx - n }

/-- the `for _ in 0..full_bytes_needed` loop: `value |= byte << bit_shift` -/
def collectFull (src : Array Nat) : Nat → Nat → Nat → Nat → Except Fault (Nat × Nat × Nat)
  | 0, byteIdx, shift, value => .ok (value, byteIdx, shift)
  | k + 1, byteIdx, shift, value =>
    match src[byteIdx]? with
    | none => .error (.index "bit_reader.rs:73:get_bits")
    | some b => collectFull src k (byteIdx + 1) (shift + 8) (value ||| u64 (b <<< shift))

def getBits (r : BitReader) (n : Nat) : Except BitErr (Nat × BitReader) :=
  if n > 64 then .error (.tooManyBits n 64)
  else
    match r.bitsLeft with
    | .error f => .error (.fault f)
    | .ok left =>
      if left < n then .error (.notEnoughRemainingBits n left)
      else
        let inByte := 8 - r.idx % 8        -- bits_left_in_current_byte
        let skip := 8 - inByte             -- bits_not_needed_in_current_byte
        match r.src[r.idx / 8]? with
        | none => .error (.fault (.index "bit_reader.rs:48:get_bits"))   -- e.g. `get_bits(0)` at the very end
        | some b0 =>
          let value := b0 >>> skip
          if inByte ≥ n then
            .ok (value &&& (2 ^ n - 1), { r with idx := r.idx + n })
          else
            let idx1 := r.idx + inByte
            let full := (n - inByte) / 8
            let last := n - inByte - full * 8
            match collectFull r.src full (idx1 / 8) inByte value with
            | .error f => .error (.fault f)
            | .ok (value, byteIdx, shift) =>
              if last > 0 then
                match r.src[byteIdx]? with
                | none => .error (.fault (.index "bit_reader.rs:82:get_bits"))
                | some b => .ok (value ||| u64 ((b &&& (2 ^ last - 1)) <<< shift), { r with idx := r.idx + n })
              else .ok (value, { r with idx := r.idx + n })

end BitReader

/-! ## Reversed reader -/

structure BitReaderRev where
  src : Array Nat
  /-- index of the lowest byte currently in the container window -/
  index : Nat
  /-- `u8` -/
  bitsConsumed : Nat
  extraBits : Nat
  /-- `u64` -/
  container : Nat
  deriving Repr, DecidableEq

/-- `u64::from_le_bytes(src[i..][..8])`, `none` if the slice is out of bounds -/
def le64At (src : Array Nat) (i : Nat) : Option Nat :=
  if i + 8 ≤ src.size then some (leNat ((src.extract i (i + 8)).toList)) else none

namespace BitReaderRev

def new (src : Array Nat) : BitReaderRev :=
  { src := src, index := src.size, bitsConsumed := 64, extraBits := 0, container := 0 }

/-- `isize`; may go negative once the reader runs past the beginning of the source -/
def bitsRemaining (r : BitReaderRev) : Int :=
  (r.index : Int) * 8 + (64 - (r.bitsConsumed : Int)) - (r.extraBits : Int)

/-- `refill` — the four cases of the Rust function, in order -/
def refill (r : BitReaderRev) : Except Fault BitReaderRev :=
  let bytesConsumed := r.bitsConsumed / 8
  if bytesConsumed = 0 then .ok r
  else if r.index ≥ bytesConsumed then
    -- case 1: slide the 8-byte window down by `bytesConsumed`
    let index' := r.index - bytesConsumed
    match le64At r.src index' with
    | none => .error (.index "bit_reader_reverse.rs:189:refill")
    | some c => .ok { r with index := index', bitsConsumed := r.bitsConsumed % 8, container := c }
  else if r.index > 0 then
    -- case 2: the last portion of the source; window = first 8 bytes (zero-extended)
    let c := if r.src.size ≥ 8 then leNat ((r.src.extract 0 8).toList) else leNat r.src.toList
    if 8 * r.index > 255 ∨ 8 * r.index > r.bitsConsumed then .error (.overflow "bit_reader_reverse.rs:200:refill")
    else
      let bc := r.bitsConsumed - 8 * r.index
      if bc ≥ 64 then .error (.overflow "bit_reader_reverse.rs:203:refill:shl")
      else .ok { r with index := 0, container := u64 (c <<< bc), extraBits := r.extraBits + bc, bitsConsumed := 0 }
  else if r.bitsConsumed < 64 then
    -- case 3: shift out the used bits, zero fill
    .ok { r with container := u64 (r.container <<< r.bitsConsumed), extraBits := r.extraBits + r.bitsConsumed, bitsConsumed := 0 }
  else
    -- case 4: everything has been read; only zeroes from now on
    .ok { r with extraBits := r.extraBits + r.bitsConsumed, bitsConsumed := 0, container := 0 }

def peekBits (r : BitReaderRev) (n : Nat) : Except Fault Nat :=
  if n = 0 then .ok 0
  else if n ≥ 64 then .error (.overflow "bit_reader_reverse.rs:243:peek_bits:1<<n")
  else if r.bitsConsumed + n > 64 then .error (.overflow "bit_reader_reverse.rs:244:peek_bits:shift_by")
  else .ok ((r.container >>> (64 - r.bitsConsumed - n)) &&& (2 ^ n - 1))

def consume (r : BitReaderRev) (n : Nat) : Except Fault BitReaderRev :=
  if r.bitsConsumed + n > 255 then .error (.overflow "bit_reader_reverse.rs:278:consume")
  else if r.bitsConsumed + n > 64 then .error (.assert "bit_reader_reverse.rs:279:consume")
  else .ok { r with bitsConsumed := r.bitsConsumed + n }

/-- `get_bits(n: u8)`.  Supported without fault for every `n ≤ 56` in every reachable state
(`bitReaderRev_getBits_ok`); `57 ≤ n ≤ 63` works only when the container happens to be aligned;
`n ≥ 64` always panics (`1u64 << n`). -/
def getBits (r : BitReaderRev) (n : Nat) : Except Fault (Nat × BitReaderRev) :=
  if r.bitsConsumed + n > 255 then .error (.overflow "bit_reader_reverse.rs:226:get_bits")
  else
    match (if r.bitsConsumed + n > 64 then r.refill else .ok r) with
    | .error f => .error f
    | .ok r =>
      match r.peekBits n with
      | .error f => .error f
      | .ok v =>
        match r.consume n with
        | .error f => .error f
        | .ok r => .ok (v, r)

def peekBitsTriple (r : BitReaderRev) (sum n1 n2 n3 : Nat) : Except Fault (Nat × Nat × Nat) :=
  if sum = 0 then .ok (0, 0, 0)
  else if r.bitsConsumed + sum > 64 then .error (.overflow "bit_reader_reverse.rs:259:peek_bits_triple")
  else if n1 ≥ 64 ∨ n2 ≥ 64 ∨ n3 ≥ 64 ∨ n3 + n2 > 255 then .error (.overflow "bit_reader_reverse.rs:261:peek_bits_triple")
  else
    let all := r.container >>> (64 - r.bitsConsumed - sum)
    .ok ((all >>> (n3 + n2)) &&& (2 ^ n1 - 1), (all >>> n3) &&& (2 ^ n2 - 1), all &&& (2 ^ n3 - 1))

/-- `get_bits_triple(n1, n2, n3)`: one refill and one consume when the sum is at most 56 -/
def getBitsTriple (r : BitReaderRev) (n1 n2 n3 : Nat) : Except Fault ((Nat × Nat × Nat) × BitReaderRev) :=
  if n1 + n2 > 255 ∨ n1 + n2 + n3 > 255 then .error (.overflow "bit_reader_reverse.rs:285:get_bits_triple")
  else
    let sum := n1 + n2 + n3
    if sum ≤ 56 then
      match r.refill with
      | .error f => .error f
      | .ok r =>
        match r.peekBitsTriple sum n1 n2 n3 with
        | .error f => .error f
        | .ok t =>
          match r.consume sum with
          | .error f => .error f
          | .ok r => .ok (t, r)
    else
      match r.getBits n1 with
      | .error f => .error f
      | .ok (a, r) =>
        match r.getBits n2 with
        | .error f => .error f
        | .ok (b, r) =>
          match r.getBits n3 with
          | .error f => .error f
          | .ok (c, r) => .ok ((a, b, c), r)

end BitReaderRev

/-! ## Writer -/

structure BitWriter where
  output : Array Nat := #[]
  /-- `u64` -/
  partialBits : Nat := 0
  bitsInPartial : Nat := 0
  bitIdx : Nat := 0
  deriving Repr, DecidableEq

namespace BitWriter

def new : BitWriter := {}

/-- `BitWriter::from(output)` -/
def ofOutput (out : Array Nat) : BitWriter := { output := out, bitIdx := out.size * 8 }

def index (w : BitWriter) : Nat := w.bitIdx + w.bitsInPartial

def misaligned (w : BitWriter) : Nat :=
  if w.index % 8 = 0 then 0 else 8 - w.index % 8

def pushBytes (out : Array Nat) (bs : List Nat) : Array Nat := bs.foldl (fun o b => o.push b) out

def flush (w : BitWriter) : Except Fault BitWriter :=
  if w.bitsInPartial % 8 ≠ 0 then .error (.assert "bit_writer.rs:116:flush")
  else
    let full := w.bitsInPartial / 8
    if full > 8 then .error (.index "bit_writer.rs:120:flush")
    else if full * 8 ≥ 64 then .error (.overflow "bit_writer.rs:121:flush:shr")
    else .ok { output := pushBytes w.output ((leBytes 8 w.partialBits).take full),
               partialBits := w.partialBits >>> (full * 8),
               bitsInPartial := w.bitsInPartial - full * 8,
               bitIdx := w.bitIdx + full * 8 }

/-- the `while num_bits / 8 > 0` loop of the cold path -/
def coldBytes : Nat → Array Nat → Nat → Nat → Nat → Array Nat × Nat × Nat × Nat
  | 0, out, nb, bits, bitIdx => (out, nb, bits, bitIdx)
  | fuel + 1, out, nb, bits, bitIdx =>
    if nb / 8 > 0 then coldBytes fuel (out.push (bits % 256)) (nb - 8) (bits >>> 8) (bitIdx + 8)
    else (out, nb, bits, bitIdx)

def writeBitsCold (w : BitWriter) (bits n : Nat) : Except Fault BitWriter :=
  if w.bitsInPartial > 64 then .error (.overflow "bit_writer.rs:137:write_bits_64_cold")
  else
    let free := 64 - w.bitsInPartial
    let part := u64 (bits <<< (64 - free))
    let merged := w.partialBits ||| part
    let out := pushBytes w.output (leBytes 8 merged)
    if n < free then .error (.overflow "bit_writer.rs:148:write_bits_64_cold")
    else if free ≥ 64 then .error (.overflow "bit_writer.rs:149:write_bits_64_cold:shr")   -- `bits >> 64`
    else
      let (out, nb, bits', bitIdx) := coldBytes (n / 8 + 1) out (n - free) (bits >>> free) (w.bitIdx + 64)
      if nb > 0 then .ok { output := out, partialBits := bits' &&& (2 ^ nb - 1), bitsInPartial := nb, bitIdx := bitIdx }
      else .ok { output := out, partialBits := 0, bitsInPartial := 0, bitIdx := bitIdx }

/-- `write_bits(bits, num_bits)`; precondition of the Rust code: `bits < 2^num_bits`
(only `bits.ilog2() <= num_bits` is `debug_assert`ed) -/
def writeBits (w : BitWriter) (bits n : Nat) : Except Fault BitWriter :=
  if n = 0 then .ok w
  else if bits > 0 ∧ Nat.log2 bits > n then .error (.assert "bit_writer.rs:176:write_bits_64")
  else if n + w.bitsInPartial < 64 then
    .ok { w with partialBits := w.partialBits ||| u64 (bits <<< w.bitsInPartial), bitsInPartial := w.bitsInPartial + n }
  else writeBitsCold w bits n

/-- `while num_bits >= 8 { output[idx] = bits as u8; … }` of `change_bits_64` -/
def changeFull : Nat → Array Nat → Nat → Nat → Nat → Except Fault (Array Nat × Nat × Nat × Nat)
  | 0, out, idx, bits, nb => .ok (out, idx, bits, nb)
  | fuel + 1, out, idx, bits, nb =>
    if nb ≥ 8 then
      if idx < out.size then changeFull fuel (out.set! idx (bits % 256)) (idx + 1) (bits >>> 8) (nb - 8)
      else .error (.index "bit_writer.rs:91:change_bits_64")
    else .ok (out, idx, bits, nb)

def changeBits (w : BitWriter) (idx bits n : Nat) : Except Fault BitWriter :=
  match w.flush with
  | .error f => .error f
  | .ok w =>
    if ¬ (idx + n < w.index) then .error (.assert "bit_writer.rs:64:change_bits_64")
    else if ¬ (w.index - (idx + n) > w.bitsInPartial) then .error (.assert "bit_writer.rs:65:change_bits_64")
    else
      -- unaligned head
      let head : Except Fault (Array Nat × Nat × Nat × Nat) :=
        if idx % 8 ≠ 0 then
          let first := 8 - idx % 8
          if first > n then .error (.assert "bit_writer.rs:73:change_bits_64")
          else
            match w.output[idx / 8]? with
            | none => .error (.index "bit_writer.rs:75:change_bits_64")
            | some b =>
              let kept := b &&& (255 >>> first)
              let newBits := (u64 (bits <<< (8 - first))) % 256
              .ok (w.output.set! (idx / 8) (kept ||| newBits), idx + first, bits >>> first, n - first)
        else .ok (w.output, idx, bits, n)
      match head with
      | .error f => .error f
      | .ok (out, idx, bits, nb) =>
        match changeFull (nb / 8 + 1) out (idx / 8) bits nb with
        | .error f => .error f
        | .ok (out, bidx, bits, nb) =>
          if nb > 0 then
            match out[bidx]? with
            | none => .error (.index "bit_writer.rs:99:change_bits_64")
            | some b => .ok { w with output := out.set! bidx ((b &&& ((255 <<< nb) % 256)) ||| (bits % 256)) }
          else .ok { w with output := out }

def appendBytes (w : BitWriter) (data : List Nat) : Except Fault BitWriter :=
  if w.misaligned ≠ 0 then .error (.assert "bit_writer.rs:107:append_bytes")
  else
    match w.flush with
    | .error f => .error f
    | .ok w => .ok { w with output := pushBytes w.output data, bitIdx := w.bitIdx + data.length * 8 }

/-- `reset_to(index)`: `Vec::resize(index / 8, 0)` truncates or zero-extends -/
def resetTo (w : BitWriter) (index : Nat) : Except Fault BitWriter :=
  if index % 8 ≠ 0 then .error (.assert "bit_writer.rs:48:reset_to")
  else
    let len := index / 8
    let out := if len ≤ w.output.size then w.output.extract 0 len
               else pushBytes w.output (List.replicate (len - w.output.size) 0)
    .ok { output := out, partialBits := 0, bitsInPartial := 0, bitIdx := index }

def dump (w : BitWriter) : Except Fault (Array Nat) :=
  if w.misaligned ≠ 0 then .error (.assert "bit_writer.rs:197:dump")
  else
    match w.flush with
    | .error f => .error f
    | .ok w => if w.partialBits ≠ 0 then .error (.assert "bit_writer.rs:200:dump") else .ok w.output

end BitWriter

end Zstd.Model.BitIO
