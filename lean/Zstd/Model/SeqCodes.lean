import Zstd.Basic
import Zstd.Gen.DecTables
import Zstd.Gen.EncTables
import Zstd.Gen.Consts
/-
Model of the pure functions of the sequence coder.  Every table row, range arm and constant is
imported from `Zstd.Gen` (regenerated from /repo on every run); only the *shape* of the lookup is
written by hand.

Rust anchors: decoding/sequence_section_decoder.rs `lookup_ll_code`, `lookup_ml_code`;
encoding/blocks/compressed.rs `encode_literal_length`, `encode_match_len`, `encode_offset`,
`encode_seqnum`; decoding/sequence_execution.rs `do_offset_history`;
blocks/sequence_section.rs `SequencesHeader::parse_from_header`.
-/
namespace Zstd.Model
open Zstd

def lookupRow : List (Nat × Nat × Nat) → Nat → Option (Nat × Nat)
  | [], _ => none
  | (c, b, n) :: rest, code => if c = code then some (b, n) else lookupRow rest code

/-- `lookup_ll_code`; `.error` = the `unreachable!` arm -/
def lookupLL (code : Nat) : Except Fault (Nat × Nat) :=
  if code ≤ Gen.llDecIdentHi then .ok (code + Gen.llDecIdentAdd, 0)
  else match lookupRow Gen.llDecRows code with
    | some r => .ok r
    | none => .error (.unreachable "sequence_section_decoder.rs:lookup_ll_code")

/-- `lookup_ml_code`; `.error` = the `unreachable!` arm -/
def lookupML (code : Nat) : Except Fault (Nat × Nat) :=
  if code ≤ Gen.mlDecIdentHi then .ok (code + Gen.mlDecIdentAdd, 0)
  else match lookupRow Gen.mlDecRows code with
    | some r => .ok r
    | none => .error (.unreachable "sequence_section_decoder.rs:lookup_ml_code")

/-- first row `(lo, hi, code, base, bits)` with `lo ≤ v ≤ hi` gives `(code, v - base, bits)`;
`base > v` would be a `u32` underflow in `len - base` (debug-build panic) -/
def encRow : List (Nat × Nat × Nat × Nat × Nat) → Nat → Option (Except Unit (Nat × Nat × Nat))
  | [], _ => none
  | (lo, hi, code, base, bits) :: rest, v =>
    if lo ≤ v ∧ v ≤ hi then
      (if base ≤ v then some (.ok (code, v - base, bits)) else some (.error ()))
    else encRow rest v

def encodeWith (site : String) (min identLo identHi identSub upper : Nat)
    (rows : List (Nat × Nat × Nat × Nat × Nat)) (v : Nat) : Except Fault (Nat × Nat × Nat) :=
  if v < min then .error (.unreachable site)
  else if identLo ≤ v ∧ v ≤ identHi then
    (if identSub ≤ v % 256 then .ok (v % 256 - identSub, 0, 0) else .error (.overflow site))
  else if v ≥ upper then .error (.unreachable site)
  else match encRow rows v with
    | some (.ok r) => .ok r
    | some (.error ()) => .error (.overflow site)
    | none => .error (.unreachable site)   -- non-exhaustive match cannot compile; kept total

/-- `encode_literal_length` : (code, extra value, extra bits) -/
def encodeLL (v : Nat) : Except Fault (Nat × Nat × Nat) :=
  encodeWith "compressed.rs:encode_literal_length" Gen.llEncMin Gen.llEncIdentLo Gen.llEncIdentHi
    Gen.llEncIdentSub Gen.llEncUpper Gen.llEncRows v

/-- `encode_match_len` : (code, extra value, extra bits) -/
def encodeML (v : Nat) : Except Fault (Nat × Nat × Nat) :=
  encodeWith "compressed.rs:encode_match_len" Gen.mlEncMin Gen.mlEncIdentLo Gen.mlEncIdentHi
    Gen.mlEncIdentSub Gen.mlEncUpper Gen.mlEncRows v

/-- `encode_offset(len)`: `log = len.ilog2()` (panics on 0), `lower = len & ((1 << log) - 1)` -/
def encodeOffset (v : Nat) : Except Fault (Nat × Nat × Nat) :=
  if v = 0 then .error (.assert "compressed.rs:encode_offset:ilog2(0)")
  else
    let log := Nat.log2 v
    .ok (log, v &&& (2 ^ log - 1), log)

/-- decoder side: offset value from code and extra bits; codes above `MAX_OFFSET_CODE` are
rejected with `UnsupportedOffset` before the shift (sequence_section_decoder.rs) -/
def decodeOffsetValue (code extra : Nat) : Option Nat :=
  if code > Gen.maxOffsetCode then none else some ((1 <<< code) + extra)

/-- `do_offset_history(offset_value, lit_len, scratch)` → (actual offset, new scratch).
`offset_value = 0` would underflow `offset_value - 3`. -/
def doOffsetHistory (ov litLen : Nat) (s : Nat × Nat × Nat) : Except Fault (Nat × (Nat × Nat × Nat)) :=
  let (s0, s1, s2) := s
  if ov = 0 then .error (.overflow "sequence_execution.rs:do_offset_history:offset_value-3") else
  let actual :=
    if litLen > 0 then
      (if ov = 1 then s0 else if ov = 2 then s1 else if ov = 3 then s2 else ov - 3)
    else
      (if ov = 1 then s1 else if ov = 2 then s2 else if ov = 3 then s0 - 1 else ov - 3)
  let s' :=
    if litLen > 0 then
      (if ov = 1 then (s0, s1, s2) else if ov = 2 then (actual, s0, s2) else (actual, s0, s1))
    else
      (if ov = 1 then (actual, s0, s2) else (actual, s0, s1))
  .ok (actual, s')

/-- `encode_seqnum`: arms from `Gen.seqnumArms` = [(lo1,hi1),(lo2,hi2),(lo3,hi3)] -/
def encodeSeqnum (n : Nat) : Except Fault (List Nat) :=
  match Gen.seqnumArms with
  | [(lo1, hi1), (lo2, hi2), (lo3, hi3)] =>
    if lo1 ≤ n ∧ n ≤ hi1 then .ok [n % 256]       -- write_bits(seqnum as u32, 8): dirty upper bits would assert
    else if lo2 ≤ n ∧ n ≤ hi2 then .ok [(n / 256 ||| 0x80) % 256, n % 256]
    else if lo3 ≤ n ∧ n ≤ hi3 then
      (if n < Gen.seqnumSub then .error (.overflow "compressed.rs:encode_seqnum:seqnum-K") else
      let e := n - Gen.seqnumSub
      let upper := e / 256 % 256
      let lower := e % 256
      if Gen.seqnumLowFirst then .ok [255, lower, upper] else .ok [255, upper, lower])
    else .error (.unreachable "compressed.rs:encode_seqnum")
  | _ => .error (.unreachable "compressed.rs:encode_seqnum:arms")

inductive SeqHdrErr where
  | notEnoughBytes (need got : Nat)
  deriving Repr, DecidableEq

/-- `SequencesHeader::parse_from_header` → (num_sequences, modes byte?, bytes read) -/
def parseSeqHeader (src : List Nat) : Except SeqHdrErr (Nat × Option Nat × Nat) :=
  match src with
  | [] => .error (.notEnoughBytes 1 0)
  | b0 :: rest =>
    if b0 = 0 then .ok (0, none, 1)
    else if b0 ≤ 127 then
      match rest with
      | m :: _ => .ok (b0, some m, 2)
      | [] => .error (.notEnoughBytes 2 src.length)
    else if b0 ≤ 254 then
      match rest with
      | [] => .error (.notEnoughBytes 2 src.length)
      | b1 :: rest2 =>
        let n := (b0 - 128) * 256 + b1
        if n ≠ 0 then
          match rest2 with
          | m :: _ => .ok (n, some m, 3)
          | [] => .error (.notEnoughBytes 3 src.length)
        else .ok (0, none, 2)
    else
      match rest with
      | b1 :: b2 :: m :: _ => .ok (b1 + b2 * 256 + 0x7F00, some m, 4)
      | _ => .error (.notEnoughBytes 4 src.length)

end Zstd.Model
