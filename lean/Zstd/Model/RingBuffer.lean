import Zstd.Basic
import Zstd.Gen.Ring
/-
Model of `ruzstd/src/decoding/ringbuffer.rs` (the unsafe output window).

Memory is an array of cells `Option Byte` whose size IS the size of the current allocation;
`none` = never written since this allocation.  The raw accessors `Mem.rd` / `Mem.wr` are the only
way the model touches memory: a read outside `[0, size)` is `Fault.oob`, a read of a `none` cell is
`Fault.uninit`, a write outside `[0, size)` is `Fault.oob`.  Hence "the operation returns `.ok`" is the
memory-safety claim, the deliberate over-copy of `copy_bytes_overshooting` included.

The comparison operators of the guards that select a copy path / a geometric case, and the chunk size,
are taken from `Zstd.Gen.Ring`, i.e. from the current source text (`tools/extract.py`).

Every Rust panic site reachable here returns a `Fault`: `debug_assert!`s (`.assert`), `% self.cap`
with `cap = 0` (`.divZero`), `usize` subtractions that are not guarded by a comparison (`.overflow`,
debug-build semantics), the explicit `panic!` of the checked `extend_from_within` (`.assert`).
`usize` *additions* are not checked: every sum is bounded by twice an allocation size, which Rust
limits to `isize::MAX`.

`log` is ghost state: the trace of raw-memory events at exactly the places where the feature-gated
hooks in `ringbuffer.rs` emit them (offsets relative to the buffer base).  Only the driver reads it.
-/
namespace Zstd.Model

/-! ### checked arithmetic, Except plumbing -/

/-- `a - b` on `usize` in a debug build -/
def usub (site : String) (a b : Nat) : Except Fault Nat :=
  if b ≤ a then .ok (a - b) else .error (.overflow site)

/-- `debug_assert!(c)` -/
def check (c : Prop) [Decidable c] (site : String) : Except Fault Unit :=
  if c then .ok () else .error (.assert site)

/-- `x % cap` -/
def umod (site : String) (x cap : Nat) : Except Fault Nat :=
  if cap = 0 then .error (.divZero site) else .ok (x % cap)

def npow2Go (n : Nat) : Nat → Nat → Nat
  | 0, p => p
  | fuel + 1, p => if n ≤ p then p else npow2Go n fuel (2 * p)

/-- `usize::next_power_of_two` (smallest power of two `≥ n`; `1` for `0`) -/
def npow2 (n : Nat) : Nat := npow2Go n n 1

/-- `usize::next_multiple_of` (the `rhs = 0` panic is unreachable: the chunk size is a positive constant) -/
def nextMultipleOf (n c : Nat) : Nat := if n % c = 0 then n else n + (c - n % c)

/-! ### raw memory -/

abbrev Mem := Array (Option Byte)

namespace Mem

/-- a fresh allocation: `n` uninitialised cells -/
def fresh (n : Nat) : Mem := Array.replicate n none

/-- view used by specifications only: the cell at `i`, `none` outside the allocation -/
def cell (m : Mem) (i : Nat) : Option Byte := m.getD i none

/-- view used by specifications only -/
def val (m : Mem) (i : Nat) : Byte := (m.cell i).getD 0

/-- raw read of one byte -/
def rd (m : Mem) (site : String) (i : Nat) : Except Fault Byte :=
  if h : i < m.size then
    match m[i] with
    | some b => .ok b
    | none => .error (.uninit site)
  else .error (.oob site)

/-- raw write of one byte -/
def wr (m : Mem) (site : String) (i : Nat) (b : Byte) : Except Fault Mem :=
  if h : i < m.size then .ok (m.set i (some b)) else .error (.oob site)

/-- raw read of `n` bytes starting at `off` (no access at all when `n = 0`) -/
def readN (m : Mem) (site : String) : Nat → Nat → Except Fault (List Byte)
  | _, 0 => .ok []
  | off, n + 1 =>
    match m.rd site off with
    | .error e => .error e
    | .ok b =>
      match readN m site (off + 1) n with
      | .error e => .error e
      | .ok bs => .ok (b :: bs)

/-- raw write of the bytes `l` starting at `off` -/
def writeL (site : String) : Mem → Nat → List Byte → Except Fault Mem
  | m, _, [] => .ok m
  | m, off, b :: bs =>
    match m.wr site off b with
    | .error e => .error e
    | .ok m' => writeL site m' (off + 1) bs

end Mem

/-! ### `copy_bytes_overshooting` -/

/-- the arguments of one call: `src = (srcOff, srcLen)`, `dst = (dstOff, dstLen)`, `copy_at_least = n` -/
structure CboCall where
  srcOff : Nat
  srcLen : Nat
  dstOff : Nat
  dstLen : Nat
  n : Nat
  deriving Repr, DecidableEq

/-- events of the hook trace -/
inductive Ev where
  | alloc (n : Nat)
  | dealloc (n : Nat)
  | r (off len : Nat)
  | w (off len : Nat)
  | cbo (c : CboCall)
  deriving Repr, DecidableEq

/-- the `while src_ptr < src_ptr_end` loop: `k` chunks of `C` bytes, each chunk read completely
(`read_unaligned`) and then written completely (`write_unaligned`) -/
def cboChunks (C : Nat) : Nat → Mem → Nat → Nat → Except Fault Mem
  | 0, m, _, _ => .ok m
  | k + 1, m, src, dst =>
    match m.readN "ringbuffer.rs:copy_bytes_overshooting:chunk-read" src C with
    | .error e => .error e
    | .ok bs =>
      match Mem.writeL "ringbuffer.rs:copy_bytes_overshooting:chunk-write" m dst bs with
      | .error e => .error e
      | .ok m' => cboChunks C k m' (src + C) (dst + C)

/-- which path is taken and how many bytes it moves: `(path, moved)`; path 1 = one chunk,
2 = `next_multiple_of` in chunks, 3 = exact `copy_from_nonoverlapping` -/
def cboPath (C : Nat) (c : CboCall) : Nat × Nat :=
  let minBuf := min c.srcLen c.dstLen
  if Gen.ringCboOneChunkMin minBuf C ∧ Gen.ringCboOneChunkN c.n C then (1, C)
  else
    let cm := nextMultipleOf c.n C
    if Gen.ringCboMultiMin minBuf cm then (2, cm) else (3, c.n)

/-- the copying part of `copy_bytes_overshooting` -/
def cboCopy (C : Nat) (m : Mem) (c : CboCall) : Except Fault Mem :=
  let minBuf := min c.srcLen c.dstLen
  if Gen.ringCboOneChunkMin minBuf C ∧ Gen.ringCboOneChunkN c.n C then
    -- "Can copy in just one read+write, very common case"
    cboChunks C 1 m c.srcOff c.dstOff
  else
    let cm := nextMultipleOf c.n C
    if Gen.ringCboMultiMin minBuf cm then
      -- "Can copy in multiple simple instructions"
      cboChunks C (cm / C) m c.srcOff c.dstOff
    else
      -- "Fall back to standard memcopy"
      match m.readN "ringbuffer.rs:copy_bytes_overshooting:memcpy-read" c.srcOff c.n with
      | .error e => .error e
      | .ok bs => Mem.writeL "ringbuffer.rs:copy_bytes_overshooting:memcpy-write" m c.dstOff bs

/-- `copy_bytes_overshooting(src, dst, copy_at_least)` with chunk size `C = size_of::<CopyType>()`,
including the trailing `debug_assert_eq!(src[..copy_at_least], dst[..copy_at_least])` -/
def cbo (C : Nat) (m : Mem) (c : CboCall) : Except Fault Mem :=
  cboCopy C m c >>= fun m' =>
  m'.readN "ringbuffer.rs:copy_bytes_overshooting:assert-src" c.srcOff c.n >>= fun a =>
  m'.readN "ringbuffer.rs:copy_bytes_overshooting:assert-dst" c.dstOff c.n >>= fun b =>
  check (a = b) "ringbuffer.rs:copy_bytes_overshooting:debug_assert_eq" >>= fun _ =>
  pure m'

/-- hook events of one call -/
def cboEvents (C : Nat) (c : CboCall) : List Ev :=
  let p := cboPath C c
  [.cbo c, .r c.srcOff p.2, .w c.dstOff p.2]

/-! ### the ring buffer -/

structure RingBuffer where
  cap : Nat := 0
  head : Nat := 0
  tail : Nat := 0
  mem : Mem := #[]
  /-- ghost: hook trace, newest first -/
  log : List Ev := []

namespace RingBuffer

def new : RingBuffer := {}

/-- append events (given oldest first) to the ghost trace -/
def logEvs (r : RingBuffer) (es : List Ev) : RingBuffer := { r with log := es.reverse ++ r.log }

/-- `data_slice_lengths`: `(len_after_head, len_to_tail)` -/
def dataSliceLengths (r : RingBuffer) : Except Fault (Nat × Nat) :=
  if r.tail ≥ r.head then .ok (r.tail - r.head, 0)
  else usub "ringbuffer.rs:data_slice_lengths:cap-head" r.cap r.head >>= fun a => pure (a, r.tail)

/-- `free_slice_lengths`: `(len_to_head, len_after_tail)` -/
def freeSliceLengths (r : RingBuffer) : Except Fault (Nat × Nat) :=
  if r.tail < r.head then .ok (0, r.head - r.tail)
  else usub "ringbuffer.rs:free_slice_lengths:cap-tail" r.cap r.tail >>= fun a => pure (r.head, a)

/-- `len()` as executed -/
def lenC (r : RingBuffer) : Except Fault Nat :=
  r.dataSliceLengths >>= fun p => pure (p.1 + p.2)

/-- `free()` as executed (`saturating_sub(1)`) -/
def freeC (r : RingBuffer) : Except Fault Nat :=
  r.freeSliceLengths >>= fun p => pure (p.1 + p.2 - 1)

/-- `len()` for specifications (equal to `lenC` under the invariants) -/
def len (r : RingBuffer) : Nat :=
  if r.tail ≥ r.head then r.tail - r.head else r.cap - r.head + r.tail

/-- `free()` for specifications -/
def free (r : RingBuffer) : Nat :=
  (if r.tail < r.head then r.head - r.tail else r.cap - r.tail + r.head) - 1

def clear (r : RingBuffer) : RingBuffer := { r with head := 0, tail := 0 }

/-- `reserve_amortized(amount)` -/
def reserveAmortized (r : RingBuffer) (amount : Nat) : Except Fault RingBuffer :=
  let newCap := max (npow2 r.cap) (npow2 (r.cap + amount)) + 1
  let newMem := Mem.fresh newCap
  if r.cap > 0 then
    r.dataSliceLengths >>= fun s =>
    r.mem.readN "ringbuffer.rs:reserve_amortized:read-s1" r.head s.1 >>= fun b1 =>
    Mem.writeL "ringbuffer.rs:reserve_amortized:write-s1" newMem 0 b1 >>= fun m1 =>
    r.mem.readN "ringbuffer.rs:reserve_amortized:read-s2" 0 s.2 >>= fun b2 =>
    Mem.writeL "ringbuffer.rs:reserve_amortized:write-s2" m1 s.1 b2 >>= fun m2 =>
    pure { cap := newCap, head := 0, tail := s.1 + s.2, mem := m2,
           log := [Ev.dealloc r.cap, .w s.1 s.2, .r 0 s.2, .w 0 s.1, .r r.head s.1, .alloc newCap] ++ r.log }
  else
    pure { r with cap := newCap, mem := newMem, log := Ev.alloc newCap :: r.log }

/-- `reserve(amount)` -/
def reserve (r : RingBuffer) (amount : Nat) : Except Fault RingBuffer :=
  r.freeC >>= fun free =>
  if Gen.ringReserveEnough free amount then pure r else r.reserveAmortized (amount - free)

/-- `push_back(byte)` -/
def pushBack (r : RingBuffer) (b : Byte) : Except Fault RingBuffer :=
  r.reserve 1 >>= fun r =>
  r.mem.wr "ringbuffer.rs:push_back:write" r.tail b >>= fun m =>
  umod "ringbuffer.rs:push_back:%cap" (r.tail + 1) r.cap >>= fun t =>
  pure { r with mem := m, tail := t, log := Ev.w r.tail 1 :: r.log }

/-- `get(idx)` -/
def get (r : RingBuffer) (idx : Nat) : Except Fault (Option Byte × RingBuffer) :=
  r.lenC >>= fun l =>
  if idx < l then
    umod "ringbuffer.rs:get:%cap" (r.head + idx) r.cap >>= fun i =>
    r.mem.rd "ringbuffer.rs:get:read" i >>= fun b =>
    pure (some b, { r with log := Ev.r i 1 :: r.log })
  else pure (none, r)

/-- `extend(data)` -/
def extend (r : RingBuffer) (data : List Byte) : Except Fault RingBuffer :=
  let len := data.length
  if len = 0 then pure r else
  r.reserve len >>= fun r =>
  r.lenC >>= fun l =>
  check (l + len < r.cap) "ringbuffer.rs:extend:debug_assert(len+len<cap)" >>= fun _ =>
  r.freeC >>= fun f =>
  check (f ≥ len) "ringbuffer.rs:extend:debug_assert(free>=len)" >>= fun _ =>
  r.freeSliceLengths >>= fun fs =>
  -- f1 = (tail, len_after_tail), f2 = (0, len_to_head)
  let f1Len := fs.2
  let f2Len := fs.1
  check (f1Len + f2Len ≥ len) "ringbuffer.rs:extend:debug_assert(f1+f2>=len)" >>= fun _ =>
  let inF1 := min len f1Len
  let inF2 := len - inF1
  check (inF1 + inF2 = len) "ringbuffer.rs:extend:debug_assert(in_f1+in_f2==len)" >>= fun _ =>
  (if inF1 > 0 then Mem.writeL "ringbuffer.rs:extend:write-f1" r.mem r.tail (data.take inF1) else pure r.mem) >>= fun m1 =>
  (if inF2 > 0 then Mem.writeL "ringbuffer.rs:extend:write-f2" m1 0 (data.drop inF1) else pure m1) >>= fun m2 =>
  umod "ringbuffer.rs:extend:%cap" (r.tail + len) r.cap >>= fun t =>
  let evs : List Ev := (if inF2 > 0 then [Ev.w 0 inF2] else []) ++ (if inF1 > 0 then [Ev.w r.tail inF1] else [])
  pure { r with mem := m2, tail := t, log := evs ++ r.log }

/-- `drop_first_n(amount)` -/
def dropFirstN (r : RingBuffer) (amount : Nat) : Except Fault RingBuffer :=
  r.lenC >>= fun l =>
  check (amount ≤ l) "ringbuffer.rs:drop_first_n:debug_assert(amount<=len)" >>= fun _ =>
  umod "ringbuffer.rs:drop_first_n:%cap" (r.head + min amount l) r.cap >>= fun h =>
  pure { r with head := h }

/-- `as_slices()`: the two occupied sections, read through the raw accessors -/
def asSlices (r : RingBuffer) : Except Fault ((List Byte × List Byte) × RingBuffer) :=
  r.dataSliceLengths >>= fun s =>
  r.mem.readN "ringbuffer.rs:as_slices:s1" r.head s.1 >>= fun a =>
  r.mem.readN "ringbuffer.rs:as_slices:s2" 0 s.2 >>= fun b =>
  pure ((a, b), { r with log := [Ev.r 0 s.2, .r r.head s.1] ++ r.log })

/-- one `copy_bytes_overshooting` call on the buffer's memory -/
def cboCall (C : Nat) (r : RingBuffer) (c : CboCall) : Except Fault RingBuffer :=
  cbo C r.mem c >>= fun m => pure { r with mem := m, log := (cboEvents C c).reverse ++ r.log }

/-- `extend_from_within_unchecked(start, len)`: the three geometric cases, five call sites -/
def extendFromWithinUnchecked (C : Nat) (r : RingBuffer) (start len : Nat) : Except Fault RingBuffer :=
  r.lenC >>= fun l =>
  check (start + len ≤ l) "ringbuffer.rs:extend_from_within_unchecked:debug_assert(start+len<=len)" >>= fun _ =>
  r.freeC >>= fun f =>
  check (f ≥ len) "ringbuffer.rs:extend_from_within_unchecked:debug_assert(free>=len)" >>= fun _ =>
  (if Gen.ringEfwuCase1 r.head r.tail then
    -- case 1: contiguous source, destination may wrap
    usub "ringbuffer.rs:efwu:case1:cap-tail" r.cap r.tail >>= fun capTail =>
    let afterTail := min len capTail
    usub "ringbuffer.rs:efwu:case1:tail-head-start" (r.tail - r.head) start >>= fun src1 =>
    r.cboCall C ⟨r.head + start, src1, r.tail, capTail, afterTail⟩ >>= fun r1 =>
    if Gen.ringEfwuTailSplit afterTail len then
      usub "ringbuffer.rs:efwu:case1:src.1-after_tail" src1 afterTail >>= fun src1' =>
      r1.cboCall C ⟨r.head + start + afterTail, src1', 0, r.head, len - afterTail⟩
    else pure r1
  else if Gen.ringEfwuCase2 (r.head + start) r.cap then
    -- case 2: contiguous source (below tail) and destination
    umod "ringbuffer.rs:efwu:case2:%cap" (r.head + start) r.cap >>= fun start' =>
    usub "ringbuffer.rs:efwu:case2:tail-start" r.tail start' >>= fun src1 =>
    usub "ringbuffer.rs:efwu:case2:head-tail" r.head r.tail >>= fun dst1 =>
    r.cboCall C ⟨start', src1, r.tail, dst1, len⟩
  else
    -- case 3: source may wrap, contiguous destination
    usub "ringbuffer.rs:efwu:case3:cap-head" r.cap r.head >>= fun capHead =>
    usub "ringbuffer.rs:efwu:case3:cap-head-start" capHead start >>= fun src1 =>
    let afterStart := min len src1
    usub "ringbuffer.rs:efwu:case3:head-tail" r.head r.tail >>= fun dst1 =>
    r.cboCall C ⟨r.head + start, src1, r.tail, dst1, afterStart⟩ >>= fun r1 =>
    if Gen.ringEfwuStartSplit afterStart len then
      usub "ringbuffer.rs:efwu:case3:dst.1-after_start" dst1 afterStart >>= fun dst1' =>
      r1.cboCall C ⟨0, r.tail, r.tail + afterStart, dst1', len - afterStart⟩
    else pure r1) >>= fun r2 =>
  umod "ringbuffer.rs:extend_from_within_unchecked:%cap" (r.tail + len) r.cap >>= fun t =>
  pure { r2 with tail := t }

/-- the checked `extend_from_within(start, len)` (explicit `panic!` when `start + len > len()`) -/
def extendFromWithin (C : Nat) (r : RingBuffer) (start len : Nat) : Except Fault RingBuffer :=
  r.lenC >>= fun l =>
  check (¬ start + len > l) "ringbuffer.rs:extend_from_within:panic(start+len>len)" >>= fun _ =>
  r.reserve len >>= fun r =>
  r.extendFromWithinUnchecked C start len

/-- `extend_and_fill(fill_with, fill_length)` -/
def extendAndFill (r : RingBuffer) (b : Byte) (n : Nat) : Except Fault RingBuffer :=
  if n = 0 then pure r else
  r.reserve n >>= fun r =>
  r.freeSliceLengths >>= fun fs =>
  -- (ptr1, len1) = (tail, len_after_tail), (ptr2, len2) = (0, len_to_head)
  let len1 := fs.2
  let len2 := fs.1
  check (len1 + len2 ≥ n) "ringbuffer.rs:extend_and_fill:debug_assert(len1+len2>=fill_length)" >>= fun _ =>
  let fill1 := min len1 n
  Mem.writeL "ringbuffer.rs:extend_and_fill:write1" r.mem r.tail (List.replicate fill1 b) >>= fun m1 =>
  (if fill1 < n then Mem.writeL "ringbuffer.rs:extend_and_fill:write2" m1 0 (List.replicate (n - fill1) b)
   else pure m1) >>= fun m2 =>
  umod "ringbuffer.rs:extend_and_fill:%cap" (r.tail + n) r.cap >>= fun t =>
  pure { r with mem := m2, tail := t, log := [Ev.w 0 (n - fill1), .w r.tail fill1] ++ r.log }

/-- `extend_from_reader(read, fill_length)`.  The reader is a script: the bytes it can still
deliver (`avail`); `read_exact` is the default one of `std::io::Read` / `io_nostd::Read`, which on a
short reader has already stored the bytes it got in the prefix of the target before failing.
Result: the buffer, whether the call returned `Ok`, what the reader has left.
On failure `tail` is not advanced: the zero-filled / partially filled cells stay in the free region. -/
def extendFromReader (r : RingBuffer) (avail : List Byte) (n : Nat) :
    Except Fault (RingBuffer × Bool × List Byte) :=
  if n = 0 then pure (r, true, avail) else
  r.reserve n >>= fun r =>
  r.freeSliceLengths >>= fun fs =>
  let len1 := fs.2
  let len2 := fs.1
  check (len1 + len2 ≥ n) "ringbuffer.rs:extend_from_reader:debug_assert(len1+len2>=fill_length)" >>= fun _ =>
  let fill1 := min len1 n
  let r := { r with log := [Ev.w 0 (n - fill1), .w r.tail fill1] ++ r.log }
  Mem.writeL "ringbuffer.rs:extend_from_reader:zero1" r.mem r.tail (List.replicate fill1 0) >>= fun m1 =>
  if avail.length < fill1 then
    Mem.writeL "ringbuffer.rs:extend_from_reader:read1" m1 r.tail avail >>= fun m1' =>
    pure ({ r with mem := m1' }, false, [])
  else
    Mem.writeL "ringbuffer.rs:extend_from_reader:read1" m1 r.tail (avail.take fill1) >>= fun m1' =>
    let avail := avail.drop fill1
    (if fill1 < n then
      let fill2 := n - fill1
      Mem.writeL "ringbuffer.rs:extend_from_reader:zero2" m1' 0 (List.replicate fill2 0) >>= fun m2 =>
      if avail.length < fill2 then
        Mem.writeL "ringbuffer.rs:extend_from_reader:read2" m2 0 avail >>= fun m2' =>
        pure (m2', false, ([] : List Byte))
      else
        Mem.writeL "ringbuffer.rs:extend_from_reader:read2" m2 0 (avail.take fill2) >>= fun m2' =>
        pure (m2', true, avail.drop fill2)
    else pure (m1', true, avail)) >>= fun res =>
    if res.2.1 then
      umod "ringbuffer.rs:extend_from_reader:%cap" (r.tail + n) r.cap >>= fun t =>
      pure ({ r with mem := res.1, tail := t }, true, res.2.2)
    else pure ({ r with mem := res.1 }, false, res.2.2)

end RingBuffer

/-! ### dead code (`#[allow(dead_code)]`, referenced by nothing the decoder can reach), for completeness -/

/-- `dst.copy_from_nonoverlapping(src, n)` on raw offsets -/
def copyExact (site : String) (m : Mem) (src dst n : Nat) : Except Fault Mem :=
  m.readN site src n >>= fun bs => Mem.writeL site m dst bs

/-- `copy_with_checks(m1_ptr, m2_ptr, f1_ptr, f2_ptr, m1_in_f1, m2_in_f1, m1_in_f2, m2_in_f2)` -/
def copyWithChecks (m : Mem) (m1 m2 f1 f2 m1InF1 m2InF1 m1InF2 m2InF2 : Nat) : Except Fault Mem :=
  (if m1InF1 ≠ 0 then copyExact "ringbuffer.rs:copy_with_checks:m1->f1" m m1 f1 m1InF1 else pure m) >>= fun m =>
  (if m2InF1 ≠ 0 then copyExact "ringbuffer.rs:copy_with_checks:m2->f1" m m2 (f1 + m1InF1) m2InF1 else pure m) >>= fun m =>
  (if m1InF2 ≠ 0 then copyExact "ringbuffer.rs:copy_with_checks:m1->f2" m (m1 + m1InF1) f2 m1InF2 else pure m) >>= fun m =>
  (if m2InF2 ≠ 0 then copyExact "ringbuffer.rs:copy_with_checks:m2->f2" m (m2 + m2InF1) (f2 + m1InF2) m2InF2 else pure m)

/-- `copy_without_checks`: the same four copies, unconditionally -/
def copyWithoutChecks (m : Mem) (m1 m2 f1 f2 m1InF1 m2InF1 m1InF2 m2InF2 : Nat) : Except Fault Mem :=
  copyExact "ringbuffer.rs:copy_without_checks:m1->f1" m m1 f1 m1InF1 >>= fun m =>
  copyExact "ringbuffer.rs:copy_without_checks:m2->f1" m m2 (f1 + m1InF1) m2InF1 >>= fun m =>
  copyExact "ringbuffer.rs:copy_without_checks:m1->f2" m (m1 + m1InF1) f2 m1InF2 >>= fun m =>
  copyExact "ringbuffer.rs:copy_without_checks:m2->f2" m (m2 + m2InF1) (f2 + m1InF2) m2InF2

namespace RingBuffer

/-- `extend_from_within_unchecked_branchless(start, len)` (calls `copy_with_checks`).  No hook events. -/
def extendFromWithinUncheckedBranchless (r : RingBuffer) (start len : Nat) : Except Fault RingBuffer :=
  let site := "ringbuffer.rs:extend_from_within_unchecked_branchless:"
  r.dataSliceLengths >>= fun s =>
  let s1Len := s.1
  let s2Len := s.2
  check (len ≤ s1Len + s2Len) (site ++ "debug_assert(len<=s1_len+s2_len)") >>= fun _ =>
  let startInS1 := min s1Len start
  let endInS1 := min s1Len (start + len)
  let m1 := r.head + startInS1
  usub (site ++ "end_in_s1-start_in_s1") endInS1 startInS1 >>= fun m1Len =>
  check (endInS1 ≤ s1Len) (site ++ "debug_assert(end_in_s1<=s1_len)") >>= fun _ =>
  check (startInS1 ≤ s1Len) (site ++ "debug_assert(start_in_s1<=s1_len)") >>= fun _ =>
  let startInS2 := start - s1Len  -- saturating_sub
  usub (site ++ "len-m1_len") len m1Len >>= fun rest =>
  let endInS2 := startInS2 + rest
  let m2 := startInS2
  let m2Len := endInS2 - startInS2  -- cannot underflow
  check (startInS2 ≤ s2Len) (site ++ "debug_assert(start_in_s2<=s2_len)") >>= fun _ =>
  check (endInS2 ≤ s2Len) (site ++ "debug_assert(end_in_s2<=s2_len)") >>= fun _ =>
  check (len = m1Len + m2Len) (site ++ "debug_assert_eq(len,m1_len+m2_len)") >>= fun _ =>
  r.freeSliceLengths >>= fun fs =>
  let f1Len := fs.2
  let f2Len := fs.1
  check (f1Len + f2Len ≥ m1Len + m2Len) (site ++ "debug_assert(f1_len+f2_len>=m1_len+m2_len)") >>= fun _ =>
  let m1InF1 := min m1Len f1Len
  let m1InF2 := m1Len - m1InF1  -- cannot underflow
  let m2InF1 := min (f1Len - m1InF1) m2Len  -- cannot underflow
  let m2InF2 := m2Len - m2InF1  -- cannot underflow
  check (m1Len = m1InF1 + m1InF2) (site ++ "debug_assert_eq(m1_len,..)") >>= fun _ =>
  check (m2Len = m2InF1 + m2InF2) (site ++ "debug_assert_eq(m2_len,..)") >>= fun _ =>
  check (f1Len ≥ m1InF1 + m2InF1) (site ++ "debug_assert(f1_len>=..)") >>= fun _ =>
  check (f2Len ≥ m1InF2 + m2InF2) (site ++ "debug_assert(f2_len>=..)") >>= fun _ =>
  check (len = m1InF1 + m2InF1 + m1InF2 + m2InF2) (site ++ "debug_assert_eq(len,sum)") >>= fun _ =>
  -- `buf + cap > f1_ptr + (m1_in_f1 + m2_in_f1)` and the same for f2: STRICT, so a copy that fills
  -- the first free section exactly up to the end of the allocation trips the assertion
  check (r.cap > r.tail + (m1InF1 + m2InF1)) (site ++ "debug_assert(buf+cap>f1_ptr+..)") >>= fun _ =>
  check (r.cap > 0 + (m1InF2 + m2InF2)) (site ++ "debug_assert(buf+cap>f2_ptr+..)") >>= fun _ =>
  check (((m1InF2 > 0) ≠ (m2InF1 > 0)) ∨ (m1InF2 = 0 ∧ m2InF1 = 0)) (site ++ "debug_assert(xor)") >>= fun _ =>
  copyWithChecks r.mem m1 m2 r.tail 0 m1InF1 m2InF1 m1InF2 m2InF2 >>= fun m =>
  umod (site ++ "%cap") (r.tail + len) r.cap >>= fun t =>
  pure { r with mem := m, tail := t }

end RingBuffer

end Zstd.Model
