import Zstd.Basic
import Zstd.Gen.Consts
import Zstd.Gen.Guards
import Zstd.Gen.Headers
/-
Model of the header parsers and header writers (C14, and the window part of C11).
Namespace `Zstd.Model.Hdr` (kept apart from the whole-decoder model of C01/C06/C07 in `Zstd.Model`).

Every shift/mask expression, match-arm table, threshold, constant and guard operator is imported
from `Zstd.Gen` (regenerated from /repo on every run); what is written by hand is the *control
flow* around them.  Rust panics are `Fault`s, Rust `Err(..)` values are the error enums below.

Rust anchors
  decoding/block_decoder.rs   `read_block_header`, `block_type`, `block_content_size(_unchecked)`, `is_last`
  encoding/block_header.rs    `BlockHeader::serialize`
  blocks/literals_section.rs  `LiteralsSection::{parse_from_header, header_bytes_needed, section_type}`
  encoding/blocks/compressed.rs `raw_literals`, `compress_literals` (header part)
  bit_io/bit_writer.rs        `write_bits`, `flush`, `dump`, `append_bytes`, `change_bits` (as used by the writers)
  decoding/frame.rs           `read_frame_header`, `FrameHeader::window_size`, `FrameDescriptor::*`
  encoding/frame_header.rs    `FrameHeader::{serialize, descriptor}`, `minify_val_fcs`
  encoding/util.rs            `find_min_size`, `minify_val`
-/
namespace Zstd.Model.Hdr
open Zstd

/-- first arm of a `match` table whose pattern equals `k` -/
def lookupArm {α : Type} : List (Nat × α) → Nat → Option α
  | [], _ => none
  | (p, v) :: rest, k => if p = k then some v else lookupArm rest k

/-- byte `i` of a slice; `0` outside.  ONLY used behind an explicit length check that returns a
`Fault.index` when the slice is too short (see `parseLitHeader`). -/
def byteAt (l : List Nat) (i : Nat) : Nat :=
  match l[i]? with
  | some v => v
  | none => 0

/-! ## Block header -/

inductive BlockHdrErr where
  /-- `read_exact` of the three header bytes failed; `got` bytes were available -/
  | readError (got : Nat)
  /-- `FoundReservedBlock` -/
  | reserved
  /-- `BlockSizeTooLarge { size }` -/
  | tooLarge (size : Nat)
  /-- `InvalidBlocktypeNumber { num }` (the `other =>` arm) -/
  | invalidType (num : Nat)
  deriving Repr, DecidableEq

/-- `blocks::block::BlockHeader`; `btype`: 0 Raw, 1 RLE, 2 Compressed, 3 Reserved -/
structure DecBlockHeader where
  last : Bool
  btype : Nat
  decompressedSize : Nat
  contentSize : Nat
  deriving Repr, DecidableEq

/-- `BlockDecoder::block_type` -/
def blockType (b0 b1 b2 : Nat) : Except BlockHdrErr Nat :=
  match lookupArm Gen.blockTypeMap (Gen.blockTypeExpr b0 b1 b2) with
  | some t => .ok t
  | none => .error (.invalidType (Gen.blockTypeExpr b0 b1 b2))

/-- `BlockDecoder::block_content_size` -/
def blockContentSize (b0 b1 b2 : Nat) : Except BlockHdrErr Nat :=
  let val := Gen.blockSizeExpr b0 b1 b2
  if Gen.blockSizeTooLarge val Gen.maxBlockSize then .error (.tooLarge val) else .ok val

/-- the `match btype { … }` tables of `read_block_header`: `none` = `block_size` -/
def sizeByType (arms : List (Nat × Option Nat)) (t blockSize : Nat) : Nat :=
  match lookupArm arms t with
  | some (some k) => k
  | _ => blockSize

/-- `BlockDecoder::read_block_header` on a source holding `src` → (header, bytes read) -/
def readBlockHeader (src : List Nat) : Except BlockHdrErr (DecBlockHeader × Nat) :=
  match src with
  | b0 :: b1 :: b2 :: _ =>
    match blockType b0 b1 b2 with
    | .error e => .error e
    | .ok t =>
      if t = 3 then .error .reserved else
      match blockContentSize b0 b1 b2 with
      | .error e => .error e
      | .ok size =>
        .ok ({ last := decide (Gen.blockLastExpr b0 b1 b2 = 1), btype := t,
               decompressedSize := sizeByType Gen.blockDecompressedSizeArms t size,
               contentSize := sizeByType Gen.blockContentSizeArms t size }, 3)
  | _ => .error (.readError src.length)

/-- encoder `BlockHeader::serialize`; `btype` as above (3 = `Reserved` panics).
`self.block_size << 3` is a `u32` shift: bits above 31 are lost silently. -/
def serializeBlockHeader (last : Bool) (btype size : Nat) : Except Fault (List Nat) :=
  match lookupArm Gen.encBlockTypeMap btype with
  | none => .error (.assert "block_header.rs:serialize:reserved block type")
  | some t =>
    let h := ((size <<< Gen.encBlockSizeShift) % 2 ^ 32 ||| (t <<< Gen.encBlockTypeShift)) ||| last.toNat
    .ok (leBytes Gen.encBlockBytes h)

/-! ## Literals section header: parser -/

inductive LitHdrErr where
  /-- `GetBitsError::NotEnoughRemainingBits { requested, remaining }` -/
  | getBits (requested remaining : Nat)
  /-- `IllegalLiteralSectionType { got }` -/
  | illegalType (got : Nat)
  /-- `NotEnoughBytes { have, need }` -/
  | notEnoughBytes (have_ need : Nat)
  | fault (f : Fault)
  deriving Repr, DecidableEq

/-- `LiteralsSection`; `ty`: 0 Raw, 1 RLE, 2 Compressed, 3 Treeless -/
structure LitSection where
  regen : Nat
  comp : Option Nat
  streams : Option Nat
  ty : Nat
  deriving Repr, DecidableEq

/-- `LiteralsSection::new()` -/
def LitSection.new : LitSection := { regen := 0, comp := none, streams := none, ty := 0 }

/-- `section_type(raw)` -/
def litSectionType (raw : Nat) : Except LitHdrErr Nat :=
  match lookupArm Gen.litTypeMap (Gen.litTypeOfRaw raw) with
  | some t => .ok t
  | none => .error (.illegalType (Gen.litTypeOfRaw raw))

/-- `header_bytes_needed(first_byte)` -/
def litHeaderBytesNeeded (first : Nat) : Except LitHdrErr Nat :=
  match litSectionType first with
  | .error e => .error e
  | .ok t =>
    let sf := Gen.litSizeFormatOfFirst first
    let tbl := if t = 0 ∨ t = 1 then Gen.litHdrBytesRawRle else Gen.litHdrBytesCompressed
    match lookupArm tbl sf with
    | some n => .ok n
    | none => .error (.fault (.unreachable "literals_section.rs:header_bytes_needed:size_format"))

/-- `parse_from_header(&mut self, raw)` → (updated section, bytes used).
`br.get_bits(2)` twice on a fresh `BitReader` over `raw` yields `raw[0] % 4` and `raw[0] / 4 % 4`
(or `NotEnoughRemainingBits` on an empty slice).  `num_streams` keeps its previous value for
Raw/RLE sections (the code does not reset it). -/
def parseLitHeader (self : LitSection) (raw : List Nat) : Except LitHdrErr (LitSection × Nat) :=
  match raw with
  | [] => .error (.getBits 2 0)
  | r0 :: _ =>
    let blockType := r0 % 4
    match litSectionType blockType with
    | .error e => .error e
    | .ok ty =>
      let sizeFormat := r0 / 4 % 4
      match litHeaderBytesNeeded r0 with
      | .error e => .error e
      | .ok need =>
        if raw.length < need then .error (.notEnoughBytes raw.length need) else
        let r1 := byteAt raw 1
        let r2 := byteAt raw 2
        let r3 := byteAt raw 3
        let r4 := byteAt raw 4
        if ty = 0 ∨ ty = 1 then
          match Gen.litParseRawRle sizeFormat r0 r1 r2 r3 r4, lookupArm Gen.litParseRawRleReach sizeFormat with
          | some (regen, used), some reach =>
            if raw.length < reach then .error (.fault (.index "literals_section.rs:parse_from_header:raw[i]")) else
            .ok ({ self with ty := ty, comp := none, regen := regen }, used)
          | _, _ => .error (.fault (.unreachable "literals_section.rs:parse_from_header:size_format"))
        else
          match lookupArm Gen.litStreams sizeFormat with
          | none => .error (.fault (.unreachable "literals_section.rs:parse_from_header:num_streams"))
          | some ns =>
            match Gen.litParseCompressed sizeFormat r0 r1 r2 r3 r4, lookupArm Gen.litParseCompressedReach sizeFormat with
            | some (regen, comp, used), some reach =>
              if raw.length < reach then .error (.fault (.index "literals_section.rs:parse_from_header:raw[i]")) else
              .ok ({ ty := ty, streams := some ns, regen := regen, comp := some comp }, used)
            | _, _ => .error (.fault (.unreachable "literals_section.rs:parse_from_header:size_format"))

/-! ## `BitWriter` as used by the header writers -/

/-- `BitWriter<Vec<u8>>`: output bytes, the 64-bit partial word, bits held in it.
(`bit_idx` is `8 * out.length`.) -/
structure BW where
  out : List Nat
  part : Nat
  bits : Nat
  deriving Repr, DecidableEq

def BW.new : BW := { out := [], part := 0, bits := 0 }
/-- `BitWriter::from(vec)` -/
def BW.from (v : List Nat) : BW := { out := v, part := 0, bits := 0 }
/-- `index()` -/
def BW.index (w : BW) : Nat := 8 * w.out.length + w.bits
/-- `misaligned()` -/
def BW.misaligned (w : BW) : Nat := if w.index % 8 = 0 then 0 else 8 - w.index % 8

/-- `write_bits_64`.  `debug_assert!(bits.ilog2() <= num_bits)` (note `<=`, not `<`), then either
the partial word absorbs the bits or the cold path spills 8 bytes. -/
def BW.writeBits (w : BW) (v n : Nat) : Except Fault BW :=
  if n = 0 then .ok w
  else if v > 0 ∧ Nat.log2 v > n then .error (.assert "bit_writer.rs:write_bits_64:debug_assert")
  else if n + w.bits < 64 then
    .ok { w with part := (w.part ||| (v <<< w.bits)) % 2 ^ 64, bits := w.bits + n }
  else
    -- write_bits_64_cold
    let free := 64 - w.bits
    let merged := (w.part ||| (v <<< (64 - free)) % 2 ^ 64)
    if free ≥ 64 then .error (.overflow "bit_writer.rs:write_bits_64_cold:bits >> 64") else
    let num := n - free
    let v' := v >>> free
    let full := num / 8
    let rest := num % 8
    .ok { out := w.out ++ leBytes 8 merged ++ leBytes full v',
          part := if rest > 0 then (v' >>> (8 * full)) &&& (2 ^ rest - 1) else 0,
          bits := rest }

/-- `flush()` -/
def BW.flush (w : BW) : Except Fault BW :=
  if w.bits % 8 ≠ 0 then .error (.assert "bit_writer.rs:flush:assert aligned") else
  let full := w.bits / 8
  .ok { out := w.out ++ leBytes full w.part, part := w.part >>> (8 * full), bits := w.bits - 8 * full }

/-- `dump()` -/
def BW.dump (w : BW) : Except Fault (List Nat) :=
  if w.misaligned ≠ 0 then .error (.assert "bit_writer.rs:dump:misaligned") else
  match w.flush with
  | .error f => .error f
  | .ok w' => if w'.part ≠ 0 then .error (.assert "bit_writer.rs:dump:debug_assert partial == 0") else .ok w'.out

/-- `append_bytes(data)` -/
def BW.appendBytes (w : BW) (data : List Nat) : Except Fault BW :=
  if w.misaligned ≠ 0 then .error (.assert "bit_writer.rs:append_bytes:misaligned") else
  match w.flush with
  | .error f => .error f
  | .ok w' => .ok { w' with out := w'.out ++ data }

/-- a sequence of `write_bits` calls -/
def BW.writeAll (w : BW) : List (Nat × Nat) → Except Fault BW
  | [] => .ok w
  | (v, n) :: rest =>
    match w.writeBits v n with
    | .error f => .error f
    | .ok w' => w'.writeAll rest

/-! ## Literals section header: the three forms the compressor writes -/

/-- `raw_literals(literals, writer)` on a fresh writer with no literal bytes appended: the writer
state afterwards (`n = literals.len()`, written `as u32`).  For `2^20 ≤ n < 2^21` the
`debug_assert` of `write_bits` (`ilog2 <= num_bits`) lets a stray bit through into `part`. -/
def rawLiteralsWriter (n : Nat) : Except Fault BW :=
  match BW.new.writeAll (Gen.rawLitWrites ++ [(n % 2 ^ 32, Gen.rawLitSizeBits)]) with
  | .error f => .error f
  | .ok w => w.appendBytes []

/-- the header bytes `raw_literals` writes before the literals themselves -/
def rawLiteralsHeader (n : Nat) : Except Fault (List Nat) :=
  match rawLiteralsWriter n with
  | .error f => .error f
  | .ok w => .ok w.out

/-- first arm `lo..hi => (size_format, size_bits)` containing `n` -/
def litSizeFormat : List (Nat × Nat × Nat × Nat) → Nat → Option (Nat × Nat)
  | [], _ => none
  | (lo, hi, sf, sb) :: rest, n => if lo ≤ n ∧ n < hi then some (sf, sb) else litSizeFormat rest n

/-- header of `compress_literals` as it stands when the function returns a compressed section:
type (new table ⇒ Compressed, else Treeless), size format chosen from `regen = literals.len()`,
regenerated size, compressed size.  (`comp` is patched in with `change_bits` after the payload
has been written; `compressedLiteralsPatched` below models that and is proved equal.) -/
def compressedLiteralsHeader (newTable : Bool) (regen comp : Nat) : Except Fault (List Nat) :=
  match litSizeFormat Gen.litSizeFormatArms regen with
  | none => .error (.unimplemented "compressed.rs:compress_literals:too many literals")
  | some (sf, sb) =>
    match BW.new.writeAll
        [(if newTable then Gen.litTypeNewTable else Gen.litTypeReuseTable, Gen.litTypeBits),
         (sf, Gen.litSizeFormatBits), (regen % 2 ^ 32, sb), (comp, sb)] with
    | .error f => .error f
    | .ok w => w.dump

/-- `change_bits_64(idx, bits, num_bits)` on the flushed output bytes (the writer is byte aligned
when `compress_literals` calls it).  `idxEnd` = `self.index()`. -/
def changeBits (out : List Nat) (idx bits numBits : Nat) : Except Fault (List Nat) :=
  let idxEnd := 8 * out.length
  if ¬ (idx + numBits < idxEnd) then .error (.assert "bit_writer.rs:change_bits_64:assert idx + num_bits < index") else
  -- unaligned head
  let k := idx % 8
  let first := 8 - k
  if k ≠ 0 ∧ ¬ (first ≤ numBits) then .error (.assert "bit_writer.rs:change_bits_64:assert bits_in_first_byte <= num_bits") else
  let out1 := if k ≠ 0 then out.set (idx / 8) (((byteAt out (idx / 8)) &&& (0xFF >>> first)) ||| ((bits <<< (8 - first)) % 256)) else out
  let num1 := if k ≠ 0 then numBits - first else numBits
  let bits1 := if k ≠ 0 then bits >>> first else bits
  let i1 := if k ≠ 0 then idx / 8 + 1 else idx / 8
  -- full bytes
  let full := num1 / 8
  let out2 := (List.range full).foldl (fun o j => o.set (i1 + j) ((bits1 >>> (8 * j)) % 256)) out1
  let rest := num1 % 8
  let bits2 := bits1 >>> (8 * full)
  if rest > 0 then
    .ok (out2.set (i1 + full) ((((byteAt out2 (i1 + full)) &&& ((0xFF <<< rest) % 256)) ||| (bits2 % 256))))
  else .ok out2

/-- `compress_literals` as executed: header with a zero placeholder, the entropy coder appends
`payload` (whole bytes), then `change_bits(size_index, payload.len(), size_bits)`. -/
def compressedLiteralsPatched (newTable : Bool) (regen : Nat) (payload : List Nat) : Except Fault (List Nat) :=
  match litSizeFormat Gen.litSizeFormatArms regen with
  | none => .error (.unimplemented "compressed.rs:compress_literals:too many literals")
  | some (sf, sb) =>
    match BW.new.writeAll
        [(if newTable then Gen.litTypeNewTable else Gen.litTypeReuseTable, Gen.litTypeBits),
         (sf, Gen.litSizeFormatBits), (regen % 2 ^ 32, sb)] with
    | .error f => .error f
    | .ok w =>
      let sizeIndex := w.index
      match w.writeBits 0 sb with
      | .error f => .error f
      | .ok w1 =>
        match w1.appendBytes payload with   -- the Huffman encoder's output ends byte aligned
        | .error f => .error f
        | .ok w2 => changeBits w2.out sizeIndex payload.length sb

/-! ## Frame header: decoder side -/

inductive FrameHdrErr where
  | magicRead | descRead | windowRead | dictIdRead | fcsRead
  /-- skippable frame: magic number and length -/
  | skipFrame (magic length : Nat)
  | badMagic (m : Nat)
  /-- `FrameDescriptorError::InvalidFrameContentSizeFlag { got }` (both `other =>` arms) -/
  | invalidFlag (got : Nat)
  deriving Repr, DecidableEq

/-- `decoding::frame::FrameHeader` -/
structure DecFrameHeader where
  desc : Nat
  windowDescriptor : Nat
  dictId : Option Nat
  fcs : Nat
  deriving Repr, DecidableEq

/-- `read_exact` of `n` bytes from a slice: the bytes and the rest, or `none` -/
def readExact (n : Nat) (src : List Nat) : Option (List Nat × List Nat) :=
  if src.length < n then none else some (src.take n, src.drop n)

/-- `frame_content_size_bytes()` -/
def fcsBytes (d : Nat) : Except FrameHdrErr Nat :=
  let flag := Gen.fdFcsFlag d
  if flag = 0 then .ok (if Gen.fdSingleSegment d then Gen.fcsBytesFlag0.1 else Gen.fcsBytesFlag0.2)
  else match lookupArm Gen.fcsBytes flag with
    | some n => .ok n
    | none => .error (.invalidFlag flag)

/-- `dictionary_id_bytes()` -/
def dictIdBytes (d : Nat) : Except FrameHdrErr Nat :=
  match lookupArm Gen.dictIdBytes (Gen.fdDictIdFlag d) with
  | some n => .ok n
  | none => .error (.invalidFlag (Gen.fdDictIdFlag d))

/-- `read_frame_header(r)` on a source holding `src` → (header, bytes read, remaining source) -/
def readFrameHeader (src : List Nat) : Except FrameHdrErr (DecFrameHeader × Nat × List Nat) :=
  match readExact 4 src with
  | none => .error .magicRead
  | some (mb, s1) =>
    let magic := leNat mb
    if Gen.skipMagicLo ≤ magic ∧ magic ≤ Gen.skipMagicHi then
      match readExact 4 s1 with
      | none => .error .descRead
      | some (lb, _) => .error (.skipFrame magic (leNat lb))
    else if magic ≠ Gen.magicNum then .error (.badMagic magic)
    else
      match s1 with
      | [] => .error .descRead
      | d :: s2 =>
        -- window descriptor unless single segment
        match (if Gen.fdSingleSegment d then some (0, 0, s2)
               else match s2 with
                 | [] => none
                 | w :: s3 => some (w, 1, s3)) with
        | none => .error .windowRead
        | some (wd, nw, s3) =>
          match dictIdBytes d with
          | .error e => .error e
          | .ok dlen =>
            match readExact dlen s3 with
            | none => .error .dictIdRead
            | some (db, s4) =>
              let did := leNat db
              let dictId := if dlen ≠ 0 ∧ did ≠ 0 then some did else none
              match fcsBytes d with
              | .error e => .error e
              | .ok flen =>
                match readExact flen s4 with
                | none => .error .fcsRead
                | some (fb, s5) =>
                  let fcs0 := leNat fb
                  let fcs := if flen = Gen.fcsAddLen then fcs0 + Gen.fcsAdd else fcs0
                  .ok ({ desc := d, windowDescriptor := wd, dictId := dictId, fcs := fcs },
                       (4 + 1 + nw + dlen + flen) % 256, s5)

inductive WindowErr where
  | tooBig (got : Nat)
  | tooSmall (got : Nat)
  deriving Repr, DecidableEq

/-- the range check inside `FrameHeader::window_size` -/
def checkWindowRange (w : Nat) : Except WindowErr Nat :=
  if Gen.windowMinOk w Gen.minWindowSize then
    (if Gen.windowMaxOk w Gen.maxWindowSize then .ok w else .error (.tooBig w))
  else .error (.tooSmall w)

/-- `FrameHeader::window_size()` -/
def DecFrameHeader.windowSize (h : DecFrameHeader) : Except WindowErr Nat :=
  if Gen.fdSingleSegment h.desc then .ok h.fcs
  else checkWindowRange (Gen.windowSizeExpr h.windowDescriptor)

/-! ## Frame header: encoder side -/

/-- `encoding::frame_header::FrameHeader` -/
structure EncFrameHeader where
  fcs : Option Nat
  singleSegment : Bool
  checksum : Bool
  dictId : Option Nat
  windowSize : Option Nat
  deriving Repr, DecidableEq

def findMinSizeArm : List (Nat × Nat) → Nat → Nat
  | [], _ => Gen.findMinSizeDefault
  | (sh, n) :: rest, v => if v >>> sh = 0 then n else findMinSizeArm rest v

/-- `find_min_size(val)` -/
def findMinSize (v : Nat) : Nat :=
  if v = 0 then Gen.findMinSizeZero else findMinSizeArm Gen.findMinSizeArms v

/-- `val.to_le_bytes()[0..new_size]` of a `u64` -/
def leSlice (site : String) (n v : Nat) : Except Fault (List Nat) :=
  if n > 8 then .error (.index site) else .ok (leBytes n v)

/-- `minify_val(val)` -/
def minifyVal (v : Nat) : Except Fault (List Nat) := leSlice "util.rs:minify_val" (findMinSize v) v

/-- `minify_val_fcs(val)` -/
def minifyValFcs (v : Nat) : Except Fault (List Nat) :=
  let n := findMinSize v
  if n = Gen.encFcsSubLen then
    (if v < Gen.encFcsSub then .error (.overflow "frame_header.rs:minify_val_fcs:val -= 256")
     else leSlice "frame_header.rs:minify_val_fcs" n (v - Gen.encFcsSub))
  else leSlice "frame_header.rs:minify_val_fcs" n v

/-- `FrameHeader::descriptor()` -/
def EncFrameHeader.descriptor (h : EncFrameHeader) : Except Fault Nat :=
  match (match h.dictId with
         | some id => lookupArm Gen.encDidFlagArms (findMinSize id)
         | none => some 0) with
  | none => .error (.assert "frame_header.rs:descriptor:dictionary id size")
  | some didFlag =>
    if h.singleSegment ∧ h.fcs.isNone then .error (.assert "frame_header.rs:descriptor:single_segment needs frame_content_size")
    else if ¬ h.singleSegment ∧ h.windowSize.isNone then .error (.assert "frame_header.rs:descriptor:window_size needed")
    else
    match (match h.fcs with
           | some f => lookupArm Gen.encFcsFlagArms (findMinSize f)
           | none => some 0) with
    | none => .error (.assert "frame_header.rs:descriptor:frame content size field size")
    | some fcsFlag =>
      match BW.new.writeAll [(didFlag, 2), (h.checksum.toNat, 1), (0, 1), (0, 1), (h.singleSegment.toNat, 1), (fcsFlag, 2)] with
      | .error f => .error f
      | .ok w =>
        match w.dump with
        | .error f => .error f
        | .ok (b :: _) => .ok b
        | .ok [] => .error (.index "frame_header.rs:descriptor:dump()[0]")

/-- `u64::next_power_of_two` (overflow checks on) -/
def nextPowerOfTwo (w : Nat) : Except Fault Nat :=
  if w ≤ 1 then .ok 1
  else
    let p := 2 ^ (Nat.log2 (w - 1) + 1)
    if p ≥ 2 ^ 64 then .error (.overflow "frame_header.rs:serialize:next_power_of_two") else .ok p

/-- the `Window_Descriptor` byte `serialize` writes for a requested window size -/
def encWindowDescriptor (w : Nat) : Except Fault Nat :=
  match nextPowerOfTwo w with
  | .error f => .error f
  | .ok p =>
    let log := Nat.log2 p
    let exponent := (if log > Gen.encWinLogAbove then log - Gen.encWinLogSub else Gen.encWinExpElse) % 256
    .ok ((exponent <<< Gen.encWinShift) % 256)

/-- the `if !self.single_segment { if let Some(window_size) = … { output.push(..) } }` part -/
def EncFrameHeader.windowBytes (h : EncFrameHeader) : Except Fault (List Nat) :=
  match h.singleSegment, h.windowSize with
  | false, some w =>
    (match encWindowDescriptor w with
     | .ok b => .ok [b]
     | .error f => .error f)
  | _, _ => .ok []

/-- `FrameHeader::serialize(self, output)`: the bytes appended -/
def EncFrameHeader.serialize (h : EncFrameHeader) : Except Fault (List Nat) :=
  match h.descriptor with
  | .error f => .error f
  | .ok d =>
    match h.windowBytes with
    | .error f => .error f
    | .ok wb =>
      match (match h.dictId with | some id => minifyVal id | none => .ok []) with
      | .error f => .error f
      | .ok db =>
        match (match h.fcs with | some f => minifyValFcs f | none => .ok []) with
        | .error f => .error f
        | .ok fb => .ok (leBytes 4 Gen.magicNum ++ [d] ++ wb ++ db ++ fb)

/-- the header `FrameCompressor::compress` builds (`Gen.compressHeaderShape`); `hash` = the cargo
feature, `w` = the `window_size` field: `Matcher::window_size()`, raised to `MAX_BLOCK_SIZE` since the
repair of F13 (`Gen.frameDeclaresAtLeastMaxBlock`; `Model.Enc.headerWindow`) -/
def compressFrameHeader (hash : Bool) (w : Nat) : EncFrameHeader :=
  { fcs := none, singleSegment := false, checksum := hash, dictId := none, windowSize := some w }

end Zstd.Model.Hdr
