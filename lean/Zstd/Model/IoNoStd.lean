import Zstd.Basic
import Zstd.Gen.Io
/-
C18 — model of `ruzstd/src/io_nostd.rs` (the hand-written replacements for `std::io::{Read, Write}`
that a build without the `std` feature uses) and of the footprint of the `hash` feature in the
frame compressor.

External readers / writers are *scripts*: a list of responses, consumed one per `read` / `write`
call.  A reader additionally owns the byte stream it delivers from.  The contract assumed of them
is the `std::io` one: a call never reports more than it was asked for (built into `Reader.read` /
`Writer.write`), nothing else.  `Ok(0)` may be returned at any time (`eof`), errors of any kind may
be returned at any time, and once the script is exhausted every further call returns `Ok(0)`.

Every structural fact of the Rust functions that the extractor can read (which arm does what) is a
field of `Cfg`; `srcCfg` is what the source says today (`Zstd.Gen.Io`), `Cfg.std` is what the `std`
contract needs.  The functions below are written once, over `Cfg`, so a changed arm changes the
model the theorems are about.
-/
namespace Zstd.Model.Io
open Zstd

/-- the error kinds of `io_nostd::ErrorKind` (`WriteAllEof` is the kind `write_all` reports for
`Ok(0)`; std calls it `WriteZero`) -/
inductive Kind where
  | interrupted | unexpectedEof | wouldBlock | other | writeZero
  deriving Repr, DecidableEq

def Kind.render : Kind → String
  | .interrupted => "interrupted"
  | .unexpectedEof => "unexpectedeof"
  | .wouldBlock => "wouldblock"
  | .other => "other"
  | .writeZero => "writezero"

/-- one response of a scripted reader or writer -/
inductive Resp where
  | data (k : Nat)     -- up to `k` bytes are transferred (never more than requested / available)
  | eof                -- `Ok(0)`
  | interrupted        -- `Err(Interrupted)`
  | error (k : Kind)   -- `Err(k)`, `k ≠ Interrupted` by convention (`interrupted` is the constructor above)
  deriving Repr, DecidableEq

/-- result of a helper: value, error, or a loop that never ends (only reachable with a changed `Cfg`) -/
inductive Res (α : Type) where
  | ok (a : α)
  | err (k : Kind)
  | hang
  deriving Repr, DecidableEq

structure Cfg where
  readExactZeroBreaks : Bool
  readExactRetriesInterrupted : Bool
  readExactReturnsOtherErrors : Bool
  readExactEofIsUnexpectedEof : Bool
  readToEndChunk : Nat
  readToEndPropagatesEveryError : Bool
  readToEndStopsAtZero : Bool
  takeZeroLimitReturnsZero : Bool
  takeClampsRequest : Bool
  takeDecrementsLimit : Bool
  writeAllZeroIsError : Bool
  writeAllAdvances : Bool
  writeAllRetriesInterrupted : Bool
  writeAllReturnsOtherErrors : Bool
  sliceReadIsMinCopy : Bool
  sliceWriteIsMinCopy : Bool
  vecWriteAppendsAll : Bool
  deriving Repr, DecidableEq

/-- what `io_nostd.rs` says today -/
def srcCfg : Cfg where
  readExactZeroBreaks := Gen.Io.readExactZeroBreaks
  readExactRetriesInterrupted := Gen.Io.readExactRetriesInterrupted
  readExactReturnsOtherErrors := Gen.Io.readExactReturnsOtherErrors
  readExactEofIsUnexpectedEof := Gen.Io.readExactEofKind == "UnexpectedEof"
  readToEndChunk := Gen.Io.readToEndChunk
  readToEndPropagatesEveryError := Gen.Io.readToEndPropagatesEveryError
  readToEndStopsAtZero := Gen.Io.readToEndStopsAtZero
  takeZeroLimitReturnsZero := Gen.Io.takeZeroLimitReturnsZero
  takeClampsRequest := Gen.Io.takeClampsRequest
  takeDecrementsLimit := Gen.Io.takeDecrementsLimit
  writeAllZeroIsError := Gen.Io.writeAllZeroIsError
  writeAllAdvances := Gen.Io.writeAllAdvances
  writeAllRetriesInterrupted := Gen.Io.writeAllRetriesInterrupted
  writeAllReturnsOtherErrors := Gen.Io.writeAllReturnsOtherErrors
  sliceReadIsMinCopy := Gen.Io.sliceReadIsMinCopy
  sliceWriteIsMinCopy := Gen.Io.sliceWriteIsMinCopy
  vecWriteAppendsAll := Gen.Io.vecWriteAppendsAll

/-- the arms as the `std::io` contract needs them; `read_to_end` is listed as the source has it
(it does NOT retry `Interrupted`, unlike std — see `Props/C18.lean`) -/
def Cfg.std : Cfg where
  readExactZeroBreaks := true
  readExactRetriesInterrupted := true
  readExactReturnsOtherErrors := true
  readExactEofIsUnexpectedEof := true
  readToEndChunk := 16384
  readToEndPropagatesEveryError := true
  readToEndStopsAtZero := true
  takeZeroLimitReturnsZero := true
  takeClampsRequest := true
  takeDecrementsLimit := true
  writeAllZeroIsError := true
  writeAllAdvances := true
  writeAllRetriesInterrupted := true
  writeAllReturnsOtherErrors := true
  sliceReadIsMinCopy := true
  sliceWriteIsMinCopy := true
  vecWriteAppendsAll := true

/-! ### scripted reader -/

structure Reader where
  src : List Byte
  script : List Resp
  deriving Repr, DecidableEq

/-- one `read(&mut buf)` call with `buf.len() = req`: the bytes delivered (or the error) and the reader afterwards -/
def Reader.read (r : Reader) (req : Nat) : Except Kind (List Byte) × Reader :=
  match r.script with
  | [] => (.ok [], r)
  | .data k :: s => (.ok (r.src.take (min k req)), { src := r.src.drop (min k req), script := s })
  | .eof :: s => (.ok [], { r with script := s })
  | .interrupted :: s => (.error .interrupted, { r with script := s })
  | .error k :: s => (.error k, { r with script := s })

/-! ### `Read::read_exact` (default method, `io_nostd.rs`) -/

/-- `while !buf.is_empty() { match self.read(buf) {..} }` followed by the emptiness test.
`need` = bytes still missing; result = the bytes put into the buffer, in order.
One script element per iteration; an exhausted script answers `Ok(0)` for ever. -/
def readExact (c : Cfg) : List Resp → List Byte → Nat → Res (List Byte) × Reader
  | script, src, 0 => (.ok [], ⟨src, script⟩)
  | [], src, _ + 1 =>
    if c.readExactZeroBreaks then
      (if c.readExactEofIsUnexpectedEof then .err .unexpectedEof else .err .other, ⟨src, []⟩)
    else (.hang, ⟨src, []⟩)
  | .data k :: s, src, need + 1 =>
    let got := src.take (min k (need + 1))
    if got.length = 0 then
      (if c.readExactZeroBreaks then
        (if c.readExactEofIsUnexpectedEof then .err .unexpectedEof else .err .other, ⟨src.drop (min k (need + 1)), s⟩)
      else readExact c s (src.drop (min k (need + 1))) (need + 1))
    else
      match readExact c s (src.drop (min k (need + 1))) (need + 1 - got.length) with
      | (.ok bs, r) => (.ok (got ++ bs), r)
      | other => other
  | .eof :: s, src, need + 1 =>
    if c.readExactZeroBreaks then
      (if c.readExactEofIsUnexpectedEof then .err .unexpectedEof else .err .other, ⟨src, s⟩)
    else readExact c s src (need + 1)
  | .interrupted :: s, src, need + 1 =>
    if c.readExactRetriesInterrupted then readExact c s src (need + 1)
    else (.err .interrupted, ⟨src, s⟩)
  | .error k :: s, src, need + 1 =>
    if c.readExactReturnsOtherErrors then (.err k, ⟨src, s⟩)
    else readExact c s src (need + 1)

/-! ### `Read::read_to_end` -/

/-- `loop { let bytes = self.read(&mut buf)?; if bytes == 0 { break } output.extend(..) }` -/
def readToEnd (c : Cfg) : List Resp → List Byte → Res (List Byte) × Reader
  | [], src => if c.readToEndStopsAtZero then (.ok [], ⟨src, []⟩) else (.hang, ⟨src, []⟩)
  | .data k :: s, src =>
    let got := src.take (min k c.readToEndChunk)
    if got.length = 0 then
      (if c.readToEndStopsAtZero then (.ok [], ⟨src.drop (min k c.readToEndChunk), s⟩)
       else readToEnd c s (src.drop (min k c.readToEndChunk)))
    else
      match readToEnd c s (src.drop (min k c.readToEndChunk)) with
      | (.ok bs, r) => (.ok (got ++ bs), r)
      | other => other
  | .eof :: s, src =>
    if c.readToEndStopsAtZero then (.ok [], ⟨src, s⟩) else readToEnd c s src
  | .interrupted :: s, src =>
    if c.readToEndPropagatesEveryError then (.err .interrupted, ⟨src, s⟩) else readToEnd c s src
  | .error k :: s, src => (.err k, ⟨src, s⟩)

/-! ### `Take` -/

structure Take where
  inner : Reader
  limit : Nat
  deriving Repr, DecidableEq

/-- `(self.limit as usize)`: a `u64` narrowed to the target's pointer width -/
def asUsize (usizeBits : Nat) (x : Nat) : Nat := x % 2 ^ usizeBits

/-- `impl Read for Take<R>`: one `read` call with `buf.len() = req`.
A `Fault.overflow` is `self.limit -= bytes` going below zero (unreachable while the inner reader
keeps the contract; kept so that the theorem says so). -/
def Take.read (c : Cfg) (usizeBits : Nat) (t : Take) (req : Nat) : Except Fault (Except Kind (List Byte) × Take) :=
  if c.takeZeroLimitReturnsZero && t.limit == 0 then .ok (.ok [], t)
  else
    let atMost := if c.takeClampsRequest then min (asUsize usizeBits t.limit) req else req
    match t.inner.read atMost with
    | (.error k, r) => .ok (.error k, { t with inner := r })
    | (.ok bs, r) =>
      if c.takeDecrementsLimit then
        if bs.length ≤ t.limit then .ok (.ok bs, { inner := r, limit := t.limit - bs.length })
        else .error (.overflow "io_nostd.rs:Take::read:limit")
      else .ok (.ok bs, { inner := r, limit := t.limit })

/-! ### scripted writer and `Write::write_all` -/

structure Writer where
  sink : List Byte          -- everything accepted so far
  script : List Resp
  deriving Repr, DecidableEq

/-- one `write(buf)` call: how many bytes were accepted (or the error) and the writer afterwards -/
def Writer.write (w : Writer) (buf : List Byte) : Except Kind Nat × Writer :=
  match w.script with
  | [] => (.ok 0, w)
  | .data k :: s => (.ok (min k buf.length), { sink := w.sink ++ buf.take (min k buf.length), script := s })
  | .eof :: s => (.ok 0, { w with script := s })
  | .interrupted :: s => (.error .interrupted, { w with script := s })
  | .error k :: s => (.error k, { w with script := s })

/-- `while !buf.is_empty() { match self.write(buf) {..} }` -/
def writeAll (c : Cfg) : List Resp → List Byte → List Byte → Res Unit × Writer
  | script, sink, [] => (.ok (), ⟨sink, script⟩)
  | [], sink, _ :: _ => if c.writeAllZeroIsError then (.err .writeZero, ⟨sink, []⟩) else (.hang, ⟨sink, []⟩)
  | .data k :: s, sink, b :: bs =>
    let n := min k (bs.length + 1)
    if n = 0 then
      (if c.writeAllZeroIsError then (.err .writeZero, ⟨sink, s⟩) else writeAll c s sink (b :: bs))
    else if c.writeAllAdvances then writeAll c s (sink ++ (b :: bs).take n) ((b :: bs).drop n)
    else writeAll c s (sink ++ (b :: bs).take n) (b :: bs)
  | .eof :: s, sink, b :: bs =>
    if c.writeAllZeroIsError then (.err .writeZero, ⟨sink, s⟩) else writeAll c s sink (b :: bs)
  | .interrupted :: s, sink, b :: bs =>
    if c.writeAllRetriesInterrupted then writeAll c s sink (b :: bs) else (.err .interrupted, ⟨sink, s⟩)
  | .error k :: s, sink, b :: bs =>
    if c.writeAllReturnsOtherErrors then (.err k, ⟨sink, s⟩) else writeAll c s sink (b :: bs)

/-! ### the concrete impls: `&[u8]` as reader, `&mut [u8]` and `Vec<u8>` as writers -/

/-- `impl Read for &[u8]`: (bytes copied into `buf`, rest of the slice) -/
def sliceRead (c : Cfg) (slice : List Byte) (req : Nat) : List Byte × List Byte :=
  if c.sliceReadIsMinCopy then (slice.take (min slice.length req), slice.drop (min slice.length req))
  else (slice.take req, slice.drop (req + 1))

/-- `impl Write for &mut [u8]` with `room` bytes left: (bytes stored, reported count, room left) -/
def sliceWrite (c : Cfg) (room : Nat) (data : List Byte) : List Byte × Nat × Nat :=
  if c.sliceWriteIsMinCopy then (data.take (min data.length room), min data.length room, room - min data.length room)
  else (data.take room, data.length, room - min data.length room)

/-- `impl Write for Vec<u8>`: (vector afterwards, reported count) -/
def vecWrite (c : Cfg) (v : List Byte) (data : List Byte) : List Byte × Nat :=
  if c.vecWriteAppendsAll then (v ++ data, data.length) else (v ++ data, 0)

/-! ### the `hash` feature in `FrameCompressor::compress`

The block encoder is abstract: `enc : List Byte → List Byte` maps the input to the concatenated
blocks (it does not depend on the feature: none of the `#[cfg(feature = "hash")]` items is inside
it).  The frame is `magic ++ [descriptor] ++ windowDescriptor ++ blocks ++ trailer`. -/

structure HashCfg where
  setsFlag : Bool          -- `content_checksum: cfg!(feature = "hash")`
  writesTrailerLast : Bool -- the 4 low bytes of the digest, little-endian, after the last block
  encBit : Nat
  decBit : Nat
  decoderSitesOnlyHasher : Bool  -- every cfg(hash) item of the decoder is about the hasher field
  decoderReadsTrailerIffFlag : Bool
  deriving Repr, DecidableEq

def srcHashCfg : HashCfg :=
  { setsFlag := Gen.Io.hashSetsChecksumFlag, writesTrailerLast := Gen.Io.hashWritesTrailerLast,
    encBit := Gen.Io.encChecksumBit, decBit := Gen.Io.decChecksumBit,
    decoderSitesOnlyHasher := Gen.Io.decoderHashSitesOnlyTouchHasher,
    decoderReadsTrailerIffFlag := Gen.Io.decoderReadsTrailerIffFlag }

def HashCfg.good : HashCfg :=
  { setsFlag := true, writesTrailerLast := true, encBit := 2, decBit := 2,
    decoderSitesOnlyHasher := true, decoderReadsTrailerIffFlag := true }

/-- the frame written by `compress` for feature `hash` on/off.
`magic`/`wd` = magic number and window descriptor bytes, `desc0` = descriptor without the checksum
flag (`desc0 / 2^bit % 2 = 0`), `digest` = XXH64 of the input. -/
def frame (h : HashCfg) (hash : Bool) (magic : List Byte) (desc0 : Nat) (wd : List Byte)
    (enc : List Byte → List Byte) (digest : List Byte → Nat) (d : List Byte) : List Byte :=
  magic ++ [if hash && h.setsFlag then desc0 + 2 ^ h.encBit else desc0] ++ wd ++ enc d ++
    (if hash && h.writesTrailerLast then leBytes 4 (digest d % 2 ^ 32) else [])

/-- clear bit `bit` of byte number `i` -/
def clearBitAt (i bit : Nat) (bs : List Byte) : List Byte :=
  bs.take i ++ (match bs.drop i with
    | [] => []
    | b :: rest => (if b / 2 ^ bit % 2 = 1 then b - 2 ^ bit else b) :: rest)

def dropLast (n : Nat) (bs : List Byte) : List Byte := bs.take (bs.length - n)

/-- decoder side: does the frame announce a checksum (`content_checksum_flag`)? -/
def checksumFlag (h : HashCfg) (desc : Nat) : Bool := desc / 2 ^ h.decBit % 2 == 1


/-- what a finished `FrameDecoder` exposes -/
structure DecOut where
  out : List Byte                 -- the decoded bytes
  checksumFromData : Option Nat   -- `get_checksum_from_data`
  calculated : Option Nat         -- `get_calculated_checksum` (the method exists only with the feature)
  rest : List Byte                -- source bytes not consumed
  deriving Repr, DecidableEq

/-- decoder side of the feature (`frame_decoder.rs`, `decode_buffer.rs`).  The block decoder is
abstract (`dec` maps the bytes after the frame header to decoded bytes + unconsumed rest); the
feature adds a hasher that is fed the drained bytes and nothing else.  `hdrLen` = length of magic,
descriptor and the optional header fields. -/
def decodeFrame (h : HashCfg) (hash : Bool) (hdrLen : Nat) (dec : List Byte → Option (List Byte × List Byte))
    (digest : List Byte → Nat) (frame : List Byte) : Option DecOut :=
  match frame.drop 4 with
  | [] => none
  | desc :: _ =>
    match dec (frame.drop hdrLen) with
    | none => none
    | some (out, rest) =>
      let out' := if h.decoderSitesOnlyHasher || !hash then out else []
      let calculated := if hash then some (digest out % 2 ^ 32) else none
      if checksumFlag h desc && (h.decoderReadsTrailerIffFlag || hash) then
        if rest.length < 4 then none
        else some { out := out', checksumFromData := some (leNat (rest.take 4)), calculated, rest := rest.drop 4 }
      else some { out := out', checksumFromData := none, calculated, rest }

end Zstd.Model.Io
