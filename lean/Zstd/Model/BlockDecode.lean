import Zstd.Model.FrameDecoder
import Zstd.Model.Headers
import Zstd.Model.Huffman
import Zstd.Model.Fse
import Zstd.Gen.Dists
/-
Faithful model of block-level decoding: `BlockDecoder::decompress_block`
(decoding/block_decoder.rs), `decode_sequences` / `maybe_update_fse_tables` /
`decode_sequences_with(out)_rle` (decoding/sequence_section_decoder.rs) on top of the faithful
component mirrors — literals header (Model/Headers), Huffman decoder + `decode_literals`
(Model/Huffman), FSE decoder tables and the reversed bit reader (Model/Fse, Model/BitIO) — and the
sequence execution of Model/FrameDecoder.  Unlike the `decodeLiteralsM`/`decodeSequencesM`
stand-ins of Model/FrameDecoder (which go through the strict Spec) this mirrors every leniency and
error variant of the code and keeps the scratch state the Rust leaves behind on error paths, so it
can be compared with the real code on MALFORMED blocks too (engine `blk`).
-/
namespace Zstd.Model.Blk
open Zstd Zstd.Model Zstd.Model.BitIO

/-- `FSEScratch` -/
structure FseScratch where
  offsets : Fse.DTable := Fse.DTable.new Gen.maxOffsetCode
  ofRle : Option Nat := none
  literalLengths : Fse.DTable := Fse.DTable.new Gen.maxLiteralLengthCode
  llRle : Option Nat := none
  matchLengths : Fse.DTable := Fse.DTable.new Gen.maxMatchLengthCode
  mlRle : Option Nat := none
  deriving Repr

/-- the entropy part of `DecoderScratch` -/
structure Scratch where
  huf : Huf.DecTable := Huf.DecTable.empty
  fse : FseScratch := {}
  hist : Nat × Nat × Nat := (1, 4, 8)
  deriving Repr

/-- `DecodeSequenceError` (one constructor per Rust variant) -/
inductive SeqErr where
  | fseTable (e : Fse.Err)            -- FSETableError / FSEDecoderError / GetBitsError via `?`
  | extraPadding (skipped : Nat)
  | unsupportedOffset (code : Nat)
  | zeroOffset
  | notEnoughBytesForNumSequences
  | extraBits (remaining : Int)
  | missingCompressionMode
  | missingByteForRleLlTable
  | missingByteForRleOfTable
  | missingByteForRleMlTable
  | fault (f : Fault)
  deriving Repr

/-- `DecoderScratch::reset` on the entropy part (decoding/scratch.rs:52-70): `FSETable::reset` on the
three tables (they keep their `max_symbol`), the RLE symbols `None`, `HuffmanTable::reset`,
`offset_hist = [1, 4, 8]` -/
def Scratch.reset (s : Scratch) : Scratch :=
  { huf := Huf.DecTable.empty,
    fse := { offsets := s.fse.offsets.reset, ofRle := none,
             literalLengths := s.fse.literalLengths.reset, llRle := none,
             matchLengths := s.fse.matchLengths.reset, mlRle := none },
    hist := (1, 4, 8) }

def modeOf (bits : Nat) : Nat := (lookupNat Gen.seqModeMap bits).getD 0

/-- one of the three arms of `maybe_update_fse_tables`.
`mode`: 0 Predefined, 1 RLE, 2 FSECompressed, 3 Repeat.  Returns the new (table, rle) and the
bytes used.  `rleErr` is the error this arm reports for a missing byte; an RLE symbol above the
alphabet is reported as `MissingByteForRleMlTable` by all three arms (as written in the source). -/
def updateOne (mode : Nat) (src : Array Nat) (t : Fse.DTable) (rle : Option Nat)
    (maxLog maxCode : Nat) (dfltLog : Nat) (dflt : List Int) (rleErr : SeqErr) :
    (Fse.DTable × Option Nat) × Except SeqErr Nat :=
  if mode = 2 then
    match t.buildDecoder src maxLog with
    | (t', .ok n) => ((t', none), .ok n)
    | (t', .error (.fault f)) => ((t', rle), .error (.fault f))
    | (t', .error e) => ((t', rle), .error (.fseTable e))
  else if mode = 1 then
    match src[0]? with
    | none => ((t, rle), .error rleErr)
    | some b => if b > maxCode then ((t, rle), .error .missingByteForRleMlTable) else ((t, some b), .ok 1)
  else if mode = 0 then
    match t.buildFromProbabilities dfltLog dflt with
    | (t', .ok ()) => ((t', none), .ok 0)
    | (t', .error (.fault f)) => ((t', rle), .error (.fault f))
    | (t', .error e) => ((t', rle), .error (.fseTable e))
  else ((t, rle), .ok 0)

/-- `maybe_update_fse_tables(section, source, scratch)` → bytes read -/
def maybeUpdateFseTables (modes : Option Nat) (src : Array Nat) (s : FseScratch) : FseScratch × Except SeqErr Nat :=
  match modes with
  | none => (s, .error .missingCompressionMode)
  | some m =>
    let llMode := modeOf (m / 64 % 4)
    let ofMode := modeOf (m / 16 % 4)
    let mlMode := modeOf (m / 4 % 4)
    match updateOne llMode src s.literalLengths s.llRle Gen.llMaxLog Gen.maxLiteralLengthCode Gen.llDefaultAccLog Gen.llDistDec .missingByteForRleLlTable with
    | ((t, r), .error e) => ({ s with literalLengths := t, llRle := r }, .error e)
    | ((t, r), .ok n1) =>
      let s := { s with literalLengths := t, llRle := r }
      if n1 > src.size then (s, .error (.fault (.index "sequence_section_decoder.rs:source[bytes_read..]"))) else
      match updateOne ofMode (src.extract n1 src.size) s.offsets s.ofRle Gen.ofMaxLog Gen.maxOffsetCode Gen.ofDefaultAccLog Gen.ofDistDec .missingByteForRleOfTable with
      | ((t, r), .error e) => ({ s with offsets := t, ofRle := r }, .error e)
      | ((t, r), .ok n2) =>
        let s := { s with offsets := t, ofRle := r }
        if n1 + n2 > src.size then (s, .error (.fault (.index "sequence_section_decoder.rs:source[bytes_read..]"))) else
        match updateOne mlMode (src.extract (n1 + n2) src.size) s.matchLengths s.mlRle Gen.mlMaxLog Gen.maxMatchLengthCode Gen.mlDefaultAccLog Gen.mlDistDec .missingByteForRleMlTable with
        | ((t, r), .error e) => ({ s with matchLengths := t, mlRle := r }, .error e)
        | ((t, r), .ok n3) => ({ s with matchLengths := t, mlRle := r }, .ok (n1 + n2 + n3))

def liftFse {α} : Except Fse.Err α → Except SeqErr α
  | .ok a => .ok a
  | .error (.fault f) => .error (.fault f)
  | .error e => .error (.fseTable e)

def liftFault {α} : Except Fault α → Except SeqErr α
  | .ok a => .ok a
  | .error f => .error (.fault f)

/-- the sequence loop shared by `decode_sequences_with_rle` and `_without_rle` (they compute the
same function: the second is the first with all three RLE options `none`) -/
def seqLoop (s : FseScratch) (total : Nat) :
    Nat → Fse.Decoder → Fse.Decoder → Fse.Decoder → BitReaderRev → List Spec.Seq →
    Except SeqErr (List Spec.Seq × BitReaderRev)
  | 0, _, _, _, br, acc => .ok (acc.reverse, br)
  | n + 1, llD, mlD, ofD, br, acc =>
    let llCode := s.llRle.getD llD.decodeSymbol
    let mlCode := s.mlRle.getD mlD.decodeSymbol
    let ofCode := s.ofRle.getD ofD.decodeSymbol
    match liftFault (lookupLL llCode), liftFault (lookupML mlCode) with
    | .error e, _ => .error e
    | _, .error e => .error e
    | .ok (llValue, llBits), .ok (mlValue, mlBits) =>
      if ofCode > Gen.maxOffsetCode then .error (.unsupportedOffset ofCode)
      else
        match br.getBitsTriple ofCode mlBits llBits with
        | .error f => .error (.fault f)
        | .ok ((obits, mlAdd, llAdd), br) =>
          let offset := obits % 2 ^ 32 + 2 ^ ofCode
          if offset ≥ 2 ^ 32 then .error (.fault (.overflow "sequence_section_decoder.rs:obits as u32 + (1u32 << of_code)"))
          else if offset = 0 then .error .zeroOffset
          else
            let sq : Spec.Seq := ⟨llValue + llAdd % 2 ^ 32, mlValue + mlAdd % 2 ^ 32, offset⟩
            let acc := sq :: acc
            -- `if target.len() < num_sequences { update states }`
            let upd : Except SeqErr (Fse.Decoder × Fse.Decoder × Fse.Decoder × BitReaderRev) :=
              if acc.length < total then
                match (if s.llRle.isNone then liftFse (llD.updateState s.literalLengths br) else .ok (llD, br)) with
                | .error e => .error e
                | .ok (llD, br) =>
                  match (if s.mlRle.isNone then liftFse (mlD.updateState s.matchLengths br) else .ok (mlD, br)) with
                  | .error e => .error e
                  | .ok (mlD, br) =>
                    match (if s.ofRle.isNone then liftFse (ofD.updateState s.offsets br) else .ok (ofD, br)) with
                    | .error e => .error e
                    | .ok (ofD, br) => .ok (llD, mlD, ofD, br)
              else .ok (llD, mlD, ofD, br)
            match upd with
            | .error e => .error e
            | .ok (llD, mlD, ofD, br) =>
              if br.bitsRemaining < 0 then .error .notEnoughBytesForNumSequences
              else seqLoop s total n llD mlD ofD br acc

/-- the bitstream part of `decode_sequences` (sequence_section_decoder.rs:26-62 and the two loops):
`bitStream` = `&source[bytes_read..]`; skip the end mark, initialise the three states (LL, OF, ML;
each only when its mode is not RLE), run the loop, require that no bits are left over -/
def decodeSeqStream (n : Nat) (s : FseScratch) (bitStream : Array Nat) : Except SeqErr (List Spec.Seq) :=
  let br := BitReaderRev.new bitStream
  match Fse.skipEndMark br with
  | .error f => .error (.fault f)
  | .ok none => .error (.extraPadding 9)
  | .ok (some br) =>
    let llD := Fse.Decoder.new s.literalLengths
    let mlD := Fse.Decoder.new s.matchLengths
    let ofD := Fse.Decoder.new s.offsets
    -- init order: LL, OF, ML (each only when not RLE)
    let r : Except SeqErr (Fse.Decoder × Fse.Decoder × Fse.Decoder × BitReaderRev) :=
      match (if s.llRle.isNone then liftFse (llD.initState s.literalLengths br) else .ok (llD, br)) with
      | .error e => .error e
      | .ok (llD, br) =>
        match (if s.ofRle.isNone then liftFse (ofD.initState s.offsets br) else .ok (ofD, br)) with
        | .error e => .error e
        | .ok (ofD, br) =>
          match (if s.mlRle.isNone then liftFse (mlD.initState s.matchLengths br) else .ok (mlD, br)) with
          | .error e => .error e
          | .ok (mlD, br) => .ok (llD, mlD, ofD, br)
    match r with
    | .error e => .error e
    | .ok (llD, mlD, ofD, br) =>
      match seqLoop s n n llD mlD ofD br [] with
      | .error e => .error e
      | .ok (seqs, br) =>
        if br.bitsRemaining > 0 then .error (.extraBits br.bitsRemaining) else .ok seqs

/-- `decode_sequences(section, source, scratch, target)`; `n` = `section.num_sequences` -/
def decodeSequences (n : Nat) (modes : Option Nat) (source : List Nat) (s : FseScratch) :
    FseScratch × Except SeqErr (List Spec.Seq) :=
  let src := source.toArray
  match maybeUpdateFseTables modes src s with
  | (s, .error e) => (s, .error e)
  | (s, .ok bytesRead) =>
    if bytesRead > src.size then (s, .error (.fault (.index "sequence_section_decoder.rs:source[bytes_read..]"))) else
    (s, decodeSeqStream n s (src.extract bytesRead src.size))

/-- what `decompress_block` can report, at the granularity of the Rust error variant families
(the same names `errmap.rs` gives the real errors) -/
inductive BlkErr where
  | literalsHeader
  | literalsTooLarge (n : Nat)
  | malformedSection
  | literals
  | seqHeader
  | sequences
  | exec (e : DErr)
  deriving Repr

def BlkErr.render : BlkErr → String
  | .literalsHeader => "err literalsHeader"
  | .literalsTooLarge n => s!"err literalsTooLarge {n}"
  | .malformedSection => "err malformedSection"
  | .literals => "err literals"
  | .seqHeader => "err seqHeader"
  | .sequences => "err sequences"
  | .exec e => e.render

inductive BOut where
  | ok
  | err (e : BlkErr)
  | fault (f : Fault)
  deriving Repr

def litTypeOf (ty : Nat) : Huf.LitType :=
  if ty = 0 then .raw else if ty = 1 then .rle else if ty = 2 then .compressed else .treeless

/-- `decompress_block` after `upper_limit_for_literals`: `raw` = the block content behind the
literals header, `upper` = the upper limit (block_decoder.rs:131-199) -/
def decompressBody (s : Scratch) (b : DBuf) (sec : Hdr.LitSection) (raw : List Nat) (upper : Nat) :
    (Scratch × DBuf × List Nat × List Spec.Seq) × BOut :=
  if raw.length < upper then ((s, b, [], []), .err .malformedSection) else
  let lsec : Huf.LitSection := { lsType := litTypeOf sec.ty, regeneratedSize := sec.regen,
                                 compressedSize := sec.comp, numStreams := sec.streams }
  match Huf.decodeLiterals lsec s.huf (raw.take upper) [] with
  | (huf, .error (.fault f)) => (({ s with huf := huf }, b, [], []), .fault f)
  | (huf, .error (.err _)) => (({ s with huf := huf }, b, [], []), .err .literals)
  | (huf, .ok (lits, used)) =>
    let s := { s with huf := huf }
    if sec.regen ≠ lits.length then ((s, b, lits, []), .fault (.assert "block_decoder.rs:decompress_block:Wrong number of literals"))
    else if used ≠ upper then ((s, b, lits, []), .fault (.assert "block_decoder.rs:decompress_block:bytes_used_in_literals_section"))
    else
      let raw2 := raw.drop upper
      match parseSeqHeader raw2 with
      | .error _ => ((s, b, lits, []), .err .seqHeader)
      | .ok (n, modes, shLen) =>
        let raw3 := raw2.drop shLen
        if n ≠ 0 then
          match decodeSequences n modes raw3 s.fse with
          | (fse, .error (.fault f)) => (({ s with fse := fse }, b, lits, []), .fault f)
          | (fse, .error _) => (({ s with fse := fse }, b, lits, []), .err .sequences)
          | (fse, .ok seqs) =>
            let s := { s with fse := fse }
            match executeSequences seqs lits s.hist 0 b with
            | ((b', h), .ok ()) => (({ s with hist := h }, b', lits, seqs), .ok)
            | ((b', h), .err e) => (({ s with hist := h }, b', lits, seqs), .err (.exec e))
            | ((b', h), .fault f) => (({ s with hist := h }, b', lits, seqs), .fault f)
        else
          if !raw3.isEmpty then ((s, b, lits, []), .err .sequences)
          else ((s, b.push lits.toArray, lits, []), .ok)

/-- `upper_limit_for_literals` (block_decoder.rs:131-146) -/
def upperLimit (sec : Hdr.LitSection) : Except Fault Nat :=
  match sec.comp with
  | some x => .ok x
  | none => if sec.ty = 1 then .ok 1 else if sec.ty = 0 then .ok sec.regen
            else .error (.unreachable "block_decoder.rs:upper_limit_for_literals:Bug in this library")

/-- `BlockDecoder::decompress_block` on the block content, with the literals and sequences it
decoded (for comparison with the real scratch) -/
def decompressBlock (content : List Nat) (s : Scratch) (b : DBuf) :
    (Scratch × DBuf × List Nat × List Spec.Seq) × BOut :=
  match Hdr.parseLitHeader Hdr.LitSection.new content with
  | .error (.fault f) => ((s, b, [], []), .fault f)
  | .error _ => ((s, b, [], []), .err .literalsHeader)
  | .ok (sec, hdrLen) =>
    let raw := content.drop hdrLen
    if sec.regen > Gen.maxBlockSize then ((s, b, [], []), .err (.literalsTooLarge sec.regen)) else
    match upperLimit sec with
    | .error f => ((s, b, [], []), .fault f)
    | .ok upper => decompressBody s b sec raw upper

end Zstd.Model.Blk
