import Zstd.Basic
import Zstd.Gen.Consts
import Zstd.Gen.Matcher
/-
Model of `ruzstd/src/encoding/match_generator.rs`: `SuffixStore`, `WindowEntry`, `MatchGenerator`
(`next_sequence`, `add_suffixes_till`, `skip_matching`, `add_data`, `reserve`, `reset`) and
`MatchGeneratorDriver` (the built-in `Matcher`: `get_next_space`, `get_last_space`, `commit_space`,
`start_matching`, `skip_matching`, `reset`, `window_size`, the two pools).

The hash of the suffix store is a PARAMETER (`key : KeyFn`) of every definition, so that every
theorem of C17 holds for every hash function; `realKey` is the hash the code uses
(`SuffixStore::key`, `u64` wrapping multiply), and the executable driver instantiates `key` with it.

Mirrored as written, including:
* `add_suffixes_till(idx)` registers only the suffixes whose 5-byte key lies entirely inside
  `data[suffix_idx..idx]` (`slice.windows(5)`), i.e. the last 4 positions before `idx` are never
  registered (neither after a match nor at the end of a skipped block);
* a slot that is already occupied is never overwritten (`if !contains_key { insert }`): the OLDEST
  suffix with a given slot wins inside one entry;
* inside the current entry a match source ends before the current position
  (`data[match_index..suffix_idx]`): no overlapping matches; in older entries a match source ends
  at the end of that entry: no match spans two entries;
* the early `return` of `add_suffixes_till` when the entry is shorter than `MIN_MATCH_LEN`;
* `get_last_space` is the data of the newest window entry and panics on an empty window (after
  `reset`, before the first commit);
* `get_next_space` hands out recycled vectors at their full *capacity* with stale content
  (`resize(capacity, 0)` only zero-fills beyond the old length).

Every reachable Rust panic site is a `Fault`.  Not modelled: the `#[cfg(debug_assertions)]`
`concat_window` shadow copy — its `debug_assert_eq!` is exactly theorem `true_match` of C17.

Trusted about `Vec`: `vec![x; n]` has capacity exactly `n`; shrinking (`truncate`/`resize` to a
smaller length/`clear`) keeps the capacity.  So a recycled `slots` vector has its original length.
-/
namespace Zstd.Model.MG
open Zstd

/-- `MIN_MATCH_LEN` -/
abbrev minMatchLen : Nat := Zstd.Gen.minMatchLen

/-- The hash of a suffix store: `key lenLog nslots keyBytes` is the slot index.  A value
`≥ nslots` means "the Rust `key`/`slots[key]` panics". -/
abbrev KeyFn := Nat → Nat → List Byte → Nat

/-- `SuffixStore::key` as written: bytes are widened to `u64`, shifted by 24/32/40/48/56, multiplied
(wrapping) by `POLY`, xor-ed, the top `len_log` bits taken, reduced modulo `slots.len()`.
`len_log = 0` is a shift by 64 (panic "shift right with overflow" in a build with overflow checks,
which is how the harness is built); it is reported as the out-of-range value `nslots`.
`nslots = 0` (`% 0`) comes out as a value `≥ nslots` by itself.  `len_log > 64` cannot occur
(`len_log = ilog2` of a `usize`). -/
def realKey : KeyFn := fun lenLog nslots kb =>
  match kb, Zstd.Gen.keyShifts with
  | [b0, b1, b2, b3, b4], [h0, h1, h2, h3, h4] =>
    if lenLog = 0 then nslots
    else
      let poly : UInt64 := UInt64.ofNat Zstd.Gen.keyPoly
      let m (b h : Nat) : UInt64 := (UInt64.ofNat (b % 256) <<< UInt64.ofNat h) * poly
      let index := m b0 h0 ^^^ m b1 h1 ^^^ m b2 h2 ^^^ m b3 h3 ^^^ m b4 h4
      let index := index >>> UInt64.ofNat (64 - lenLog)
      index.toNat % nslots
  | _, _ => nslots

structure SuffixStore where
  /-- `Vec<Option<NonZeroUsize>>`; the model stores `idx`, the code `idx + 1` -/
  slots : Array (Option Nat)
  lenLog : Nat
  deriving Repr

/-- `SuffixStore::with_capacity` (`capacity ≥ 1024` at its only call site, so `ilog2` is defined) -/
def SuffixStore.withCapacity (capacity : Nat) : SuffixStore :=
  { slots := Array.replicate capacity none, lenLog := Nat.log2 capacity }

/-- `slots[self.key(suffix)]` (read) -/
def SuffixStore.get (key : KeyFn) (s : SuffixStore) (kb : List Byte) : Except Fault (Option Nat) :=
  let k := key s.lenLog s.slots.size kb
  if h : k < s.slots.size then .ok s.slots[k] else .error (.index "match_generator.rs:SuffixStore:slots[key]")

/-- `if !contains_key(key) { insert(key, idx) }` — two evaluations of the same `key` in the code -/
def SuffixStore.insertIfAbsent (key : KeyFn) (s : SuffixStore) (kb : List Byte) (idx : Nat) :
    Except Fault SuffixStore :=
  let k := key s.lenLog s.slots.size kb
  if h : k < s.slots.size then
    match s.slots[k] with
    | some _ => .ok s
    | none => .ok { s with slots := s.slots.set k (some idx) }
  else .error (.index "match_generator.rs:SuffixStore:slots[key]")

/-- the recycling closures: `slots.clear(); slots.resize(slots.capacity(), None)` -/
def SuffixStore.recycle (s : SuffixStore) : SuffixStore :=
  { s with slots := Array.replicate s.slots.size none }

structure Entry where
  data : Array Byte
  /-- capacity of the `Vec<u8>` (decides the length of the vector when it is handed out again) -/
  cap : Nat
  suffixes : SuffixStore
  baseOffset : Nat
  deriving Repr

structure MatchGenerator where
  maxWindowSize : Nat
  /-- oldest entry first; the block being matched is the last one -/
  window : List Entry
  windowSize : Nat
  suffixIdx : Nat
  lastIdxInSequence : Nat
  deriving Repr

/-- `Sequence` of `encoding/mod.rs` -/
inductive Seq where
  | triple (literals : List Byte) (offset : Nat) (matchLen : Nat)
  | literals (literals : List Byte)
  deriving Repr, DecidableEq

def MatchGenerator.new (maxSize : Nat) : MatchGenerator :=
  { maxWindowSize := maxSize, window := [], windowSize := 0, suffixIdx := 0, lastIdxInSequence := 0 }

/-! ### `common_prefix_len` -/

/-- number of equal leading bytes of `a[i..ihi]` and `b[j..jhi]` (callers make sure
`ihi ≤ a.size`, `jhi ≤ b.size`: the slices have been taken before) -/
def cplAux (a b : Array Byte) (ihi jhi : Nat) : Nat → Nat → Nat → Nat → Nat
  | 0, _, _, acc => acc
  | f + 1, i, j, acc =>
    if i < ihi ∧ j < jhi then
      match a[i]?, b[j]? with
      | some x, some y => if x = y then cplAux a b ihi jhi f (i + 1) (j + 1) (acc + 1) else acc
      | _, _ => acc
    else acc

def commonPrefixLen (a : Array Byte) (i ihi : Nat) (b : Array Byte) (j jhi : Nat) : Nat :=
  cplAux a b ihi jhi (ihi - i) i j 0

/-- are the `n` bytes at `a[i..]` and `b[j..]` equal (one chunk comparison of `mismatch_chunks`) -/
def chunkEq (a b : Array Byte) : Nat → Nat → Nat → Bool
  | 0, _, _ => true
  | n + 1, i, j =>
    match a[i]?, b[j]? with
    | some x, some y => x = y && chunkEq a b n (i + 1) (j + 1)
    | _, _ => false

/-- first phase of `mismatch_chunks::<N>`: number of leading equal `N`-byte chunks
(`zip(xs.chunks_exact(N), ys.chunks_exact(N)).take_while(eq).count()`) -/
def chunkPhase (N : Nat) (a b : Array Byte) (ihi jhi : Nat) : Nat → Nat → Nat → Nat → Nat
  | 0, _, _, cnt => cnt
  | f + 1, i, j, cnt =>
    if i + N ≤ ihi ∧ j + N ≤ jhi ∧ chunkEq a b N i j then chunkPhase N a b ihi jhi f (i + N) (j + N) (cnt + 1)
    else cnt

/-- `mismatch_chunks::<N>(xs, ys)` with `xs = a[i..ihi]`, `ys = b[j..jhi]`: whole chunks first, then
bytes from where the chunk phase stopped -/
def mismatchChunks (N : Nat) (a : Array Byte) (i ihi : Nat) (b : Array Byte) (j jhi : Nat) : Nat :=
  let off := chunkPhase N a b ihi jhi (ihi - i) i j 0 * N
  off + commonPrefixLen a (i + off) ihi b (j + off) jhi

/-! ### candidate lookup (`for (match_entry_idx, match_entry) in self.window.iter().enumerate()`) -/

/-- the candidate `(offset, match_len)` one window entry contributes for the key at `cur[s..s+5]` -/
def candOf (key : KeyFn) (cur : Array Byte) (s : Nat) (kb : List Byte) (e : Entry) (isLast : Bool) :
    Except Fault (Option (Nat × Nat)) :=
  match e.suffixes.get key kb with
  | .error f => .error f
  | .ok none => .ok none
  | .ok (some mi) =>
    -- `&match_entry.data[match_index..self.suffix_idx]` resp. `&match_entry.data[match_index..]`
    let hi := if isLast then s else e.data.size
    if mi > hi ∨ hi > e.data.size then .error (.index "match_generator.rs:next_sequence:match_slice")
    else
      let ml := mismatchChunks 8 e.data mi hi cur s cur.size
      if Zstd.Gen.mgCandLenOk ml minMatchLen then
        -- `match_entry.base_offset + self.suffix_idx - match_index`
        if e.baseOffset + s < mi then .error (.overflow "match_generator.rs:next_sequence:offset")
        else .ok (some (e.baseOffset + s - mi, ml))
      else .ok none

/-- `if let Some((old_offset, old_match_len)) = candidate { if longer || (equal && closer) … }` -/
def better (old : Option (Nat × Nat)) (new : Nat × Nat) : Option (Nat × Nat) :=
  match old with
  | none => some new
  | some (oldOffset, oldLen) =>
    if Zstd.Gen.mgLongerWins new.2 oldLen || (new.2 == oldLen && Zstd.Gen.mgCloserWins new.1 oldOffset) then some new
    else some (oldOffset, oldLen)

/-- the loop over the window entries, oldest first; the last entry is the one being matched -/
def findCandidate (key : KeyFn) (cur : Array Byte) (s : Nat) (kb : List Byte) :
    List Entry → Option (Nat × Nat) → Except Fault (Option (Nat × Nat))
  | [], cand => .ok cand
  | e :: rest, cand =>
    match candOf key cur s kb e rest.isEmpty with
    | .error f => .error f
    | .ok none => findCandidate key cur s kb rest cand
    | .ok (some c) => findCandidate key cur s kb rest (better cand c)

/-! ### `add_suffixes_till` -/

def keyAt (data : Array Byte) (p : Nat) : List Byte := (data.extract p (p + minMatchLen)).toList

/-- `for (key_index, key) in slice.windows(MIN_MATCH_LEN).enumerate()`: `n` windows starting at `p` -/
def addSuffixLoop (key : KeyFn) (data : Array Byte) : Nat → Nat → SuffixStore → Except Fault SuffixStore
  | 0, _, st => .ok st
  | n + 1, p, st =>
    match st.insertIfAbsent key (keyAt data p) p with
    | .error f => .error f
    | .ok st' => addSuffixLoop key data n (p + 1) st'

/-- `add_suffixes_till(idx)` on the last entry (`data`, store `st`) with `self.suffix_idx = s` -/
def addSuffixesTill (key : KeyFn) (data : Array Byte) (st : SuffixStore) (s idx : Nat) : Except Fault SuffixStore :=
  if data.size < minMatchLen then .ok st
  else if s > idx ∨ idx > data.size then .error (.index "match_generator.rs:add_suffixes_till:data[suffix_idx..idx]")
  else addSuffixLoop key data (idx - s + 1 - minMatchLen) s st

/-! ### `next_sequence` -/

structure LoopOut where
  store : SuffixStore
  suffixIdx : Nat
  lastIdx : Nat
  /-- `none` = `next_sequence` returned `false` -/
  seq : Option Seq

def lits (data : Array Byte) (a b : Nat) : List Byte := (data.extract a b).toList

/-- the `loop` of `next_sequence`.  `older` = all window entries but the last, `last` = the last
entry (its store is the loop variable `st`), `lastIdx = self.last_idx_in_sequence` (constant during
the loop), `s = self.suffix_idx`.  One unit of fuel per iteration. -/
def nextLoop (key : KeyFn) (older : List Entry) (last : Entry) (lastIdx : Nat) :
    Nat → SuffixStore → Nat → Except Fault LoopOut
  | 0, _, _ => .error (.unreachable "model:next_sequence:fuel")
  | fuel + 1, st, s =>
    let len := last.data.size
    if Zstd.Gen.mgAtEnd s len then
      if Zstd.Gen.mgPendingLits lastIdx s then
        -- `&data_slice[self.last_idx_in_sequence..]`
        if lastIdx > len then .error (.index "match_generator.rs:next_sequence:data[last_idx..]")
        else .ok { store := st, suffixIdx := s, lastIdx := s, seq := some (.literals (lits last.data lastIdx len)) }
      else .ok { store := st, suffixIdx := s, lastIdx := lastIdx, seq := none }
    else if Zstd.Gen.mgTailShort (len - s) minMatchLen then
      if lastIdx > len then .error (.index "match_generator.rs:next_sequence:data[last_idx..]")
      else .ok { store := st, suffixIdx := len, lastIdx := len, seq := some (.literals (lits last.data lastIdx len)) }
    else
      let kb := keyAt last.data s
      match findCandidate key last.data s kb (older ++ [{ last with suffixes := st }]) none with
      | .error f => .error f
      | .ok (some (offset, ml)) =>
        match addSuffixesTill key last.data st s (s + ml) with
        | .error f => .error f
        | .ok st' =>
          -- `&last_entry.data[self.last_idx_in_sequence..self.suffix_idx]`
          if lastIdx > s then .error (.index "match_generator.rs:next_sequence:data[last_idx..suffix_idx]")
          else .ok { store := st', suffixIdx := s + ml, lastIdx := s + ml,
                     seq := some (.triple (lits last.data lastIdx s) offset ml) }
      | .ok none =>
        match st.insertIfAbsent key kb s with
        | .error f => .error f
        | .ok st' => nextLoop key older last lastIdx fuel st' (s + 1)

def MatchGenerator.setLast (g : MatchGenerator) (last : Entry) (st : SuffixStore) : List Entry :=
  g.window.dropLast ++ [{ last with suffixes := st }]

/-- `MatchGenerator::next_sequence`; `some seq` = the callback was called with `seq` and `true`
returned, `none` = `false` returned -/
def MatchGenerator.nextSequence (key : KeyFn) (g : MatchGenerator) : Except Fault (MatchGenerator × Option Seq) :=
  match g.window.getLast? with
  | none => .error (.unwrap "match_generator.rs:next_sequence:window.last()")
  | some last =>
    match nextLoop key g.window.dropLast last g.lastIdxInSequence (last.data.size - g.suffixIdx + 1)
        last.suffixes g.suffixIdx with
    | .error f => .error f
    | .ok o =>
      .ok ({ g with window := g.setLast last o.store, suffixIdx := o.suffixIdx, lastIdxInSequence := o.lastIdx }, o.seq)

/-- `while self.match_generator.next_sequence(&mut handle_sequence) {}` -/
def MatchGenerator.startLoop (key : KeyFn) : Nat → MatchGenerator → Except Fault (MatchGenerator × List Seq)
  | 0, _ => .error (.unreachable "model:start_matching:fuel")
  | fuel + 1, g =>
    match g.nextSequence key with
    | .error f => .error f
    | .ok (g', none) => .ok (g', [])
    | .ok (g', some sq) =>
      match MatchGenerator.startLoop key fuel g' with
      | .error f => .error f
      | .ok (g'', rest) => .ok (g'', sq :: rest)

/-- enough for every state (theorem `startMatching_no_fault`): at most one sequence per remaining
byte, one trailing literals sequence, one final `false` -/
def MatchGenerator.startFuel (g : MatchGenerator) : Nat :=
  match g.window.getLast? with
  | none => 1
  | some last => last.data.size - g.suffixIdx + 2

def MatchGenerator.startMatching (key : KeyFn) (g : MatchGenerator) : Except Fault (MatchGenerator × List Seq) :=
  MatchGenerator.startLoop key g.startFuel g

/-- `MatchGenerator::skip_matching` -/
def MatchGenerator.skipMatching (key : KeyFn) (g : MatchGenerator) : Except Fault MatchGenerator :=
  match g.window.getLast? with
  | none => .error (.unwrap "match_generator.rs:skip_matching:window.last()")
  | some last =>
    let len := last.data.size
    match addSuffixesTill key last.data last.suffixes g.suffixIdx len with
    | .error f => .error f
    | .ok st => .ok { g with window := g.setLast last st, suffixIdx := len, lastIdxInSequence := len }

/-! ### `reserve`, `add_data`, `reset` -/

/-- the `while` loop of `reserve`: returns the remaining window, the new `window_size` and the
evicted entries in eviction order -/
def reserveLoop (maxWindowSize amount : Nat) : List Entry → Nat → Except Fault (List Entry × Nat × List Entry)
  | [], ws =>
    if Zstd.Gen.mgEvictWhile (ws + amount) maxWindowSize then .error (.index "match_generator.rs:reserve:window.remove(0)")
    else .ok ([], ws, [])
  | e :: rest, ws =>
    if Zstd.Gen.mgEvictWhile (ws + amount) maxWindowSize then
      if ws < e.data.size then .error (.overflow "match_generator.rs:reserve:window_size -= removed.len")
      else
        match reserveLoop maxWindowSize amount rest (ws - e.data.size) with
        | .error f => .error f
        | .ok (w, ws', ev) => .ok (w, ws', e :: ev)
    else .ok (e :: rest, ws, [])

/-- `MatchGenerator::reserve` -/
def MatchGenerator.reserve (g : MatchGenerator) (amount : Nat) : Except Fault (MatchGenerator × List Entry) :=
  if !Zstd.Gen.mgReserveAssert g.maxWindowSize amount then .error (.assert "match_generator.rs:reserve:max_window_size >= amount")
  else
    match reserveLoop g.maxWindowSize amount g.window g.windowSize with
    | .error f => .error f
    | .ok (w, ws, ev) => .ok ({ g with window := w, windowSize := ws }, ev)

/-- the condition of the `assert!` of `add_data`:
`self.window.is_empty() || self.suffix_idx == self.window.last().unwrap().data.len()` -/
def MatchGenerator.processed (g : MatchGenerator) : Bool :=
  match g.window.getLast? with
  | none => true
  | some last => g.suffixIdx == last.data.size

/-- `if let Some(last_len) = self.window.last().map(|last| last.data.len()) { for entry in
self.window.iter_mut() { entry.base_offset += last_len; } }` -/
def shiftBases (w : List Entry) : List Entry :=
  match w.getLast? with
  | none => w
  | some last => w.map (fun e => { e with baseOffset := e.baseOffset + last.data.size })

/-- `MatchGenerator::add_data`; the second component are the evicted entries (handed to `reuse_space`
in this order) -/
def MatchGenerator.addData (g : MatchGenerator) (data : Array Byte) (cap : Nat) (suffixes : SuffixStore) :
    Except Fault (MatchGenerator × List Entry) :=
  if !g.processed then .error (.assert "match_generator.rs:add_data:last entry fully processed")
  else
    match g.reserve data.size with
    | .error f => .error f
    | .ok (g1, ev) =>
      .ok ({ g1 with window := shiftBases g1.window ++ [{ data := data, cap := cap, suffixes := suffixes, baseOffset := 0 }],
                     windowSize := g1.windowSize + data.size, suffixIdx := 0, lastIdxInSequence := 0 }, ev)

/-- `MatchGenerator::reset`; the drained entries in order -/
def MatchGenerator.reset (g : MatchGenerator) : MatchGenerator × List Entry :=
  ({ g with windowSize := 0, suffixIdx := 0, lastIdxInSequence := 0, window := [] }, g.window)

/-! ### `MatchGeneratorDriver` -/

structure Driver where
  /-- `Vec<Vec<u8>>` in `Vec` order (push/pop at the end); every pooled vector has `len = capacity` -/
  vecPool : List (Array Byte)
  /-- `Vec<SuffixStore>` in `Vec` order -/
  suffixPool : List SuffixStore
  mg : MatchGenerator
  sliceSize : Nat
  deriving Repr

/-- `MatchGeneratorDriver::new` -/
def Driver.new (sliceSize maxSlicesInWindow : Nat) : Driver :=
  { vecPool := [], suffixPool := [], mg := MatchGenerator.new (maxSlicesInWindow * sliceSize), sliceSize := sliceSize }

/-- `data.resize(data.capacity(), 0)` -/
def recycleVec (data : Array Byte) (cap : Nat) : Array Byte :=
  if cap ≤ data.size then data.extract 0 cap else data ++ Array.replicate (cap - data.size) 0

/-- the `reuse_space` closure applied to a list of released entries, in order -/
def Driver.recycle (d : Driver) (released : List Entry) : Driver :=
  { d with vecPool := d.vecPool ++ released.map (fun e => recycleVec e.data e.cap),
           suffixPool := d.suffixPool ++ released.map (fun e => e.suffixes.recycle) }

/-- `Matcher::reset` (the level is ignored) -/
def Driver.reset (d : Driver) : Driver :=
  let (g, released) := d.mg.reset
  { d with mg := g }.recycle released

/-- `Matcher::window_size` -/
def Driver.windowSize (d : Driver) : Nat := d.mg.maxWindowSize

/-- `Matcher::get_next_space`: the newest pooled vector, else `vec![0; slice_size]` -/
def Driver.getNextSpace (d : Driver) : Driver × Array Byte :=
  match d.vecPool.getLast? with
  | some v => ({ d with vecPool := d.vecPool.dropLast }, v)
  | none => (d, Array.replicate d.sliceSize 0)

/-- `Matcher::get_last_space` -/
def Driver.getLastSpace (d : Driver) : Except Fault (Array Byte) :=
  match d.mg.window.getLast? with
  | none => .error (.unwrap "match_generator.rs:get_last_space:window.last()")
  | some last => .ok last.data

def nextPow2Aux (n : Nat) : Nat → Nat → Nat
  | 0, p => p
  | f + 1, p => if p ≥ n then p else nextPow2Aux n f (2 * p)

/-- `usize::next_power_of_two` (`0 ↦ 1`) -/
def nextPow2 (n : Nat) : Nat := nextPow2Aux n n 1

/-- `suffix_pool.iter().enumerate().find(|(_, store)| store.len_log >= requested_size_log)` followed
by `remove(idx)`: the chosen store and the remaining pool -/
def takeStore (requestedLog : Nat) : List SuffixStore → Option (SuffixStore × List SuffixStore)
  | [] => none
  | st :: rest =>
    if Zstd.Gen.mgStoreFits st.lenLog requestedLog then some (st, rest)
    else
      match takeStore requestedLog rest with
      | none => none
      | some (c, rest') => some (c, st :: rest')

/-- `usize::max(SUFFIX_STORE_MIN_CAPACITY, space.len().next_power_of_two())` -/
def requestedStoreSize (spaceLen : Nat) : Nat := max Zstd.Gen.suffixStoreMinCapacity (nextPow2 spaceLen)

/-- the suffix store used for a new entry and what stays in the pool: the first pooled store with
`len_log >= requested_size_log`, else a new one -/
def selectStore (requested : Nat) (pool : List SuffixStore) : SuffixStore × List SuffixStore :=
  match takeStore (Nat.log2 requested) pool with
  | some (st, rest) => (st, rest)
  | none => (SuffixStore.withCapacity requested, pool)

/-- `Matcher::commit_space`; `cap` is the capacity of the committed `Vec` (`≥ space.size`) -/
def Driver.commitSpace (d : Driver) (space : Array Byte) (cap : Nat) : Except Fault Driver :=
  match d.mg.addData space cap (selectStore (requestedStoreSize space.size) d.suffixPool).1 with
  | .error f => .error f
  | .ok (g, released) =>
    .ok ({ d with suffixPool := (selectStore (requestedStoreSize space.size) d.suffixPool).2, mg := g }.recycle released)

/-- `Matcher::start_matching`: the sequences handed to the callback, in order -/
def Driver.startMatching (key : KeyFn) (d : Driver) : Except Fault (Driver × List Seq) :=
  match d.mg.startMatching key with
  | .error f => .error f
  | .ok (g, seqs) => .ok ({ d with mg := g }, seqs)

/-- `Matcher::skip_matching` -/
def Driver.skipMatching (key : KeyFn) (d : Driver) : Except Fault Driver :=
  match d.mg.skipMatching key with
  | .error f => .error f
  | .ok g => .ok { d with mg := g }

/-- `verif_stats()`: (window_size, max_window_size, #entries, vec pool size, suffix pool size) -/
def Driver.stats (d : Driver) : Nat × Nat × Nat × Nat × Nat :=
  (d.mg.windowSize, d.mg.maxWindowSize, d.mg.window.length, d.vecPool.length, d.suffixPool.length)

/-! ### histories: every way a caller can drive the `Matcher` trait -/

/-- one call of a state-changing method of the `Matcher` trait (`window_size` and `get_last_space`
do not change the state) -/
inductive Op where
  | reset
  | getNextSpace
  /-- `commit_space` of a vector with this content and capacity (any vector, not necessarily one
  handed out by `get_next_space`) -/
  | commitSpace (space : Array Byte) (cap : Nat)
  | startMatching
  | skipMatching

/-- the state after the call (outputs dropped); a `Fault` = the call panics -/
def Driver.step (key : KeyFn) (d : Driver) : Op → Except Fault Driver
  | .reset => .ok d.reset
  | .getNextSpace => .ok d.getNextSpace.1
  | .commitSpace space cap => d.commitSpace space cap
  | .startMatching => match d.startMatching key with | .error f => .error f | .ok (d', _) => .ok d'
  | .skipMatching => d.skipMatching key

/-- `d` is the state of a driver created by `MatchGeneratorDriver::new(sliceSize, maxSlices)` after
some sequence of calls none of which panicked -/
inductive Reachable (key : KeyFn) (sliceSize maxSlices : Nat) : Driver → Prop
  | init : Reachable key sliceSize maxSlices (Driver.new sliceSize maxSlices)
  | step {d d' : Driver} (op : Op) : Reachable key sliceSize maxSlices d → d.step key op = .ok d' →
      Reachable key sliceSize maxSlices d'

/-- the bytes the matcher still retains, oldest first (the debug build's `concat_window`) -/
def Driver.windowBytes (d : Driver) : List Byte := d.mg.window.flatMap (fun e => e.data.toList)

/-- the last committed block (`get_last_space`), `[]` if there is none -/
def Driver.block (d : Driver) : List Byte :=
  match d.mg.window.getLast? with
  | none => []
  | some last => last.data.toList

/-- number of bytes retained in front of the last committed block -/
def Driver.retainedBefore (d : Driver) : Nat := (d.mg.window.dropLast.map (fun e => e.data.size)).sum

def Seq.lits : Seq → List Byte
  | .triple l _ _ => l
  | .literals l => l

def Seq.matchLen : Seq → Nat
  | .triple _ _ ml => ml
  | .literals _ => 0

/-- number of block bytes a sequence accounts for -/
def Seq.span (s : Seq) : Nat := s.lits.length + s.matchLen

/-- position in the block at which sequence `i` starts -/
def startOf (seqs : List Seq) (i : Nat) : Nat := ((seqs.take i).map Seq.span).sum

/-- what a decoder does with the sequences: append the literals, then copy `match_len` bytes from
`offset` bytes back (byte by byte, so overlapping copies are defined); `none` if an offset is 0 or
reaches before the start of `out` -/
def copyMatch (out : List Byte) (offset : Nat) : Nat → Option (List Byte)
  | 0 => some out
  | n + 1 =>
    if offset = 0 ∨ offset > out.length then none
    else
      match out[out.length - offset]? with
      | none => none
      | some b => copyMatch (out ++ [b]) offset n

def execSeqs (out : List Byte) : List Seq → Option (List Byte)
  | [] => some out
  | .literals l :: rest => execSeqs (out ++ l) rest
  | .triple l off ml :: rest =>
    match copyMatch (out ++ l) off ml with
    | none => none
    | some out' => execSeqs out' rest

end Zstd.Model.MG
