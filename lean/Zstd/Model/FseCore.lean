import Zstd.Basic
import Zstd.Gen.Fse
/-
The small pure functions of the FSE table builders (both sides) whose finite cores are evaluated by
the kernel in `Zstd/Proofs/FseFin/*`.  Kept in their own file so that those (expensive, cached)
modules are only re-checked when one of THESE definitions or `Gen.Fse` changes.
Mirrors `fse_decoder.rs:326-366` (`highest_bit_set`, `next_position`, `calc_baseline_and_numbits`),
the inner `while` of `build_decoding_table` (`fse_decoder.rs:192`), and the encoder's copies
(`fse_encoder.rs:356`, `:415-419`).
-/
namespace Zstd.Model.Fse
open Zstd

/-- `highest_bit_set(x)` = `32 - leading_zeros` for `x > 0` -/
def highestBitSet (x : Nat) : Except Fault Nat :=
  if x = 0 then .error (.assert "fse_decoder.rs:327:highest_bit_set") else .ok (Nat.log2 x + 1)

/-- decoder-side `next_position` -/
def nextPosition (p size : Nat) : Nat :=
  (p + (size >>> Gen.fseDecStepShrA) + (size >>> Gen.fseDecStepShrB) + Gen.fseDecStepAdd) &&& (size - 1)

/-- `calc_baseline_and_numbits(num_states_total, num_states_symbol, state_number)` over `u32` -/
def calcBaselineAndNumbits (total p k : Nat) : Except Fault (Nat × Nat) :=
  if p = 0 then .ok (0, 0)
  else
    let h := Nat.log2 p + 1
    if h ≥ 32 ∧ 1 <<< (h - 1) ≠ p then .error (.overflow "fse_decoder.rs:351:calc_baseline_and_numbits")
    else
      let slices := if 1 <<< (h - 1) = p then p else 1 <<< h
      let dbl := slices - p
      let sgl := p - dbl
      let width := total / slices
      if width = 0 then .error (.assert "fse_decoder.rs:327:highest_bit_set")
      else
        let nb := Nat.log2 width
        if k < dbl then
          let b := sgl * width + k * width * 2
          if b ≥ 2 ^ 32 then .error (.overflow "fse_decoder.rs:360:calc_baseline_and_numbits") else .ok (b, nb + 1)
        else
          let b := (k - dbl) * width
          if b ≥ 2 ^ 32 then .error (.overflow "fse_decoder.rs:364:calc_baseline_and_numbits") else .ok (b, nb)

/-- `while position >= negative_idx { position = next_position(..) }` -/
def skipHigh (size neg : Nat) : Nat → Nat → Except Fault Nat
  | 0, _ => .error (.unreachable "fse_decoder.rs:192:build_decoding_table:nontermination")
  | fuel + 1, pos => if pos ≥ neg then skipHigh size neg fuel (nextPosition pos size) else .ok pos

/-- encoder-side `next_position` -/
def nextPositionEnc (p size : Nat) : Nat :=
  (p + (size >>> Gen.fseEncStepShrA) + (size >>> Gen.fseEncStepShrB) + Gen.fseEncStepAdd) &&& (size - 1)

/-- `while idx > negative_idx { idx = next_position(..) }` -/
def encSkipHigh (size neg : Nat) : Nat → Nat → Except Fault Nat
  | 0, _ => .error (.unreachable "fse_encoder.rs:356:build_table_from_probabilities:nontermination")
  | fuel + 1, idx => if idx > neg then encSkipHigh size neg fuel (nextPositionEnc idx size) else .ok idx

end Zstd.Model.Fse
