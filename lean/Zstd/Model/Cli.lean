import Zstd.Basic
import Zstd.Gen.Cli
import Zstd.Model.IoNoStd
/-
C19 — model of `cli/src/main.rs` as a decision procedure.

`(command, level option: absent | n, does the input exist?, is it empty?, can the output be created?)
   ↦ (exit class, is there an output file afterwards?, is it a complete result?, library level)`.

Everything that is plain source text comes from `Zstd.Gen.Cli` on every run: the default level,
the arms of `match level`, the order of the four effects of `fn compress` (level map, open input,
create output, library call), which levels the library implements and what it does for the
others, the empty-input shortcut of the library.  `Cfg` packages them so that the theorems can be
stated for every table (`Props/C19.lean`) and then instantiated with today's source.
-/
namespace Zstd.Model.Cli
open Zstd
open Zstd.Gen.Cli (Arm)

inductive Exit where
  | ok          -- exit status 0
  | error       -- `main` returned `Err` (exit status 1)
  | usage       -- the argument parser refused the command line (exit status 2)
  | panic       -- exit status 101
  deriving Repr, DecidableEq

def Exit.render : Exit → String
  | .ok => "ok" | .error => "error" | .usage => "usage" | .panic => "panic"

structure Cfg where
  defaultLevel : Nat
  levelBits : Nat
  levelArms : List (Nat × Nat × Arm)
  levelFallback : Arm
  compressOrder : List String
  openFailureReturned : Bool
  createFailureReturned : Bool
  libImplemented : List String
  libFallbackPanics : Bool
  libEmptyShortcut : Bool
  noSubcommandPanics : Bool
  decompressOpenBeforeCreate : Bool
  decompressCreateBeforeDecode : Bool
  decompressRefusesSamePath : Bool
  progressPassThrough : Bool
  deriving Repr, DecidableEq

/-- what the source says today -/
def srcCfg : Cfg where
  defaultLevel := Gen.Cli.defaultLevel
  levelBits := Gen.Cli.levelBits
  levelArms := Gen.Cli.levelArms
  levelFallback := Gen.Cli.levelFallback
  compressOrder := Gen.Cli.compressOrder
  openFailureReturned := Gen.Cli.openFailureReturned
  createFailureReturned := Gen.Cli.createFailureReturned
  libImplemented := Gen.Cli.libImplemented
  libFallbackPanics := Gen.Cli.libFallbackPanics
  libEmptyShortcut := Gen.Cli.libEmptyShortcutBeforeLevelMatch
  noSubcommandPanics := Gen.Cli.noSubcommandPanics
  decompressOpenBeforeCreate := Gen.Cli.decompressOpenBeforeCreate
  decompressCreateBeforeDecode := Gen.Cli.decompressCreateBeforeDecode
  decompressRefusesSamePath := Gen.Cli.decompressRefusesSamePath
  progressPassThrough := Gen.Cli.progressPassThrough

/-- `match level { .. }`: first arm whose range contains `n`, else the `_` arm -/
def lookupArm : List (Nat × Nat × Arm) → Arm → Nat → Arm
  | [], fb, _ => fb
  | (lo, hi, a) :: rest, fb, n => if lo ≤ n ∧ n ≤ hi then a else lookupArm rest fb n

def Cfg.arm (c : Cfg) (n : Nat) : Arm := lookupArm c.levelArms c.levelFallback n

/-- the library runs this level to completion on this input (`FrameCompressor::compress`) -/
def Cfg.libCompletes (c : Cfg) (level : String) (inputEmpty : Bool) : Bool :=
  (c.libEmptyShortcut && inputEmpty) || c.libImplemented.contains level || !c.libFallbackPanics

structure CompressEnv where
  inputExists : Bool
  inputEmpty : Bool
  outputCreatable : Bool
  deriving Repr, DecidableEq

structure Outcome where
  exit : Exit
  outputExists : Bool      -- a file is present at the output path afterwards (and was created by this run)
  outputComplete : Bool    -- … and it is the complete result of the operation
  libLevel : Option String -- the `CompressionLevel` handed to the library, once resolved
  deriving Repr, DecidableEq

structure CState where
  level : Option String := none
  opened : Bool := false
  created : Bool := false
  deriving Repr, DecidableEq

/-- the effects of `fn compress` in source order; the first failing one ends the run -/
def compressSteps (c : Cfg) (n : Nat) (env : CompressEnv) : List String → CState → Outcome
  | [], st => { exit := .ok, outputExists := st.created, outputComplete := st.created, libLevel := st.level }
  | step :: rest, st =>
    if step == "match" then
      match c.arm n with
      | .lib l => compressSteps c n env rest { st with level := some l }
      | .error => { exit := .error, outputExists := st.created, outputComplete := false, libLevel := none }
      | .panic => { exit := .panic, outputExists := st.created, outputComplete := false, libLevel := none }
    else if step == "open" then
      if env.inputExists then compressSteps c n env rest { st with opened := true }
      else { exit := if c.openFailureReturned then .error else .panic, outputExists := st.created, outputComplete := false, libLevel := st.level }
    else if step == "create" then
      if env.outputCreatable then compressSteps c n env rest { st with created := true }
      else { exit := if c.createFailureReturned then .error else .panic, outputExists := false, outputComplete := false, libLevel := st.level }
    else if step == "lib" then
      match st.level with
      | some l =>
        if st.opened && st.created then
          if c.libCompletes l env.inputEmpty then compressSteps c n env rest st
          else { exit := .panic, outputExists := st.created, outputComplete := false, libLevel := st.level }
        else { exit := .panic, outputExists := st.created, outputComplete := false, libLevel := st.level }
      | none => { exit := .panic, outputExists := st.created, outputComplete := false, libLevel := none }
    else { exit := .panic, outputExists := st.created, outputComplete := false, libLevel := st.level }

/-- `ruzstd-cli compress INPUT [OUTPUT] [--level n]` -/
def runCompress (c : Cfg) (level : Option Nat) (env : CompressEnv) : Outcome :=
  let n := level.getD c.defaultLevel
  if n ≥ 2 ^ c.levelBits then { exit := .usage, outputExists := false, outputComplete := false, libLevel := none }
  else compressSteps c n env c.compressOrder {}

/-- `ruzstd-cli` without a subcommand -/
def runNoCommand (c : Cfg) : Exit := if c.noSubcommandPanics then .panic else .error

structure DecompressEnv where
  inputExists : Bool
  frameValid : Bool        -- the input is one complete, valid frame
  outputCreatable : Bool
  samePath : Bool          -- the (given or derived) output path is the input path
  deriving Repr, DecidableEq

structure DOutcome where
  exit : Exit
  outputExists : Bool
  outputComplete : Bool
  inputDestroyed : Bool    -- the input archive was truncated by `File::create(output)`
  deriving Repr, DecidableEq

/-- `fn decompress`: open input, (refuse same path,) create output, decode.  Written for the order
`open < create < decode` that the extractor confirms (`decompressOpenBeforeCreate`,
`decompressCreateBeforeDecode`); any other order is reported as `panic` so that no theorem below
holds by accident for a source the model does not describe. -/
def runDecompress (c : Cfg) (env : DecompressEnv) : DOutcome :=
  if !(c.decompressOpenBeforeCreate && c.decompressCreateBeforeDecode) then
    { exit := .panic, outputExists := false, outputComplete := false, inputDestroyed := false }
  else if !env.inputExists then { exit := .error, outputExists := false, outputComplete := false, inputDestroyed := false }
  else if c.decompressRefusesSamePath && env.samePath then
    { exit := .error, outputExists := false, outputComplete := false, inputDestroyed := false }
  else if !env.outputCreatable then { exit := .error, outputExists := false, outputComplete := false, inputDestroyed := false }
  else if env.samePath then
    -- the archive was just truncated to 0 bytes: reading the magic number fails
    { exit := .error, outputExists := true, outputComplete := false, inputDestroyed := true }
  else if env.frameValid then { exit := .ok, outputExists := true, outputComplete := true, inputDestroyed := false }
  else { exit := .error, outputExists := true, outputComplete := false, inputDestroyed := false }

/-! ### contents -/

/-- `ProgressMonitor::read`: the inner reader's answer, and the byte counter -/
def progressRead (c : Cfg) (r : Io.Reader) (count : Nat) (req : Nat) : (Except Io.Kind (List Byte) × Io.Reader) × Nat :=
  match r.read req with
  | (.ok bs, r') => ((.ok (if c.progressPassThrough then bs else []), r'), count + bs.length)
  | (.error k, r') => ((.error k, r'), count)

/-- bytes of the output file of a successful `compress`: the library's frame for the resolved level -/
def compressedFile (c : Cfg) (enc : String → List Byte → List Byte) (level : Option Nat) (content : List Byte) : Option (List Byte) :=
  match (runCompress c level ⟨true, content.isEmpty, true⟩) with
  | { exit := .ok, libLevel := some l, .. } => some (enc l content)
  | _ => none

/-! ### default output names -/

/-- `Path::file_stem` on a file name: the part before the last `.`; the whole name if there is no
`.` or the only `.` is the first character -/
def fileStem (name : List Char) : List Char :=
  match name.reverse.span (· ≠ '.') with
  | (_, []) => name
  | (_, _ :: beforeRev) => if beforeRev.isEmpty then name else beforeRev.reverse

def addExtension (c : String) (name : List Char) : List Char := name ++ c.toList

end Zstd.Model.Cli
