import Zstd.Basic
import Zstd.Gen.Consts
import Zstd.Gen.Dists
import Zstd.Gen.Fse
import Zstd.Model.BitIO
import Zstd.Model.FseCore
/-
FSE of ruzstd, mirrored function by function.

  decoder  `ruzstd/src/fse/fse_decoder.rs`: `FSETable::{read_probabilities, build_decoding_table,
           build_from_probabilities, build_decoder}`, `calc_baseline_and_numbits`, `next_position`,
           `highest_bit_set`, `FSEDecoder::{new, init_state, decode_symbol, update_state}`
  encoder  `ruzstd/src/fse/fse_encoder.rs`: `build_table_from_data/_counts` (the normaliser),
           `build_table_from_probabilities`, `SymbolStates::get`, `FSETable::{next_state, start_state,
           acc_log, write_table}`, `FSEEncoder::{encode, encode_interleaved}`, `default_*_table`
  and the two decode loops that consume what the two stream encoders write: the single-state loop
  (`fse/mod.rs round_trip`, same shape as one table of the sequence decoder) and the two-state loop of
  `huff0_decoder.rs:202-234` (`read_weights`).

Numbers are `Nat`/`Int`; `u32`/`u8`/`usize` overflow, index, `unwrap`, `assert!` sites are `Fault`s.
`while` loops that are not bounded by a slice take fuel; running out of fuel means the Rust loop would
not terminate and is reported as `Fault.unreachable "...:nontermination"`.
Assumption of the whole file: symbol counts and probabilities fit `i32` (the compressor sees at most
2^17 sequences per block).
-/
namespace Zstd.Model.Fse
open Zstd Zstd.Model.BitIO

inductive Err where
  | accLogIsZero
  | accLogTooBig (got max : Nat)
  | getBitsTooMany (requested : Nat)
  | getBitsNotEnough (requested remaining : Nat)
  | probabilityCounterMismatch (got expected : Nat)
  | tooManySymbols (got : Nat)
  | tableIsUninitialized
  | fault (f : Fault)
  deriving Repr, DecidableEq

def liftBit {α} : Except BitErr α → Except Err α
  | .ok a => .ok a
  | .error (.tooManyBits r _) => .error (.getBitsTooMany r)
  | .error (.notEnoughRemainingBits r m) => .error (.getBitsNotEnough r m)
  | .error (.fault f) => .error (.fault f)

def liftFault {α} : Except Fault α → Except Err α
  | .ok a => .ok a
  | .error f => .error (.fault f)

/-! ## Decoder side -/

structure DEntry where
  baseLine : Nat := 0
  numBits : Nat := 0
  symbol : Nat := 0
  deriving Repr, DecidableEq, Inhabited

/-- `fse_decoder::FSETable` -/
structure DTable where
  maxSymbol : Nat
  decode : Array DEntry := #[]
  accuracyLog : Nat := 0
  probs : Array Int := #[]
  symbolCounter : Array Nat := #[]
  deriving Repr, DecidableEq

def DTable.new (maxSymbol : Nat) : DTable := { maxSymbol := maxSymbol }

def DTable.reset (t : DTable) : DTable := { maxSymbol := t.maxSymbol }

def DTable.reinitFrom (t other : DTable) : DTable :=
  { maxSymbol := t.maxSymbol, decode := other.decode, accuracyLog := other.accuracyLog,
    probs := other.probs, symbolCounter := other.symbolCounter }

/-- first loop of `build_decoding_table`: "less than one" symbols from the top down.
`ps` = remaining `(probability, symbol)` pairs. -/
def placeNegatives (al : Nat) : List (Int × Nat) → Array DEntry → Nat → Except Fault (Array DEntry × Nat)
  | [], dec, neg => .ok (dec, neg)
  | (p, s) :: rest, dec, neg =>
    if p = -1 then
      if neg = 0 then .error (.overflow "fse_decoder.rs:169:build_decoding_table")
      else if neg - 1 < dec.size then
        placeNegatives al rest (dec.set! (neg - 1) { symbol := s % 256, baseLine := 0, numBits := al }) (neg - 1)
      else .error (.index "fse_decoder.rs:170:build_decoding_table")
    else placeNegatives al rest dec neg

/-- `for _ in 0..prob { decode[position].symbol = symbol; advance }` -/
def spreadSymbol (size neg sym : Nat) : Nat → Array DEntry → Nat → Except Fault (Array DEntry × Nat)
  | 0, dec, pos => .ok (dec, pos)
  | n + 1, dec, pos =>
    match dec[pos]? with
    | none => .error (.index "fse_decoder.rs:188:build_decoding_table")
    | some e =>
      match skipHigh size neg (size + 1) (nextPosition pos size) with
      | .error f => .error f
      | .ok pos' => spreadSymbol size neg sym n (dec.set! pos { e with symbol := sym }) pos'

/-- second loop of `build_decoding_table` -/
def spreadAll (size neg : Nat) : List (Int × Nat) → Array DEntry → Nat → Except Fault (Array DEntry × Nat)
  | [], dec, pos => .ok (dec, pos)
  | (p, s) :: rest, dec, pos =>
    if p ≤ 0 then spreadAll size neg rest dec pos
    else
      match spreadSymbol size neg (s % 256) p.toNat dec pos with
      | .error f => .error f
      | .ok (dec, pos) => spreadAll size neg rest dec pos

/-- `prob as u32` -/
def asU32 (p : Int) : Nat := if p < 0 then (p + 4294967296).toNat else p.toNat

/-- third loop of `build_decoding_table`: baselines and bit counts for `idx ∈ [from, neg)` -/
def assignStates (al size : Nat) (probs : Array Int) : Nat → Nat → Array DEntry → Array Nat → Except Fault (Array DEntry × Array Nat)
  | 0, _, dec, ctr => .ok (dec, ctr)
  | n + 1, idx, dec, ctr =>
    match dec[idx]? with
    | none => .error (.index "fse_decoder.rs:204:build_decoding_table")
    | some e =>
      match probs[e.symbol]?, ctr[e.symbol]? with
      | some p, some c =>
        match calcBaselineAndNumbits size (asU32 p) c with
        | .error f => .error f
        | .ok (bl, nb) =>
          if nb > al then .error (.assert "fse_decoder.rs:213:build_decoding_table")
          else assignStates al size probs n (idx + 1) (dec.set! idx { e with baseLine := bl, numBits := nb }) (ctr.set! e.symbol (c + 1))
      | _, _ => .error (.index "fse_decoder.rs:206:build_decoding_table")

def zipIdx (probs : Array Int) : List (Int × Nat) := probs.toList.zipIdx

/-- `build_decoding_table` on an explicit (accuracy log, probabilities, max symbol):
result = (decode table, symbol counters). -/
def buildDecodingTableCore (al : Nat) (probs : Array Int) (maxSymbol : Nat) : Except Err (Array DEntry × Array Nat) :=
  if probs.size > maxSymbol + 1 then .error (.tooManySymbols probs.size)
  else if al ≥ 64 then .error (.fault (.overflow "fse_decoder.rs:150:build_decoding_table"))
  else
    let size := 1 <<< al
    let dec0 : Array DEntry := Array.replicate size {}
    match placeNegatives al (zipIdx probs) dec0 size with
    | .error f => .error (.fault f)
    | .ok (dec1, neg) =>
      match spreadAll size neg (zipIdx probs) dec1 0 with
      | .error f => .error (.fault f)
      | .ok (dec2, _) =>
        match assignStates al size probs neg 0 dec2 (Array.replicate probs.size 0) with
        | .error f => .error (.fault f)
        | .ok r => .ok r

/-- `FSETable::build_decoding_table(&mut self)` (on an error the table is left as the Rust code
leaves it: untouched for `TooManySymbols`; a panic has no successor state) -/
def DTable.buildDecodingTable (t : DTable) : DTable × Except Err Unit :=
  match buildDecodingTableCore t.accuracyLog t.probs t.maxSymbol with
  | .error e => (t, .error e)
  | .ok (dec, ctr) => ({ t with decode := dec, symbolCounter := ctr }, .ok ())

/-- `FSETable::build_from_probabilities(acc_log, probs)` -/
def DTable.buildFromProbabilities (t : DTable) (al : Nat) (probs : List Int) : DTable × Except Err Unit :=
  if al = 0 then (t, .error .accLogIsZero)
  else DTable.buildDecodingTable { t with probs := probs.toArray, accuracyLog := al }

/-- the zero-run loop: `loop { skip = get_bits(2)?; resize(len + skip); if skip != 3 { break } }` -/
def readZeroRuns : Nat → BitReader → Array Int → Array Int × Except Err BitReader
  | 0, _, probs => (probs, .error (.fault (.unreachable "fse_decoder.rs:275:read_probabilities:nontermination")))
  | fuel + 1, br, probs =>
    match liftBit (br.getBits 2) with
    | .error e => (probs, .error e)
    | .ok (skip, br) =>
      let probs := probs ++ Array.replicate skip (0 : Int)
      if skip ≠ 3 then (probs, .ok br) else readZeroRuns fuel br probs

/-- the `while probability_counter < probability_sum` loop.  Returns the probabilities pushed so far
(also on an error, as the Rust code leaves them) and the reader and counter. -/
def readProbLoop (sum : Nat) : Nat → BitReader → Nat → Array Int → Array Int × Except Err (BitReader × Nat)
  | 0, _, _, probs => (probs, .error (.fault (.unreachable "fse_decoder.rs:242:read_probabilities:nontermination")))
  | fuel + 1, br, counter, probs =>
    if ¬ (counter < sum) then (probs, .ok (br, counter))
    else
      let maxRemaining := sum - counter + 1
      let bitsToRead := Nat.log2 maxRemaining + 1
      match liftBit (br.getBits bitsToRead) with
      | .error e => (probs, .error e)
      | .ok (unchecked, br) =>
        let lowThreshold := (1 <<< bitsToRead) - 1 - maxRemaining
        let mask := (1 <<< (bitsToRead - 1)) - 1
        let small := unchecked &&& mask
        let step : Except Err (Nat × BitReader) :=
          if small < lowThreshold then
            match br.returnBits 1 with
            | .error f => .error (.fault f)
            | .ok br => .ok (small, br)
          else if unchecked > mask then .ok (unchecked - lowThreshold, br)
          else .ok (unchecked, br)
        match step with
        | .error e => (probs, .error e)
        | .ok (value, br) =>
          let prob : Int := (value : Int) - 1
          let probs := probs.push prob
          if prob ≠ 0 then
            if prob > 0 then readProbLoop sum fuel br (counter + prob.toNat) probs
            else readProbLoop sum fuel br (counter + 1) probs     -- `assert!(prob == -1)` holds: value ≥ 0
          else
            match readZeroRuns (br.src.size * 4 + 2) br probs with
            | (probs, .error e) => (probs, .error e)
            | (probs, .ok br) => readProbLoop sum fuel br counter probs

/-- `FSETable::read_probabilities(&mut self, source, max_log)`; returns the number of bytes read -/
def DTable.readProbabilities (t : DTable) (src : Array Nat) (maxLog : Nat) : DTable × Except Err Nat :=
  let t := { t with probs := #[] }
  match liftBit ((BitReader.new src).getBits 4) with
  | .error e => (t, .error e)
  | .ok (a, br) =>
    let al := Gen.accLogOffset + a
    if al > 255 then (t, .error (.fault (.overflow "fse_decoder.rs:228:read_probabilities")))
    else
      let t := { t with accuracyLog := al }
      if al > maxLog then (t, .error (.accLogTooBig al maxLog))
      else if al = 0 then (t, .error .accLogIsZero)
      else
        let sum := 1 <<< al
        match readProbLoop sum (src.size * 8 + 2) br 0 #[] with
        | (probs, .error e) => ({ t with probs := probs }, .error e)
        | (probs, .ok (br, counter)) =>
          let t := { t with probs := probs }
          if counter ≠ sum then (t, .error (.probabilityCounterMismatch counter sum))
          else if probs.size > t.maxSymbol + 1 then (t, .error (.tooManySymbols probs.size))
          else (t, .ok (if br.bitsRead % 8 = 0 then br.bitsRead / 8 else br.bitsRead / 8 + 1))

/-- `FSETable::build_decoder(&mut self, source, max_log)` -/
def DTable.buildDecoder (t : DTable) (src : Array Nat) (maxLog : Nat) : DTable × Except Err Nat :=
  let t := { t with accuracyLog := 0 }
  match t.readProbabilities src maxLog with
  | (t, .error e) => (t, .error e)
  | (t, .ok n) =>
    match t.buildDecodingTable with
    | (t, .error e) => (t, .error e)
    | (t, .ok ()) => (t, .ok n)

/-- `FSEDecoder`: the current entry (the table is passed to the operations) -/
structure Decoder where
  state : DEntry
  deriving Repr, DecidableEq

def Decoder.new (t : DTable) : Decoder := { state := t.decode[0]?.getD {} }

def Decoder.decodeSymbol (d : Decoder) : Nat := d.state.symbol

def Decoder.initState (_d : Decoder) (t : DTable) (br : BitReaderRev) : Except Err (Decoder × BitReaderRev) :=
  if t.accuracyLog = 0 then .error .tableIsUninitialized
  else
    match br.getBits t.accuracyLog with
    | .error f => .error (.fault f)
    | .ok (s, br) =>
      match t.decode[s]? with
      | none => .error (.fault (.index "fse_decoder.rs:37:init_state"))
      | some e => .ok ({ state := e }, br)

def Decoder.updateState (d : Decoder) (t : DTable) (br : BitReaderRev) : Except Err (Decoder × BitReaderRev) :=
  match br.getBits d.state.numBits with
  | .error f => .error (.fault f)
  | .ok (add, br) =>
    if d.state.baseLine + add ≥ 2 ^ 32 then .error (.fault (.overflow "fse_decoder.rs:47:update_state"))
    else
      match t.decode[d.state.baseLine + add]? with
      | none => .error (.fault (.index "fse_decoder.rs:48:update_state"))
      | some e => .ok ({ state := e }, br)

/-! ## Encoder side -/

structure EState where
  numBits : Nat := 0
  baseline : Nat := 0
  lastIndex : Nat := 0
  index : Nat := 0
  deriving Repr, DecidableEq, Inhabited

structure SymbolStates where
  states : Array EState := #[]
  probability : Int := 0
  deriving Repr, DecidableEq, Inhabited

/-- `fse_encoder::FSETable` -/
structure ETable where
  /-- indexed by symbol, 256 entries -/
  states : Array SymbolStates
  tableSize : Nat
  deriving Repr, DecidableEq

/-- stable insertion sort by key (Rust `sort_by_key` is stable) -/
def insertByKey {α} (key : α → Nat) (x : α) : List α → List α
  | [] => [x]
  | y :: ys => if key x < key y then x :: y :: ys else y :: insertByKey key x ys

def sortByKey {α} (key : α → Nat) (l : List α) : List α := l.foldl (fun acc x => insertByKey key x acc) []

/-- negatives loop of `build_table_from_probabilities`; `neg` is the next free top index -/
def encPlaceNegatives (al : Nat) : List (Int × Nat) → Array SymbolStates → Nat → Except Fault (Array SymbolStates × Nat)
  | [], st, neg => .ok (st, neg)
  | (p, s) :: rest, st, neg =>
    if p = -1 then
      match st[s]? with
      | none => .error (.index "fse_encoder.rs:327:build_table_from_probabilities")
      | some ss =>
        let st := st.set! s { states := ss.states.push { numBits := al, baseline := 0, lastIndex := (1 <<< al) - 1, index := neg }, probability := -1 }
        if neg = 0 then .error (.overflow "fse_encoder.rs:334:build_table_from_probabilities")
        else encPlaceNegatives al rest st (neg - 1)
    else encPlaceNegatives al rest st neg

/-- `for _ in 0..prob { states.push(State{index: idx}); advance }` -/
def encSpreadSymbol (size neg : Nat) : Nat → Array EState → Nat → Except Fault (Array EState × Nat)
  | 0, sts, idx => .ok (sts, idx)
  | n + 1, sts, idx =>
    match encSkipHigh size neg (size + 1) (nextPositionEnc idx size) with
    | .error f => .error f
    | .ok idx' => encSpreadSymbol size neg n (sts.push { index := idx }) idx'

def encSpreadAll (size neg : Nat) : List (Int × Nat) → Array SymbolStates → Nat → Except Fault (Array SymbolStates × Nat)
  | [], st, idx => .ok (st, idx)
  | (p, s) :: rest, st, idx =>
    if p ≤ 0 then encSpreadAll size neg rest st idx
    else
      match st[s]? with
      | none => .error (.index "fse_encoder.rs:345:build_table_from_probabilities")
      | some ss =>
        match encSpreadSymbol size neg p.toNat ss.states idx with
        | .error f => .error f
        | .ok (sts, idx) => encSpreadAll size neg rest (st.set! s { states := sts, probability := p }) idx

/-- baselines of one symbol's states, already sorted by index; `i` = position in that order -/
def encAssign (al dbl nb : Nat) : List EState → Nat → Nat → List EState
  | [], _, _ => []
  | s :: rest, i, baseline =>
    if i < dbl then
      let nb1 := nb + 1
      { s with baseline := baseline, numBits := nb1, lastIndex := baseline + ((1 <<< nb1) - 1) }
        :: encAssign al dbl nb rest (i + 1) ((baseline + (1 <<< nb1)) % (1 <<< al))
    else
      { s with baseline := baseline, numBits := nb, lastIndex := baseline + ((1 <<< nb) - 1) }
        :: encAssign al dbl nb rest (i + 1) (baseline + (1 <<< nb))

/-- third loop of `build_table_from_probabilities` for one symbol with `prob > 0` -/
def encFinishSymbol (al : Nat) (prob : Nat) (sts : Array EState) : Except Fault (Array EState) :=
  let byIndex := sortByKey (·.index) sts.toList
  let probLog := if 1 <<< Nat.log2 prob = prob then Nat.log2 prob else Nat.log2 prob + 1
  let roundedUp := 1 <<< probLog
  let dbl := roundedUp - prob
  let sgl := prob - dbl
  if probLog > al then .error (.overflow "fse_encoder.rs:384:build_table_from_probabilities")
  else
    let nb := al - probLog
    let baseline := (sgl * (1 <<< nb)) % (1 <<< al)
    .ok (sortByKey (·.baseline) (encAssign al dbl nb byIndex 0 baseline)).toArray

def encFinishAll (al : Nat) : List (Int × Nat) → Array SymbolStates → Except Fault (Array SymbolStates)
  | [], st => .ok st
  | (p, s) :: rest, st =>
    if p ≤ 0 then encFinishAll al rest st
    else
      match st[s]? with
      | none => .error (.index "fse_encoder.rs:369:build_table_from_probabilities")
      | some ss =>
        match encFinishSymbol al p.toNat ss.states with
        | .error f => .error f
        | .ok sts => encFinishAll al rest (st.set! s { ss with states := sts })

/-- `build_table_from_probabilities(probs, acc_log)` -/
def buildTableFromProbabilities (probs : List Int) (al : Nat) : Except Fault ETable :=
  if al ≥ 64 then .error (.overflow "fse_encoder.rs:320:build_table_from_probabilities")
  else
    let size := 1 <<< al
    let st0 : Array SymbolStates := Array.replicate 256 {}
    match encPlaceNegatives al probs.zipIdx st0 (size - 1) with
    | .error f => .error f
    | .ok (st1, neg) =>
      match encSpreadAll size neg probs.zipIdx st1 0 with
      | .error f => .error f
      | .ok (st2, _) =>
        match encFinishAll al probs.zipIdx st2 with
        | .error f => .error f
        | .ok st3 => .ok { states := st3, tableSize := size }

/-! ### The normaliser: `build_table_from_counts` up to the call of `build_table_from_probabilities` -/

/-- index of the LAST maximum (`Iterator::max` returns the last of several equal maxima) -/
def lastMaxIdx : List Int → Option Nat
  | [] => none
  | x :: xs =>
    match lastMaxIdx xs with
    | none => some 0
    | some j => if xs.getD j x ≥ x then some (j + 1) else some 0

/-- index of the FIRST minimum among the elements `> 1` (`Iterator::min` returns the first) -/
def firstMinGt1Idx : List Int → Option Nat
  | [] => none
  | x :: xs =>
    match firstMinGt1Idx xs with
    | none => if x > 1 then some 0 else none
    | some j => if x > 1 ∧ x ≤ xs.getD j x then some 0 else some (j + 1)

def modifyAt (l : List Int) (i : Nat) (f : Int → Int) : List Int := l.modify i f

/-- `while diff > 0 { min = first minimum > 1; decrease … }` -/
def decreaseLoop : Nat → List Int → Nat → Except Fault (List Int)
  | 0, _, _ => .error (.unreachable "fse_encoder.rs:290:build_table_from_counts:nontermination")
  | fuel + 1, probs, diff =>
    if diff = 0 then .ok probs
    else
      match firstMinGt1Idx probs with
      | none => .error (.unwrap "fse_encoder.rs:291:build_table_from_counts")
      | some i =>
        let m := (probs.getD i 0).toNat
        let decrease := min (m - 1) diff
        decreaseLoop fuel (modifyAt probs i (· - decrease)) (diff - decrease)

/-- the normalisation heuristic of `build_table_from_counts(counts, max_log, avoid_0_numbit)`:
returns the normalised probabilities and the accuracy log -/
def normalize (counts : List Nat) (maxLog : Nat) (avoid0 : Bool) : Except Fault (List Int × Nat) :=
  if counts.length > 256 then .error (.index "fse_encoder.rs:246:build_table_from_counts")
  else
    -- smallest non-zero count
    let minCount := counts.foldl (fun m c => if c > 0 ∧ (c < m ∨ m = 0) then c else m) 0
    if minCount = 0 then .error (.overflow "fse_encoder.rs:256:build_table_from_counts")
    else
      let shift : Int := (minCount - 1 : Nat)
      let probs : List Int := counts.map fun (c : Nat) => if c > 0 then ((c : Nat) : Int) - shift else (0 : Int)
      let maxProb : Int := probs.foldl (fun m p => max m p) 0
      let probs : List Int :=
        if maxProb > 0 ∧ maxProb.toNat > probs.length then
          let divisor := maxProb / (probs.length : Int)
          probs.map fun p => if p > 0 then max (p / divisor) 1 else p
        else probs
      let sumI : Int := probs.foldl (· + ·) 0
      if ¬ (sumI > 0) then .error (.assert "fse_encoder.rs:276:build_table_from_counts")
      else
        let sum := sumI.toNat
        let al := min (max (Nat.log2 sum + Gen.normLogAdd) Gen.normLogMin) maxLog
        let step1 : Except Fault (List Int) :=
          if sum < 1 <<< al then
            match lastMaxIdx probs with
            | none => .error (.unwrap "fse_encoder.rs:285:build_table_from_counts")
            | some i => .ok (modifyAt probs i (· + ((1 <<< al) - sum : Nat)))
          else decreaseLoop (probs.length + 1) probs (sum - (1 <<< al))
        match step1 with
        | .error f => .error f
        | .ok probs =>
          match lastMaxIdx probs with
          | none => .error (.unwrap "fse_encoder.rs:297:build_table_from_counts")
          | some i =>
            let mx := probs.getD i 0
            if avoid0 ∧ al = 0 then .error (.overflow "fse_encoder.rs:298:build_table_from_counts")
            else if avoid0 ∧ mx > ((1 <<< (al - 1) : Nat) : Int) then
              let half : Int := ((1 <<< (al - 1) : Nat) : Int)
              let redistribute := mx - half
              let probs := modifyAt probs i (fun _ => half)
              -- the largest value different from the (new) maximum, then its FIRST occurrence
              match (probs.filter (· ≠ half)).foldl (fun (m : Option Int) p => match m with | none => some p | some q => some (max q p)) none with
              | none => .error (.unwrap "fse_encoder.rs:304:build_table_from_counts")     -- finding F4
              | some second =>
                match probs.findIdx? (· = second) with
                | none => .error (.unwrap "fse_encoder.rs:305:build_table_from_counts")
                | some j =>
                  let probs := modifyAt probs j (· + redistribute)
                  if probs.getD j 0 > half then .error (.assert "fse_encoder.rs:307:build_table_from_counts")
                  else .ok (probs, al)
            else .ok (probs, al)

/-- `build_table_from_counts` -/
def buildTableFromCounts (counts : List Nat) (maxLog : Nat) (avoid0 : Bool) : Except Fault ETable :=
  match normalize counts maxLog avoid0 with
  | .error f => .error f
  | .ok (probs, al) => buildTableFromProbabilities probs al

/-- histogram of `build_table_from_data`: `counts[..=max_symbol]` -/
def histogram (data : List Nat) : List Nat :=
  let counts := data.foldl (fun (c : Array Nat) x => c.modify x (· + 1)) (Array.replicate 256 0)
  let maxSymbol := (List.range 256).foldl (fun m i => if counts.getD i 0 > 0 then i else m) 0
  (counts.extract 0 (max maxSymbol 1 + 1)).toList   -- `counts[..=max_symbol.max(1)]` (fix of finding F4)

/-- `build_table_from_data(data, max_log, avoid_0_numbit)` -/
def buildTableFromData (data : List Nat) (maxLog : Nat) (avoid0 : Bool) : Except Fault ETable :=
  buildTableFromCounts (histogram data) maxLog avoid0

def defaultLlTable : Except Fault ETable := buildTableFromProbabilities Gen.llDistEnc Gen.llDefaultLogEnc
def defaultMlTable : Except Fault ETable := buildTableFromProbabilities Gen.mlDistEnc Gen.mlDefaultLogEnc
def defaultOfTable : Except Fault ETable := buildTableFromProbabilities Gen.ofDistEnc Gen.ofDefaultLogEnc

/-! ### Using an encoder table -/

def EState.contains (s : EState) (idx : Nat) : Bool := s.baseline ≤ idx ∧ s.lastIndex ≥ idx

/-- `SymbolStates::get(idx, max_idx)`: linear search from `idx * len / max_idx` -/
def SymbolStates.get (ss : SymbolStates) (idx maxIdx : Nat) : Except Fault EState :=
  if maxIdx = 0 then .error (.divZero "fse_encoder.rs:200:get")
  else
    let start := idx * ss.states.size / maxIdx
    if start > ss.states.size then .error (.index "fse_encoder.rs:201:get")
    else
      match (ss.states.toList.drop start).find? (·.contains idx) with
      | none => .error (.unwrap "fse_encoder.rs:204:get")
      | some s => .ok s

def ETable.nextState (t : ETable) (symbol idx : Nat) : Except Fault EState :=
  match t.states[symbol]? with
  | none => .error (.index "fse_encoder.rs:134:next_state")
  | some ss => ss.get idx t.tableSize

def ETable.startState (t : ETable) (symbol : Nat) : Except Fault EState :=
  match t.states[symbol]? with
  | none => .error (.index "fse_encoder.rs:139:start_state")
  | some ss =>
    match ss.states[0]? with
    | none => .error (.index "fse_encoder.rs:140:start_state")
    | some s => .ok s

def ETable.accLog (t : ETable) : Except Fault Nat :=
  if t.tableSize = 0 then .error (.assert "fse_encoder.rs:144:acc_log:ilog2") else .ok (Nat.log2 t.tableSize)

def ETable.prob (t : ETable) (i : Nat) : Except Fault Int :=
  match t.states[i]? with
  | none => .error (.index "fse_encoder.rs:159:write_table")
  | some ss => .ok ss.probability

/-- `while self.states[prob_idx].probability == 0 { … }` of `write_table` -/
def writeZeroRun (t : ETable) : Nat → BitWriter → Nat → Nat → Except Fault (BitWriter × Nat)
  | 0, _, _, _ => .error (.unreachable "fse_encoder.rs:176:write_table:nontermination")
  | fuel + 1, w, probIdx, zeros =>
    match t.prob probIdx with
    | .error f => .error f
    | .ok p =>
      if p = 0 then
        if zeros + 1 = 3 then
          match w.writeBits 3 2 with
          | .error f => .error f
          | .ok w => writeZeroRun t fuel w (probIdx + 1) 0
        else writeZeroRun t fuel w (probIdx + 1) (zeros + 1)
      else
        match w.writeBits zeros 2 with
        | .error f => .error f
        | .ok w => .ok (w, probIdx)

/-- the `while probability_counter < probability_sum` loop of `write_table` -/
def writeProbLoop (t : ETable) (sum : Nat) : Nat → BitWriter → Nat → Nat → Except Fault BitWriter
  | 0, _, _, _ => .error (.unreachable "fse_encoder.rs:153:write_table:nontermination")
  | fuel + 1, w, counter, probIdx =>
    if ¬ (counter < sum) then .ok w
    else
      let maxRemaining := sum - counter + 1
      let bitsToWrite := Nat.log2 maxRemaining + 1
      let lowThreshold := (1 <<< bitsToWrite) - 1 - maxRemaining
      let mask := (1 <<< (bitsToWrite - 1)) - 1
      match t.prob probIdx with
      | .error f => .error f
      | .ok prob =>
        let value := asU32 (prob + 1)
        let wr : Except Fault BitWriter :=
          if value < lowThreshold then w.writeBits value (bitsToWrite - 1)
          else if value > mask then
            if value + lowThreshold ≥ 2 ^ 32 then .error (.overflow "fse_encoder.rs:165:write_table")
            else w.writeBits (value + lowThreshold) bitsToWrite
          else w.writeBits value bitsToWrite
        match wr with
        | .error f => .error f
        | .ok w =>
          if prob = -1 then writeProbLoop t sum fuel w (counter + 1) (probIdx + 1)
          else if prob > 0 then writeProbLoop t sum fuel w (counter + prob.toNat) (probIdx + 1)
          else
            match writeZeroRun t 257 w (probIdx + 1) 0 with
            | .error f => .error f
            | .ok (w, probIdx) => writeProbLoop t sum fuel w counter probIdx

/-- `FSETable::write_table(&self, writer)` -/
def ETable.writeTable (t : ETable) (w : BitWriter) : Except Fault BitWriter :=
  match t.accLog with
  | .error f => .error f
  | .ok al =>
    if al < 5 then .error (.overflow "fse_encoder.rs:148:write_table")
    else
      match w.writeBits (al - 5) 4 with
      | .error f => .error f
      | .ok w =>
        match writeProbLoop t (1 <<< al) 258 w 0 0 with
        | .error f => .error f
        | .ok w => w.writeBits 0 w.misaligned

/-- one encoder step: `next = next_state(x, state.index); write(state.index - next.baseline, next.num_bits)` -/
def encStep (t : ETable) (w : BitWriter) (state : EState) (x : Nat) : Except Fault (BitWriter × EState) :=
  match t.nextState x state.index with
  | .error f => .error f
  | .ok next =>
    if state.index < next.baseline then .error (.overflow "fse_encoder.rs:32:encode")
    else
      match w.writeBits (state.index - next.baseline) next.numBits with
      | .error f => .error f
      | .ok w => .ok (w, next)

/-- the common tail of both encoders: `1` then padding up to the byte boundary -/
def writeEndMark (w : BitWriter) : Except Fault BitWriter :=
  if w.misaligned = 0 then w.writeBits 1 8 else w.writeBits 1 w.misaligned

def encLoop (t : ETable) : List Nat → BitWriter → EState → Except Fault (BitWriter × EState)
  | [], w, st => .ok (w, st)
  | x :: xs, w, st =>
    match encStep t w st x with
    | .error f => .error f
    | .ok (w, st) => encLoop t xs w st

/-- the stream part of `FSEEncoder::encode` (after `write_table`) -/
def encodeStream (t : ETable) (w : BitWriter) (data : List Nat) : Except Fault BitWriter :=
  match data.getLast? with
  | none => .error (.overflow "fse_encoder.rs:29:encode")
  | some last =>
    match t.startState last, t.accLog with
    | .ok st, .ok al =>
      match encLoop t data.dropLast.reverse w st with
      | .error f => .error f
      | .ok (w, st) =>
        match w.writeBits st.index al with
        | .error f => .error f
        | .ok w => writeEndMark w
    | .error f, _ => .error f
    | _, .error f => .error f

/-- `FSEEncoder::encode(data)`: table description, stream, end mark -/
def encode (t : ETable) (w : BitWriter) (data : List Nat) : Except Fault BitWriter :=
  match t.writeTable w with
  | .error f => .error f
  | .ok w => encodeStream t w data

/-- the `loop { state_1 ← data[idx+1]; state_2 ← data[idx]; if idx < 2 break; idx -= 2 }` -/
def encInterLoop (t : ETable) (data : Array Nat) : Nat → Nat → BitWriter → EState → EState → Except Fault (BitWriter × EState × EState × Nat)
  | 0, _, _, _, _ => .error (.unreachable "fse_encoder.rs:62:encode_interleaved:nontermination")
  | fuel + 1, idx, w, s1, s2 =>
    match data[idx + 1]?, data[idx]? with
    | some x1, some x0 =>
      match encStep t w s1 x1 with
      | .error f => .error f
      | .ok (w, s1) =>
        match encStep t w s2 x0 with
        | .error f => .error f
        | .ok (w, s2) =>
          if idx < 2 then .ok (w, s1, s2, idx) else encInterLoop t data fuel (idx - 2) w s1 s2
    | _, _ => .error (.index "fse_encoder.rs:65:encode_interleaved")

/-- the stream part of `FSEEncoder::encode_interleaved` (after `write_table`) -/
def encodeInterleavedStream (t : ETable) (w : BitWriter) (data : List Nat) : Except Fault BitWriter :=
  let n := data.length
  if n < 4 then .error (.overflow "fse_encoder.rs:61:encode_interleaved")   -- `data.len() - 4` (or `- 1`, `- 2`)
  else
    let arr := data.toArray
    match t.startState (arr.getD (n - 1) 0), t.startState (arr.getD (n - 2) 0), t.accLog with
    | .ok s1, .ok s2, .ok al =>
      match encInterLoop t arr (n / 2 + 1) (n - 4) w s1 s2 with
      | .error f => .error f
      | .ok (w, s1, s2, idx) =>
        if idx = 1 then
          match encStep t w s1 (arr.getD 0 0) with
          | .error f => .error f
          | .ok (w, s1) =>
            match w.writeBits s2.index al with
            | .error f => .error f
            | .ok w =>
              match w.writeBits s1.index al with
              | .error f => .error f
              | .ok w => writeEndMark w
        else
          match w.writeBits s1.index al with
          | .error f => .error f
          | .ok w =>
            match w.writeBits s2.index al with
            | .error f => .error f
            | .ok w => writeEndMark w
    | .error f, _, _ => .error f
    | _, .error f, _ => .error f
    | _, _, .error f => .error f

/-- `FSEEncoder::encode_interleaved(data)` -/
def encodeInterleaved (t : ETable) (w : BitWriter) (data : List Nat) : Except Fault BitWriter :=
  match t.writeTable w with
  | .error f => .error f
  | .ok w => encodeInterleavedStream t w data

/-! ## The decode loops that consume these streams -/

/-- skip the zero padding and the end mark: up to 8 single-bit reads
(`sequence_section_decoder.rs:30-41`, `huff0_decoder.rs:189-200`, `fse/mod.rs:489-500`).
`none` = more than 7 zero bits (`ExtraPadding`). -/
def skipPadding : Nat → Nat → BitReaderRev → Except Fault (Option BitReaderRev)
  | 0, _, _ => .ok none
  | fuel + 1, skipped, br =>
    match br.getBits 1 with
    | .error f => .error f
    | .ok (v, br) =>
      -- `skipped_bits += 1; if val == 1 || skipped_bits > 8 { break }`, then `if skipped_bits > 8 { Err(ExtraPadding) }`:
      -- a `1` found only by the ninth read is still an error
      if v = 1 ∨ skipped + 1 > 8 then (if skipped + 1 > 8 then .ok none else .ok (some br))
      else skipPadding fuel (skipped + 1) br

def skipEndMark (br : BitReaderRev) : Except Fault (Option BitReaderRev) := skipPadding 9 0 br

/-- single-state decoding of `n` symbols: `init_state`, then `decode_symbol` / `update_state`
(no update after the last symbol) — the loop of `fse/mod.rs round_trip` -/
def decodeLoop (t : DTable) : Nat → Decoder → BitReaderRev → List Nat → Except Err (List Nat × BitReaderRev)
  | 0, _, br, acc => .ok (acc.reverse, br)
  | n + 1, d, br, acc =>
    let acc := d.decodeSymbol :: acc
    if n = 0 then .ok (acc.reverse, br)
    else
      match d.updateState t br with
      | .error e => .error e
      | .ok (d, br) => decodeLoop t n d br acc

def decodeStream (t : DTable) (n : Nat) (br : BitReaderRev) : Except Err (List Nat × BitReaderRev) :=
  match (Decoder.new t).initState t br with
  | .error e => .error e
  | .ok (d, br) => decodeLoop t n d br []

/-- the two-state loop of `huff0_decoder.rs:208-234`; `tooMany` = `TooManyWeights` -/
def decodeInterLoop (t : DTable) : Nat → Decoder → Decoder → BitReaderRev → List Nat → Except Err (Option (List Nat) × BitReaderRev)
  | 0, _, _, br, _ => .ok (none, br)
  | fuel + 1, d1, d2, br, acc =>
    let acc := d1.decodeSymbol :: acc
    match d1.updateState t br with
    | .error e => .error e
    | .ok (d1, br) =>
      if br.bitsRemaining ≤ -1 then .ok (some ((d2.decodeSymbol :: acc).reverse), br)
      else
        let acc := d2.decodeSymbol :: acc
        match d2.updateState t br with
        | .error e => .error e
        | .ok (d2, br) =>
          if br.bitsRemaining ≤ -1 then .ok (some ((d1.decodeSymbol :: acc).reverse), br)
          else if acc.length > 255 then .ok (none, br)
          else decodeInterLoop t fuel d1 d2 br acc

/-- `dec1.init_state; dec2.init_state; loop …` — `none` = `TooManyWeights` -/
def decodeInterleavedStream (t : DTable) (br : BitReaderRev) : Except Err (Option (List Nat) × BitReaderRev) :=
  match (Decoder.new t).initState t br with
  | .error e => .error e
  | .ok (d1, br) =>
    match (Decoder.new t).initState t br with
    | .error e => .error e
    | .ok (d2, br) => decodeInterLoop t 130 d1 d2 br []

end Zstd.Model.Fse
