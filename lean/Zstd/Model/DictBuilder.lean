import Zstd.Basic
import Zstd.Gen.DictBuilder
/-
C20 — model of `dictionary::create_raw_dict_from_source` (`ruzstd/src/dictionary/{mod,cover,reservoir}.rs`)
over LENGTHS: what is read, how big the sample is, how many segments of which size enter the pool,
how many bytes are written.  Contents, the scoring (`estimate_frequency`, the k-mer `HashMap`) and the
heap order are abstract: the chunk of the sample that `pick_best_segment` returns in epoch `e` is
`pick e` (arbitrary), the element that `BinaryHeap::peek/pop` yields is chosen by `heap` (arbitrary),
`fastrand` is the script `rng` (arbitrary).  The source is a byte count plus a script of chunk
limits (a reader may return fewer bytes than asked for, never 0 before its end).

Every constant and the presence of each guard come from the source text (`Zstd.Gen.DictBuilder`).
-/
namespace Zstd.Model.DictBuilder
open Zstd

structure Cfg where
  smallLimit : Nat
  smallPathTakesDictSize : Bool
  smallPathTruncates : Bool
  bufCap : Nat
  maxSegment : Nat
  segmentTruncatesU32 : Bool
  minSample : Nat
  sampleDivCap : Nat
  epochBuf : Nat
  emptySampleReturns : Bool
  poolTrimmed : Bool
  writeSkipsExcess : Bool
  kmer : Nat
  minEpochSize : Nat
  emptyLakeReturns : Bool
  reservoirMin : Nat
  deriving Repr, DecidableEq

def srcCfg : Cfg where
  smallLimit := Gen.DictBuilder.smallLimit
  smallPathTakesDictSize := Gen.DictBuilder.smallPathTakesDictSize
  smallPathTruncates := Gen.DictBuilder.smallPathTruncates
  bufCap := Gen.DictBuilder.bufCap
  maxSegment := Gen.DictBuilder.maxSegment
  segmentTruncatesU32 := Gen.DictBuilder.segmentTruncatesU32
  minSample := Gen.DictBuilder.minSample
  sampleDivCap := Gen.DictBuilder.sampleDivCap
  epochBuf := Gen.DictBuilder.epochBuf
  emptySampleReturns := Gen.DictBuilder.emptySampleReturns
  poolTrimmed := Gen.DictBuilder.poolTrimmed
  writeSkipsExcess := Gen.DictBuilder.writeSkipsExcess
  kmer := Gen.DictBuilder.kmer
  minEpochSize := Gen.DictBuilder.minEpochSize
  emptyLakeReturns := Gen.DictBuilder.emptyLakeReturns
  reservoirMin := Gen.DictBuilder.reservoirMin

inductive Err where
  | fault (f : Fault)
  | outOfFuel (loop : String)
  deriving Repr, DecidableEq

/-! ### the source and the `BufReader` around it -/

/-- the caller's reader: `remaining` bytes; each `read` is limited by the next script element
(at least one byte is delivered while there is data and room) -/
structure Src where
  remaining : Nat
  script : List Nat
  deriving Repr, DecidableEq

def Src.read (s : Src) (req : Nat) : Nat × Src :=
  match s.script with
  | [] => (min req s.remaining, { s with remaining := s.remaining - min req s.remaining })
  | k :: rest =>
    let n := min req (min s.remaining (max k 1))
    (n, { remaining := s.remaining - n, script := rest })

/-- `std::io::BufReader`: bytes waiting in its buffer + the inner reader -/
structure Buf where
  buffered : Nat
  inner : Src
  deriving Repr, DecidableEq

def Buf.avail (b : Buf) : Nat := b.buffered + b.inner.remaining

/-- `BufReader::read`: an empty buffer and a request of at least the capacity go straight to the inner
reader; otherwise an empty buffer is refilled by ONE inner read and the request is served from it -/
def Buf.read (cap : Nat) (b : Buf) (req : Nat) : Nat × Buf :=
  if b.buffered = 0 ∧ req ≥ cap then
    let (n, s) := b.inner.read req
    (n, { b with inner := s })
  else
    let b' : Buf := if b.buffered = 0 then (let (n, s) := b.inner.read cap; { buffered := n, inner := s }) else b
    (min req b'.buffered, { b' with buffered := b'.buffered - min req b'.buffered })

/-! ### parameters (`mod.rs:145-167`, `cover.rs:117-132`) -/

structure Params where
  seg : Nat          -- params.segment_size
  numSegments : Nat
  sampleSize : Nat
  epochSize : Nat
  deriving Repr, DecidableEq

def checkedDiv (site : String) (a b : Nat) : Except Err Nat :=
  if b = 0 then .error (.fault (.divZero site)) else .ok (a / b)

def params (c : Cfg) (sourceSize dictSize : Nat) : Except Err Params := do
  let seg := if c.segmentTruncatesU32 then min c.maxSegment (sourceSize % 2 ^ 32) else min c.maxSegment sourceSize % 2 ^ 32
  let numSegments ← checkedDiv "dictionary/mod.rs:num_segments" sourceSize seg
  let q ← checkedDiv "dictionary/mod.rs:sample_size:inner" sourceSize (2 * numSegments)
  let s ← checkedDiv "dictionary/mod.rs:sample_size:outer" sourceSize (min q c.sampleDivCap)
  let sampleSize := max c.minSample s
  -- compute_epoch_info(&params, dict_size, source_size / K)
  let numKmers ← checkedDiv "dictionary/mod.rs:source_size/K" sourceSize c.kmer
  let d ← checkedDiv "dictionary/cover.rs:max_dict_size/segment_size" dictSize seg
  let numEpochs := max 1 d
  let e0 ← checkedDiv "dictionary/cover.rs:num_kmers/num_epochs" numKmers numEpochs
  let epochSize ←
    if e0 ≥ c.minEpochSize then
      (if e0 * numEpochs ≤ numKmers then pure e0 else .error (.fault (.assert "dictionary/cover.rs:epoch_size*num_epochs<=num_kmers")))
    else do
      let e := min c.minEpochSize numKmers
      let _ ← checkedDiv "dictionary/cover.rs:num_kmers/epoch_size" numKmers e
      pure e
  let _ ← checkedDiv "dictionary/mod.rs:num_epochs" sourceSize epochSize
  let _ ← checkedDiv "dictionary/mod.rs:epoch_size/K" epochSize c.kmer
  pure { seg, numSegments, sampleSize, epochSize }

/-! ### `Reservoir::fill` (`reservoir.rs:32-100`) -/

/-- the initial fill: `while let Ok(n) = source.read(self.lake.as_mut_slice())` — every read targets the
WHOLE lake, `total` accumulates; stop when `total == lake.len()`; on a zero read resize the lake to `total` -/
def fillLoop (cap : Nat) : Nat → Buf → Nat → Nat → Except Err (Buf × Nat)
  | 0, _, _, _ => .error (.outOfFuel "reservoir.rs:fill:initial")
  | fuel + 1, b, lake, total =>
    let (n, b') := b.read cap lake
    if total + n = lake then .ok (b', lake)
    else if n = 0 then fillLoop cap fuel b' (total + n) (total + n)
    else fillLoop cap fuel b' lake (total + n)

/-- length of chunk `i` of `len` bytes cut into pieces of `k` (`chunks(k)`) -/
def chunkLen (len k i : Nat) : Nat := min k (len - k * i)

def numChunks (len k : Nat) : Nat := (len + k - 1) / k

/-- the sampling loop (Algorithm L).  `rng` yields (chunk index, skip) pairs.  With a non-empty lake and
`K ≥ 2` the very first iteration takes the `else` branch — a read into the EMPTY `dumpster`, which
returns 0 — and the loop ends (theorem `sampling_is_inert`). -/
def sampleLoop (c : Cfg) : Nat → Buf → Nat → Nat → Nat → Nat → List (Nat × Nat) → Except Err Buf
  | 0, _, _, _, _, _, _ => .error (.outOfFuel "reservoir.rs:fill:sampling")
  | fuel + 1, b, counter, next, endOfLake, lake, rng =>
    if counter = next then
      if endOfLake = 0 then .error (.fault (.assert "fastrand::usize(0..0):reservoir.rs:lake_chunks[..]"))
      else
        let (i, skip) := rng.headD (0, 0)
        let (n, b') := b.read c.bufCap (chunkLen lake c.kmer (i % endOfLake))
        if n = 0 then .ok b' else sampleLoop c fuel b' (counter + c.kmer) (next + (skip + 1) * c.kmer) endOfLake lake rng.tail
    else
      let (n, b') := b.read c.bufCap 0
      if n = 0 then .ok b' else sampleLoop c fuel b' (counter + c.kmer) next endOfLake lake rng

/-- `create_sample`: (reader afterwards, length of the sample) -/
def createSample (c : Cfg) (fuel : Nat) (b : Buf) (size : Nat) (rng : List (Nat × Nat)) : Except Err (Buf × Nat) := do
  if size < c.reservoirMin then .error (.fault (.assert "reservoir.rs:Reservoir::new:size>=16")) else
  let (b1, lake) ← fillLoop c.bufCap fuel b size 0
  if c.emptyLakeReturns && lake = 0 then pure (b1, 0) else
  if c.kmer = 0 then .error (.fault (.assert "reservoir.rs:chunks_mut(0)")) else
  let endOfLake := numChunks lake c.kmer
  let b2 ← sampleLoop c fuel b1 (endOfLake / c.kmer) lake endOfLake lake rng
  pure (b2, lake)

/-! ### the epoch loop and the pool (`mod.rs:164-201`) -/

/-- remove element `i` -/
def removeAt : List Nat → Nat → List Nat
  | [], _ => []
  | _ :: xs, 0 => xs
  | x :: xs, i + 1 => x :: removeAt xs i

/-- `while let Some(Reverse(lowest)) = pool.peek() { if pool_size - len < dict_size {break}; pool_size -= len; pool.pop() }`;
which element is "lowest" is decided by `heap` -/
def trim : Nat → List Nat → Nat → Nat → List Nat → Except Err (List Nat × Nat × List Nat)
  | 0, _, _, _, _ => .error (.outOfFuel "mod.rs:trim")
  | fuel + 1, pool, poolSize, dict, heap =>
    match pool with
    | [] => .ok ([], poolSize, heap)
    | p :: ps =>
      let i := heap.headD 0 % (p :: ps).length
      let len := (p :: ps).getD i 0
      if poolSize < len then .error (.fault (.overflow "mod.rs:pool_size-lowest_len"))
      else if poolSize - len < dict then .ok (p :: ps, poolSize, heap)
      else trim fuel (removeAt (p :: ps) i) (poolSize - len) dict heap.tail

structure Pool where
  segs : List Nat := []
  size : Nat := 0       -- the `pool_size` counter (only maintained by the repaired code)
  deriving Repr, DecidableEq

/-- `while buffered_source.read(&mut current_epoch) != 0 { pool.push(pick_best_segment(..)); <trim> }` -/
def epochLoop (c : Cfg) (seg sample dict : Nat) (pick : Nat → Nat) : Nat → Nat → Buf → Pool → List Nat → Except Err Pool
  | 0, _, _, _, _ => .error (.outOfFuel "mod.rs:epochs")
  | fuel + 1, e, b, pool, heap =>
    let (n, b') := b.read c.bufCap c.epochBuf
    if n = 0 then .ok pool
    else if seg = 0 then .error (.fault (.assert "cover.rs:chunks(0)"))
    else if sample = 0 then .error (.fault (.unwrap "cover.rs:pick_best_segment:at least one segment"))
    else
      let len := chunkLen sample seg (pick e % numChunks sample seg)
      let pushed : Pool := { segs := len :: pool.segs, size := pool.size + len }
      if c.poolTrimmed then
        match trim (pushed.segs.length + 1) pushed.segs pushed.size dict heap with
        | .error err => .error err
        | .ok (segs, size, heap') => epochLoop c seg sample dict pick fuel (e + 1) b' { segs, size } heap'
      else epochLoop c seg sample dict pick fuel (e + 1) b' pushed heap

/-- the write-out: `excess = pool_size.saturating_sub(dict_size)` bytes are skipped at the front -/
def writeOut : List Nat → Nat → Nat
  | [], _ => 0
  | len :: rest, excess => (len - min excess len) + writeOut rest (excess - min excess len)

structure Result where
  written : Nat      -- bytes handed to `output.write_all`
  sample : Nat
  segments : Nat     -- segments in the pool at the end
  poolBytes : Nat := 0   -- their total length
  deriving Repr, DecidableEq

/-- fuel that suffices for every loop (theorem `builder_terminates`) -/
def fuelFor (src : Src) : Nat := 2 * src.remaining + 4

/-- `create_raw_dict_from_source(source, source_size, output, dict_size)` -/
def run (c : Cfg) (fuel : Nat) (src : Src) (sourceSize dictSize : Nat)
    (rng : List (Nat × Nat)) (pick : Nat → Nat) (heap : List Nat) : Except Err Result := do
  if sourceSize < c.smallLimit then
    -- read_to_end (through `take(dict_size)` once repaired), write_all
    let got := if c.smallPathTakesDictSize then min src.remaining dictSize else src.remaining
    let out := if c.smallPathTruncates then min got dictSize else got
    pure { written := out, sample := 0, segments := 0 }
  else
    let p ← params c sourceSize dictSize
    let (b, sample) ← createSample c fuel ⟨0, src⟩ p.sampleSize rng
    if c.emptySampleReturns && sample = 0 then pure { written := 0, sample := 0, segments := 0 } else
    let pool ← epochLoop c p.seg sample dictSize pick fuel 0 b {} heap
    let excess := if c.writeSkipsExcess then pool.size - dictSize else 0
    pure { written := writeOut pool.segs excess, sample, segments := pool.segs.length, poolBytes := pool.segs.sum }

end Zstd.Model.DictBuilder
