/-
Shared vocabulary of the Spec and the Model.  Nothing here imports anything outside core,
so the driver links as a `lean_exe`.
-/
namespace Zstd

/-- A byte is a `Nat` below 256; model code keeps the bound explicit where it matters. -/
abbrev Byte := Nat

/-- Every Rust panic site that the model can reach is one of these, carrying a site name
(`file:function[:detail]`).  A model function returns `.fault` exactly where the Rust code
would panic (index out of bounds, `unwrap` on `None`, `unreachable!`, assertion, arithmetic
overflow in a debug build, division by zero) or perform an invalid raw memory access. -/
inductive Fault where
  | unreachable (site : String)
  | index (site : String)
  | unwrap (site : String)
  | assert (site : String)
  | overflow (site : String)
  | divZero (site : String)
  | oob (site : String)
  | uninit (site : String)
  | unimplemented (site : String)
  deriving Repr, DecidableEq

def Fault.render : Fault → String
  | .unreachable s => "fault unreachable " ++ s
  | .index s => "fault index " ++ s
  | .unwrap s => "fault unwrap " ++ s
  | .assert s => "fault assert " ++ s
  | .overflow s => "fault overflow " ++ s
  | .divZero s => "fault divzero " ++ s
  | .oob s => "fault oob " ++ s
  | .uninit s => "fault uninit " ++ s
  | .unimplemented s => "fault unimplemented " ++ s

instance {ε α} [DecidableEq ε] [DecidableEq α] : DecidableEq (Except ε α) := fun a b =>
  match a, b with
  | .ok x, .ok y => if h : x = y then isTrue (by rw [h]) else isFalse (by intro h'; cases h'; exact h rfl)
  | .error x, .error y => if h : x = y then isTrue (by rw [h]) else isFalse (by intro h'; cases h'; exact h rfl)
  | .ok _, .error _ => isFalse (by intro h; cases h)
  | .error _, .ok _ => isFalse (by intro h; cases h)

/-- Little-endian value of a byte list. -/
def leNat : List Nat → Nat
  | [] => 0
  | b :: bs => b + 256 * leNat bs

/-- `n` little-endian bytes of `v` (truncating, like `to_le_bytes()[0..n]`). -/
def leBytes : Nat → Nat → List Nat
  | 0, _ => []
  | n + 1, v => (v % 256) :: leBytes n (v / 256)

@[simp] theorem leBytes_length (n v : Nat) : (leBytes n v).length = n := by
  induction n generalizing v with
  | zero => rfl
  | succ n ih => simp [leBytes, ih]

theorem leNat_leBytes (n v : Nat) : leNat (leBytes n v) = v % 256 ^ n := by
  induction n generalizing v with
  | zero => simp [leBytes, leNat, Nat.mod_one]
  | succ n ih =>
    simp only [leBytes, leNat, ih]
    rw [Nat.pow_succ, Nat.mul_comm (256 ^ n) 256, Nat.mod_mul]

theorem leBytes_lt (n v : Nat) : ∀ b ∈ leBytes n v, b < 256 := by
  induction n generalizing v with
  | zero => simp [leBytes]
  | succ n ih =>
    intro b hb
    simp only [leBytes, List.mem_cons] at hb
    rcases hb with h | h
    · omega
    · exact ih _ b h

def hexDigit (n : Nat) : Char :=
  if n < 10 then Char.ofNat (48 + n) else Char.ofNat (87 + n)

def hexByte (b : Nat) : String :=
  String.ofList [hexDigit (b / 16 % 16), hexDigit (b % 16)]

def hexOfBytes (bs : List Nat) : String :=
  String.join (bs.map hexByte)

def hexVal (c : Char) : Option Nat :=
  if '0' ≤ c ∧ c ≤ '9' then some (c.toNat - 48)
  else if 'a' ≤ c ∧ c ≤ 'f' then some (c.toNat - 87)
  else if 'A' ≤ c ∧ c ≤ 'F' then some (c.toNat - 55)
  else none

def bytesOfHexChars : List Char → Option (List Nat)
  | [] => some []
  | [_] => none
  | a :: b :: rest =>
    match hexVal a, hexVal b, bytesOfHexChars rest with
    | some x, some y, some r => some ((16 * x + y) :: r)
    | _, _, _ => none

/-- Parse lower/upper-case hex; `-` denotes the empty string. -/
def bytesOfHex (s : String) : Option (List Nat) :=
  if s == "-" then some [] else bytesOfHexChars s.toList

end Zstd
