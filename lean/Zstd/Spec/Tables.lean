/-
RFC 8878 tables, typed in BY HAND from the RFC text (not from the source code):
  §3.1.1.3.2.1.1  literals-length codes, match-length codes, offset codes
  §3.1.1.3.2.2    default distributions
  §3.1.1.5        repeat offsets
This file is the reference the extracted tables (`Zstd.Gen.*`) are proved equal to.
-/
namespace Zstd.Spec

/-- Literals_Length_Code ↦ (Baseline, Number_of_Bits); index = code 0..35 -/
def llCodeTable : List (Nat × Nat) :=
  [(0,0),(1,0),(2,0),(3,0),(4,0),(5,0),(6,0),(7,0),(8,0),(9,0),(10,0),(11,0),(12,0),(13,0),(14,0),(15,0),
   (16,1),(18,1),(20,1),(22,1),(24,2),(28,2),(32,3),(40,3),(48,4),(64,6),(128,7),(256,8),(512,9),
   (1024,10),(2048,11),(4096,12),(8192,13),(16384,14),(32768,15),(65536,16)]

/-- Match_Length_Code ↦ (Baseline, Number_of_Bits); index = code 0..52 -/
def mlCodeTable : List (Nat × Nat) :=
  [(3,0),(4,0),(5,0),(6,0),(7,0),(8,0),(9,0),(10,0),(11,0),(12,0),(13,0),(14,0),(15,0),(16,0),(17,0),(18,0),
   (19,0),(20,0),(21,0),(22,0),(23,0),(24,0),(25,0),(26,0),(27,0),(28,0),(29,0),(30,0),(31,0),(32,0),(33,0),(34,0),
   (35,1),(37,1),(39,1),(41,1),(43,2),(47,2),(51,3),(59,3),(67,4),(83,4),(99,5),(131,7),(259,8),(515,9),
   (1027,10),(2051,11),(4099,12),(8195,13),(16387,14),(32771,15),(65539,16)]

/-- Offset_Value = (1 << Offset_Code) + readNBits(Offset_Code) -/
def offsetValue (code extra : Nat) : Nat := 2 ^ code + extra

/-- §3.1.1.3.2.2.1 default distribution for literals-length codes, accuracy log 6 -/
def llDefaultDist : List Int :=
  [4, 3, 2, 2, 2, 2, 2, 2, 2, 2, 2, 2, 2, 1, 1, 1,
   2, 2, 2, 2, 2, 2, 2, 2, 2, 3, 2, 1, 1, 1, 1, 1,
   -1,-1,-1,-1]
def llDefaultLog : Nat := 6

/-- §3.1.1.3.2.2.2 default distribution for match-length codes, accuracy log 6 -/
def mlDefaultDist : List Int :=
  [1, 4, 3, 2, 2, 2, 2, 2, 2, 1, 1, 1, 1, 1, 1, 1,
   1, 1, 1, 1, 1, 1, 1, 1, 1, 1, 1, 1, 1, 1, 1, 1,
   1, 1, 1, 1, 1, 1, 1, 1, 1, 1, 1, 1, 1, 1,-1,-1,
   -1,-1,-1,-1,-1]
def mlDefaultLog : Nat := 6

/-- §3.1.1.3.2.2.3 default distribution for offset codes, accuracy log 5 -/
def ofDefaultDist : List Int :=
  [1, 1, 1, 1, 1, 1, 2, 2, 2, 1, 1, 1, 1, 1, 1, 1,
   1, 1, 1, 1, 1, 1, 1, 1,-1,-1,-1,-1,-1]
def ofDefaultLog : Nat := 5

/-- Repeat-offset history `(Repeated_Offset1, 2, 3)`. -/
structure OffHist where
  r1 : Nat
  r2 : Nat
  r3 : Nat
  deriving Repr, DecidableEq

/-- §3.1.1.5: resolve an `Offset_Value` against the history and update the history.
`llZero` says whether the sequence's literals length is 0.  Returns (actual offset, new history).
An `Offset_Value` of 3 with `llZero` means `Repeated_Offset1 - 1`; the RFC declares the result 0
corrupt, which the caller must reject (truncated subtraction models that: the result is 0). -/
def repeatOffsets (ov : Nat) (llZero : Bool) (h : OffHist) : Nat × OffHist :=
  if ov > 3 then
    (ov - 3, ⟨ov - 3, h.r1, h.r2⟩)
  else if !llZero then
    if ov = 1 then (h.r1, h)
    else if ov = 2 then (h.r2, ⟨h.r2, h.r1, h.r3⟩)
    else (h.r3, ⟨h.r3, h.r1, h.r2⟩)
  else
    if ov = 1 then (h.r2, ⟨h.r2, h.r1, h.r3⟩)
    else if ov = 2 then (h.r3, ⟨h.r3, h.r1, h.r2⟩)
    else (h.r1 - 1, ⟨h.r1 - 1, h.r1, h.r2⟩)

/-- §3.1.1.3.2.1 Number_of_Sequences: returns (count, header bytes used) from the first bytes.
`none` = not enough bytes. -/
def parseSeqCount : List Nat → Option (Nat × Nat)
  | [] => none
  | b0 :: rest =>
    if b0 = 0 then some (0, 1)
    else if b0 < 128 then some (b0, 1)
    else if b0 < 255 then
      match rest with
      | b1 :: _ => some ((b0 - 128) * 256 + b1, 2)
      | _ => none
    else
      match rest with
      | b1 :: b2 :: _ => some (b1 + b2 * 256 + 0x7F00, 3)
      | _ => none

/-- §3.1.1.2 Block_Header (3 bytes little-endian): Last_Block bit 0, Block_Type bits 1-2,
Block_Size bits 3-23. -/
structure BlockHeader where
  last : Bool
  btype : Nat
  size : Nat
  deriving Repr, DecidableEq

def parseBlockHeader (b0 b1 b2 : Nat) : BlockHeader :=
  let v := b0 + 256 * b1 + 65536 * b2
  { last := v % 2 = 1, btype := v / 2 % 4, size := v / 8 }

/-- Block_Maximum_Size upper bound (128 KiB) -/
def blockMaxSize : Nat := 128 * 1024

/-- §3.1.1.1.2 Window_Descriptor: windowLog = 10 + Exponent; windowBase = 1 << windowLog;
windowAdd = (windowBase / 8) * Mantissa. -/
def windowSize (desc : Nat) : Nat :=
  let e := desc / 8
  let m := desc % 8
  let base := 2 ^ (10 + e)
  base + base / 8 * m

/-- Minimum / maximum window size the format allows (1 KiB; (1<<41) + 7*(1<<38)). -/
def windowMin : Nat := 1024
def windowMax : Nat := 2 ^ 41 + 7 * 2 ^ 38

/-- §3.1.1.1.1 Frame_Header_Descriptor fields -/
structure FrameDesc where
  fcsFlag : Nat
  singleSegment : Bool
  checksum : Bool
  dictIdFlag : Nat
  deriving Repr, DecidableEq

def parseFrameDesc (d : Nat) : FrameDesc :=
  { fcsFlag := d / 64, singleSegment := d / 32 % 2 = 1, checksum := d / 4 % 2 = 1, dictIdFlag := d % 4 }

/-- FCS_Field_Size -/
def fcsFieldSize (f : FrameDesc) : Nat :=
  match f.fcsFlag with
  | 0 => if f.singleSegment then 1 else 0
  | 1 => 2
  | 2 => 4
  | _ => 8

/-- DID_Field_Size -/
def didFieldSize (f : FrameDesc) : Nat :=
  match f.dictIdFlag with
  | 0 => 0
  | 1 => 1
  | 2 => 2
  | _ => 4

end Zstd.Spec
