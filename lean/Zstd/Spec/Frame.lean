import Zstd.Spec.Block
import Zstd.Spec.Xxh64
/-
RFC 8878 §3.1 frames, §3.1.2 skippable frames, §5 dictionaries.  Strict.
-/
namespace Zstd.Spec

def magic : Nat := 0xFD2FB528
def skipMagicLo : Nat := 0x184D2A50
def skipMagicHi : Nat := 0x184D2A5F
def dictMagic : Nat := 0xEC30A437

structure FrameHeader where
  desc : FrameDesc
  window : Nat                    -- Window_Size (= content size for single-segment frames)
  dictId : Option Nat             -- `none` when the field is absent or 0
  contentSize : Option Nat
  hdrLen : Nat                    -- including the magic number
  deriving Repr, DecidableEq

/-- §3.1.1.1 Frame_Header (after checking the magic number) -/
def parseFrameHeader (bytes : List Nat) : Option FrameHeader :=
  if bytes.length < 5 ∨ leNat (bytes.take 4) ≠ magic then none
  else
    let d := bytes.getD 4 0
    if d / 8 % 2 = 1 then none else           -- Reserved_bit must be zero
    let f := parseFrameDesc d
    let wlen := if f.singleSegment then 0 else 1
    let dlen := didFieldSize f
    let flen := fcsFieldSize f
    let total := 5 + wlen + dlen + flen
    if bytes.length < total then none
    else
      let wdesc := bytes.getD 5 0
      let did := leNat ((bytes.drop (5 + wlen)).take dlen)
      let fcsRaw := leNat ((bytes.drop (5 + wlen + dlen)).take flen)
      let fcs := if flen = 2 then fcsRaw + 256 else fcsRaw
      let window := if f.singleSegment then fcs else windowSize wdesc
      if ¬ f.singleSegment ∧ (window < windowMin ∨ window > windowMax) then none
      else some { desc := f, window := window, dictId := if dlen = 0 ∨ did = 0 then none else some did,
                  contentSize := if flen = 0 then none else some fcs, hdrLen := total }

structure Dict where
  id : Nat
  entropy : Entropy
  content : Array Nat
  deriving Repr, Inhabited

/-- blocks of a frame; `bytes` starts at a Block_Header. Returns (output, bytes consumed). -/
def decodeBlocks (window : Nat) (dict : Array Nat) :
    Nat → List Nat → Entropy → Array Nat → Nat → Option (Array Nat × Nat)
  | 0, _, _, _, _ => none
  | fuel + 1, bytes, e, out, consumed =>
    match bytes with
    | b0 :: b1 :: b2 :: body =>
      let h := parseBlockHeader b0 b1 b2
      let blockMax := min window blockMaxSize
      if h.btype = 3 then none
      else if h.btype = 0 then
        if h.size > blockMax ∨ body.length < h.size then none
        else
          let out' := out ++ (body.take h.size).toArray
          if h.last then some (out', consumed + 3 + h.size)
          else decodeBlocks window dict fuel (body.drop h.size) e out' (consumed + 3 + h.size)
      else if h.btype = 1 then
        if h.size > blockMax then none else
        match body with
        | [] => none
        | b :: rest =>
          let out' := out ++ Array.replicate h.size b
          if h.last then some (out', consumed + 4)
          else decodeBlocks window dict fuel rest e out' (consumed + 4)
      else
        if h.size > blockMaxSize ∨ body.length < h.size ∨ h.size < 2 then none
        else
          match decodeCompressedBlock window dict (body.take h.size) e out with
          | none => none
          | some (out', e') =>
            if h.last then some (out', consumed + 3 + h.size)
            else decodeBlocks window dict fuel (body.drop h.size) e' out' (consumed + 3 + h.size)
    | _ => none

structure FrameResult where
  content : List Nat
  consumed : Nat
  header : FrameHeader
  checksum : Option Nat
  deriving Repr

/-- §3.1.1 one Zstandard frame at the front of `bytes`, with the dictionaries the decoder knows -/
def decodeFrame (bytes : List Nat) (dicts : List Dict := []) : Option FrameResult :=
  match parseFrameHeader bytes with
  | none => none
  | some h =>
    let dict? : Option (Option Dict) :=
      match h.dictId with
      | none => some none
      | some id => (dicts.find? (fun d => d.id = id)).map some
    match dict? with
    | none => none                                      -- names a dictionary we were not given
    | some d =>
      let e : Entropy := match d with | some d => d.entropy | none => {}
      let dc : Array Nat := match d with | some d => d.content | none => #[]
      match decodeBlocks h.window dc (bytes.length + 1) (bytes.drop h.hdrLen) e #[] h.hdrLen with
      | none => none
      | some (out, consumed) =>
        if (match h.contentSize with | some n => decide (n ≠ out.size) | none => false) then none
        else if h.desc.checksum then
          let cs := (bytes.drop consumed).take 4
          if cs.length < 4 then none
          else if leNat cs ≠ Xxh64.checksum32 out.toList then none
          else some ⟨out.toList, consumed + 4, h, some (leNat cs)⟩
        else some ⟨out.toList, consumed, h, none⟩

/-- length of a skippable frame at the front of `bytes` -/
def skippableLength (bytes : List Nat) : Option Nat :=
  if bytes.length < 8 then none
  else
    let m := leNat (bytes.take 4)
    if m < skipMagicLo ∨ m > skipMagicHi then none
    else
      let n := leNat ((bytes.drop 4).take 4)
      if bytes.length < 8 + n then none else some (8 + n)

/-- a concatenation of frames and skippable frames: the concatenated content -/
def decodeAll (dicts : List Dict) : Nat → List Nat → List Nat → Option (List Nat)
  | 0, _, _ => none
  | fuel + 1, bytes, acc =>
    if bytes.isEmpty then some acc
    else
      match skippableLength bytes with
      | some n => decodeAll dicts fuel (bytes.drop n) acc
      | none =>
        match decodeFrame bytes dicts with
        | none => none
        | some r => if r.consumed = 0 then none else decodeAll dicts fuel (bytes.drop r.consumed) (acc ++ r.content)

/-- §5 dictionary: magic, id, entropy tables (Huffman, OF, ML, LL), three offsets, content -/
def parseDict (bytes : List Nat) : Option Dict :=
  if bytes.length < 8 ∨ leNat (bytes.take 4) ≠ dictMagic then none
  else
    let id := leNat ((bytes.drop 4).take 4)
    let rest := bytes.drop 8
    match Huffman.readTable rest with
    | none => none
    | some (huf, u0) =>
      let r1 := rest.drop u0
      match Fse.readDescription r1 8 31 with
      | none => none
      | some (ofAl, ofP, u1) =>
        let r2 := r1.drop u1
        match Fse.readDescription r2 9 52 with
        | none => none
        | some (mlAl, mlP, u2) =>
          let r3 := r2.drop u2
          match Fse.readDescription r3 9 35 with
          | none => none
          | some (llAl, llP, u3) =>
            let r4 := r3.drop u3
            if r4.length < 12 then none
            else
              match Fse.buildTable ofAl ofP, Fse.buildTable mlAl mlP, Fse.buildTable llAl llP with
              | some ofT, some mlT, some llT =>
                let o1 := leNat (r4.take 4)
                let o2 := leNat ((r4.drop 4).take 4)
                let o3 := leNat ((r4.drop 8).take 4)
                let content := (r4.drop 12).toArray
                if o1 = 0 ∨ o2 = 0 ∨ o3 = 0 ∨ o1 > content.size ∨ o2 > content.size ∨ o3 > content.size then none
                else some { id := id, content := content,
                            entropy := { huf := some huf, ll := some llT, of := some ofT, ml := some mlT, hist := ⟨o1, o2, o3⟩ } }
              | _, _, _ => none

end Zstd.Spec
