import Zstd.Model.IoNoStd
/-
The `std::io` contract of the helpers that `io_nostd.rs` re-implements, written from the
documentation of `std::io::{Read::read_exact, Read::read_to_end, Read::take, Write::write_all}` and of
the impls for `&[u8]`, `&mut [u8]`, `Vec<u8>` (library/std/src/io/{mod.rs,impls.rs}), not from the
crate.  It shares only the vocabulary of scripted readers/writers (`Reader`, `Writer`, `Resp`) with
the model: they describe the environment, not the code under test.

 * `read_exact`: "reads the exact number of bytes required to fill buf … If this function encounters
   an error of the kind `Interrupted` then the error is ignored and the operation will continue.  If
   this function encounters an 'end of file' before completely filling the buffer, it returns an
   error of the kind `UnexpectedEof` … If any other read error is encountered then this function
   immediately returns."
 * `read_to_end`: "Reads all bytes until EOF in this source … If this function encounters an error
   of the kind `Interrupted` then the error is ignored and the operation will continue.  If any other
   read error is encountered then this function immediately returns.  Any bytes which have already
   been read will be appended to buf."
 * `Take`: "Reader adapter which limits the bytes read from an underlying reader … will read at most
   `limit` bytes from it, after which it will always return EOF (`Ok(0)`)"; std does not touch the
   inner reader once the limit is 0.
 * `write_all`: "continuously call write until there is no more data to be written or an error of
   non-`Interrupted` kind is returned … If the buffer contains no data, this will never call
   write"; a `write` that returns `Ok(0)` makes it fail with `WriteZero`.
-/
namespace Zstd.Spec.Io
open Zstd Zstd.Model.Io

def readExact : List Resp → List Byte → Nat → Res (List Byte) × Reader
  | script, src, 0 => (.ok [], ⟨src, script⟩)
  | [], src, _ + 1 => (.err .unexpectedEof, ⟨src, []⟩)
  | .interrupted :: s, src, need + 1 => readExact s src (need + 1)
  | .error k :: s, src, _ + 1 => (.err k, ⟨src, s⟩)
  | .eof :: s, src, _ + 1 => (.err .unexpectedEof, ⟨src, s⟩)
  | .data k :: s, src, need + 1 =>
    let n := min (min k (need + 1)) src.length
    if n = 0 then (.err .unexpectedEof, ⟨src, s⟩)
    else
      match readExact s (src.drop n) (need + 1 - n) with
      | (.ok bs, r) => (.ok (src.take n ++ bs), r)
      | other => other

/-- `chunk` = how much one underlying `read` is asked for (std grows its probe adaptively; the
no_std helper always asks for 16 KiB; the result does not depend on it for readers that keep the
contract, see `Props.C18.read_to_end_chunk_irrelevant`) -/
def readToEnd (chunk : Nat) : List Resp → List Byte → Res (List Byte) × Reader
  | [], src => (.ok [], ⟨src, []⟩)
  | .interrupted :: s, src => readToEnd chunk s src
  | .error k :: s, src => (.err k, ⟨src, s⟩)
  | .eof :: s, src => (.ok [], ⟨src, s⟩)
  | .data k :: s, src =>
    let n := min (min k chunk) src.length
    if n = 0 then (.ok [], ⟨src, s⟩)
    else
      match readToEnd chunk s (src.drop n) with
      | (.ok bs, r) => (.ok (src.take n ++ bs), r)
      | other => other

def takeRead (t : Take) (req : Nat) : Except Kind (List Byte) × Take :=
  if t.limit = 0 then (.ok [], t)
  else
    match t.inner.read (min t.limit req) with
    | (.ok bs, r) => (.ok bs, { inner := r, limit := t.limit - bs.length })
    | (.error k, r) => (.error k, { inner := r, limit := t.limit })

def writeAll : List Resp → List Byte → List Byte → Res Unit × Writer
  | script, sink, [] => (.ok (), ⟨sink, script⟩)
  | [], sink, _ :: _ => (.err .writeZero, ⟨sink, []⟩)
  | .interrupted :: s, sink, b :: bs => writeAll s sink (b :: bs)
  | .error k :: s, sink, _ :: _ => (.err k, ⟨sink, s⟩)
  | .eof :: s, sink, _ :: _ => (.err .writeZero, ⟨sink, s⟩)
  | .data k :: s, sink, b :: bs =>
    let n := min k (bs.length + 1)
    if n = 0 then (.err .writeZero, ⟨sink, s⟩)
    else writeAll s (sink ++ (b :: bs).take n) ((b :: bs).drop n)

/-- `impl Read for &[u8]`: "copies as much as fits; the slice is advanced past the copied bytes" -/
def sliceRead (slice : List Byte) (req : Nat) : List Byte × List Byte :=
  let n := min req slice.length
  (slice.take n, slice.drop n)

/-- `impl Write for &mut [u8]`: "writes as much as there is room for and reports that count" -/
def sliceWrite (room : Nat) (data : List Byte) : List Byte × Nat × Nat :=
  let n := min room data.length
  (data.take n, n, room - n)

/-- `impl Write for Vec<u8>`: appends everything -/
def vecWrite (v data : List Byte) : List Byte × Nat := (v ++ data, data.length)

end Zstd.Spec.Io
