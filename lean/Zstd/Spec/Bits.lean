import Zstd.Basic
/-
RFC 8878 bit-level conventions, as lists of bits.

* Forward fields (FSE table descriptions, headers): bytes are consumed first to last, within a
  byte the least significant bit first; an n-bit field is little-endian (first bit read = bit 0).
* Backward bitstreams (§4.1 FSE, §4.2.2 Huffman, sequences): the stream is read from its END.
  The last byte contains a final-bit-flag: its highest set bit is a marker, the up-to-7 bits above
  it are zero padding.  Reading starts just below the marker and proceeds towards the beginning;
  an n-bit field is read most-significant-bit first.
-/
namespace Zstd.Spec

/-- bits of one byte, least significant first -/
def byteBitsLE (b : Nat) : List Bool :=
  [b % 2 = 1, b / 2 % 2 = 1, b / 4 % 2 = 1, b / 8 % 2 = 1,
   b / 16 % 2 = 1, b / 32 % 2 = 1, b / 64 % 2 = 1, b / 128 % 2 = 1]

/-- all bits of a byte string in forward reading order -/
def bitsLE : List Nat → List Bool
  | [] => []
  | b :: bs => byteBitsLE b ++ bitsLE bs

/-- value of a bit list read little-endian (first bit = bit 0) -/
def valLE : List Bool → Nat
  | [] => 0
  | b :: bs => (if b then 1 else 0) + 2 * valLE bs

/-- value of a bit list read big-endian (first bit = most significant) -/
def valBE (bs : List Bool) : Nat :=
  bs.foldl (fun acc b => 2 * acc + (if b then 1 else 0)) 0

/-- forward reader: take an `n`-bit little-endian field; `none` if fewer than `n` bits remain -/
def readLE (n : Nat) (bits : List Bool) : Option (Nat × List Bool) :=
  let t := bits.take n          -- (length of the prefix, not of the whole stream: keeps reads O(n))
  if t.length < n then none else some (valLE t, bits.drop n)

/-- The backward stream of a byte string: all its bits in reverse order, with the zero padding and
the marker bit removed.  `none` when the last byte is 0 (no marker) or the string is empty. -/
def backwardStream (bytes : List Nat) : Option (List Bool) :=
  match bytes.getLast? with
  | none => none
  | some last =>
    if last = 0 then none
    else
      let rev := (bitsLE bytes).reverse
      -- leading `false`s are the padding (fewer than 8 because last ≠ 0); then the marker
      some ((rev.dropWhile (fun b => !b)).drop 1)

/-- backward reader: take an `n`-bit field, most significant bit first.
Strict: reading past the beginning of the stream is an error (`none`). -/
def readBE (n : Nat) (bits : List Bool) : Option (Nat × List Bool) :=
  let t := bits.take n
  if t.length < n then none else some (valBE t, bits.drop n)

/-- backward reader that pads with zero bits past the beginning of the stream (used only where the
RFC says so: peeking the last Huffman codes, and the final state update of FSE weight streams).
Returns the value, the rest, and how many bits were missing. -/
def readBEPad (n : Nat) (bits : List Bool) : Nat × List Bool × Nat :=
  let t := bits.take n
  if t.length < n then
    (valBE t * 2 ^ (n - t.length), [], n - t.length)
  else (valBE t, bits.drop n, 0)

end Zstd.Spec
