import Zstd.Spec.Bits
/-
RFC 8878 §4.1 — FSE: table description (§4.1.1) and decoding table construction, written in the
formulation of the reference/educational decoder (`next = probability + k`, `nbBits = AL − ⌊log₂ next⌋`,
`baseline = (next << nbBits) − 2^AL`).
-/
namespace Zstd.Spec.Fse

structure Entry where
  symbol : Nat
  nbBits : Nat
  baseline : Nat
  deriving Repr, DecidableEq, Inhabited

structure Table where
  accLog : Nat
  entries : Array Entry
  deriving Repr, DecidableEq, Inhabited

/-- ⌊log₂ n⌋ for n ≥ 1 -/
def log2 (n : Nat) : Nat := Nat.log2 n

/-- zero-run flags after a probability of 0: two-bit repeat counts, 3 = "and more follow" -/
def readZeroRuns : Nat → List Bool → Option (Nat × List Bool)
  | 0, _ => none
  | fuel + 1, bits =>
    match readLE 2 bits with
    | none => none
    | some (r, rest) =>
      if r = 3 then
        match readZeroRuns fuel rest with
        | none => none
        | some (more, rest') => some (3 + more, rest')
      else some (r, rest)

/-- read probabilities until the remaining probability mass is 0.
`remaining` = remaining probability mass, `acc` = probabilities read so far (reversed). -/
def readProbs : Nat → Nat → Nat → List Bool → List Int → Option (List Int × List Bool)
  | 0, _, _, _, _ => none
  | fuel + 1, maxSymbol, remaining, bits, acc =>
    if remaining = 0 then some (acc.reverse, bits)
    else if acc.length > maxSymbol then none           -- more symbols than the alphabet allows
    else
      let nbits := log2 (remaining + 1) + 1
      match readLE nbits bits with
      | none => none   -- (a description is always followed by at least one more byte of payload)
      | some (v, _) =>
        let lowerMask := 2 ^ (nbits - 1) - 1
        let threshold := 2 ^ nbits - 1 - (remaining + 1)
        let low := v % 2 ^ (nbits - 1)
        let (val, used) :=
          if low < threshold then (low, nbits - 1)
          else if v > lowerMask then (v - threshold, nbits)
          else (v, nbits)
        let rest := bits.drop used
        let p : Int := (val : Int) - 1
        let mass := if p < 0 then 1 else p.toNat
        if mass > remaining then none
        else if p = 0 then
          match readZeroRuns (maxSymbol + 2) rest with
          | none => none
          | some (z, rest') => readProbs fuel maxSymbol (remaining - mass) rest' (List.replicate z 0 ++ p :: acc)
        else readProbs fuel maxSymbol (remaining - mass) rest (p :: acc)

/-- §4.1.1: parse an FSE table description from the front of `bytes`.
Returns (accuracy log, normalized probabilities, number of bytes consumed). -/
def readDescription (bytes : List Nat) (maxLog maxSymbol : Nat) : Option (Nat × List Int × Nat) :=
  let bits := bitsLE bytes
  match readLE 4 bits with
  | none => none
  | some (a, rest) =>
    let al := a + 5
    if al > maxLog then none
    else
      match readProbs (maxSymbol + 3) maxSymbol (2 ^ al) rest [] with
      | none => none
      | some (probs, rest') =>
        if probs.length > maxSymbol + 1 then none
        else
          let usedBits := bits.length - rest'.length
          some (al, probs, (usedBits + 7) / 8)

/-- next position of the spreading walk -/
def step (size pos : Nat) : Nat := (pos + size / 2 + size / 8 + 3) % size

/-- advance until outside the "less than 1" zone `[high, size)` -/
def nextPos : Nat → Nat → Nat → Nat → Nat
  | 0, _, _, pos => pos
  | fuel + 1, size, high, pos =>
    let p := step size pos
    if p < high then p else nextPos fuel size high p

/-- place `count` copies of `sym` along the walk -/
def spreadSym : Nat → Nat → Nat → Nat → Nat → Array Nat → Array Nat × Nat
  | 0, _, _, _, pos, cells => (cells, pos)
  | count + 1, size, high, sym, pos, cells =>
    spreadSym count size high sym (nextPos size size high pos) (cells.setIfInBounds pos sym)

/-- symbol of every state: "less than 1" symbols from the top down, the others along the walk -/
def spread (al : Nat) (probs : List Int) : Option (Array Nat) :=
  let size := 2 ^ al
  -- −1 symbols, in increasing symbol order, occupy size−1, size−2, …
  let (cells, high) := (probs.zipIdx).foldl (init := (Array.replicate size 0, size))
    fun (acc : Array Nat × Nat) (ps : Int × Nat) =>
      if ps.1 = -1 ∧ acc.2 > 0 then (acc.1.setIfInBounds (acc.2 - 1) ps.2, acc.2 - 1) else acc
  let (cells, pos) := (probs.zipIdx).foldl (init := (cells, 0))
    fun (acc : Array Nat × Nat) (ps : Int × Nat) =>
      if ps.1 > 0 then spreadSym ps.1.toNat size high ps.2 acc.2 acc.1 else acc
  if pos = 0 then some cells else none

/-- §4.1.1 decoding table from a normalized distribution -/
def buildTable (al : Nat) (probs : List Int) : Option Table :=
  let size := 2 ^ al
  let mass := probs.foldl (fun (a : Nat) p => a + (if p = -1 then 1 else if p > 0 then p.toNat else 0)) 0
  if mass ≠ size ∨ probs.any (fun p => p < -1) then none
  else
    match spread al probs with
    | none => none
    | some cells =>
      let init : Array Nat := (probs.map fun p => if p = -1 then 1 else if p > 0 then p.toNat else 0).toArray
      let (entries, _) := cells.foldl (init := ((#[] : Array Entry), init))
        fun (acc : Array Entry × Array Nat) sym =>
          let next := acc.2.getD sym 1
          let nb := al - log2 next
          (acc.1.push { symbol := sym, nbBits := nb, baseline := next * 2 ^ nb - size },
           acc.2.setIfInBounds sym (next + 1))
      some { accLog := al, entries := entries }

/-- a table for RLE mode: one state, zero bits -/
def rleTable (sym : Nat) : Table := { accLog := 0, entries := #[{ symbol := sym, nbBits := 0, baseline := 0 }] }

/-- initial state: `accLog` bits from the backward stream -/
def initState (t : Table) (bits : List Bool) : Option (Nat × List Bool) := readBE t.accLog bits

def symbolOf (t : Table) (state : Nat) : Option Nat := (t.entries[state]?).map (·.symbol)

/-- state update: read `nbBits` and add the baseline -/
def updateState (t : Table) (state : Nat) (bits : List Bool) : Option (Nat × List Bool) :=
  match t.entries[state]? with
  | none => none
  | some e =>
    match readBE e.nbBits bits with
    | none => none
    | some (v, rest) => some (e.baseline + v, rest)

end Zstd.Spec.Fse
