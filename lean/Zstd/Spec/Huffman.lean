import Zstd.Spec.Fse
/-
RFC 8878 §4.2 — Huffman coding of literals: weights → prefix code (§4.2.1), weight descriptions
(direct §4.2.1.1 and FSE-compressed §4.2.1.2), stream decoding (§4.2.2).
-/
namespace Zstd.Spec.Huffman

def maxBitsLimit : Nat := 11

structure Entry where
  symbol : Nat
  nbBits : Nat
  deriving Repr, DecidableEq, Inhabited

structure Table where
  maxBits : Nat
  entries : Array Entry          -- 2^maxBits entries, indexed by the next maxBits bits (MSB first)
  deriving Repr, DecidableEq, Inhabited

def weightMass (w : Nat) : Nat := if w = 0 then 0 else 2 ^ (w - 1)

def isPow2 (n : Nat) : Bool := n ≠ 0 && 2 ^ Nat.log2 n == n

/-- §4.2.1: the last weight is not transmitted; it completes the sum of `2^(w-1)` to the next power
of two.  Returns (Max_Number_of_Bits, all weights including the inferred one). -/
def completeWeights (ws : List Nat) : Option (Nat × List Nat) :=
  if ws.any (fun w => w > maxBitsLimit) then none
  else
    let sum := (ws.map weightMass).sum
    if sum = 0 then none
    else
      let maxBits := Nat.log2 sum + 1
      let left := 2 ^ maxBits - sum
      if !isPow2 left then none
      else if maxBits > maxBitsLimit then none
      else some (maxBits, ws ++ [Nat.log2 left + 1])

/-- symbols (index, weight) with weight `w`, in natural order -/
def symbolsOfWeight (ws : List Nat) (w : Nat) : List Nat :=
  (ws.zipIdx.filter (fun p => p.1 = w)).map (·.2)

/-- §4.2.1 canonical table: starting from the lowest weight, symbols in natural order receive
consecutive ranges of `2^(w-1)` table cells; `nbBits = maxBits + 1 − w`. -/
def buildTable (maxBits : Nat) (ws : List Nat) : Table :=
  let cells := (List.range maxBits).foldl (init := (#[] : Array Entry)) fun acc w0 =>
    let w := w0 + 1
    (symbolsOfWeight ws w).foldl (init := acc) fun acc sym =>
      acc ++ Array.replicate (2 ^ (w - 1)) { symbol := sym, nbBits := maxBits + 1 - w }
  { maxBits := maxBits, entries := cells }

def tableOfWeights (ws : List Nat) : Option Table :=
  match completeWeights ws with
  | none => none
  | some (maxBits, all) => if all.length > 256 then none else some (buildTable maxBits all)

/-- decode exactly `n` symbols from a backward stream; the stream must be consumed exactly -/
def decodeSymbols (t : Table) : Nat → List Bool → List Nat → Option (List Nat)
  | 0, bits, acc => if bits.isEmpty then some acc.reverse else none
  | n + 1, bits, acc =>
    let (idx, _, _) := readBEPad t.maxBits bits
    match t.entries[idx]? with
    | none => none
    | some e =>
      if e.nbBits = 0 ∨ (bits.take e.nbBits).length < e.nbBits then none
      else decodeSymbols t n (bits.drop e.nbBits) (e.symbol :: acc)

/-- §4.2.2: one Huffman stream regenerating `n` literals -/
def decodeStream (t : Table) (stream : List Nat) (n : Nat) : Option (List Nat) :=
  match backwardStream stream with
  | none => none
  | some bits => decodeSymbols t n bits []

/-- §4.2.1.2: weights compressed with two interleaved FSE states sharing one table.  Decoding
alternates between the states; when a state update needs more bits than remain, the symbol of the
other state is emitted and decoding stops. -/
def decodeFseWeights (t : Fse.Table) : Nat → Nat → Nat → List Bool → List Nat → Option (List Nat)
  | 0, _, _, _, _ => none
  | fuel + 1, s1, s2, bits, acc =>
    match t.entries[s1]?, t.entries[s2]? with
    | some e1, some e2 =>
      let (v, rest, missing) := readBEPad e1.nbBits bits
      let acc := e1.symbol :: acc
      if missing > 0 then some (e2.symbol :: acc).reverse
      else if acc.length > 255 then none
      else decodeFseWeights t fuel s2 (e1.baseline + v) rest acc   -- roles swap each step
    | _, _ => none

/-- §4.2.1: parse a Huffman tree description. Returns (transmitted weights, bytes consumed). -/
def readWeights (bytes : List Nat) : Option (List Nat × Nat) :=
  match bytes with
  | [] => none
  | header :: rest =>
    if header ≥ 128 then
      let n := header - 127
      let need := (n + 1) / 2
      if rest.length < need then none
      else
        let ws := (List.range n).map fun i =>
          let b := rest.getD (i / 2) 0
          if i % 2 = 0 then b / 16 else b % 16
        some (ws, 1 + need)
    else
      if rest.length < header then none
      else
        let body := rest.take header
        match Fse.readDescription body 6 255 with
        | none => none
        | some (al, probs, used) =>
          if used ≥ header then none
          else
            match Fse.buildTable al probs, backwardStream (body.drop used) with
            | some t, some bits =>
              match Fse.initState t bits with
              | none => none
              | some (s1, bits1) =>
                match Fse.initState t bits1 with
                | none => none
                | some (s2, bits2) =>
                  match decodeFseWeights t 300 s1 s2 bits2 [] with
                  | none => none
                  | some ws => some (ws, 1 + header)
            | _, _ => none

/-- tree description → decoding table and size of the description -/
def readTable (bytes : List Nat) : Option (Table × Nat) :=
  match readWeights bytes with
  | none => none
  | some (ws, used) =>
    match tableOfWeights ws with
    | none => none
    | some t => some (t, used)

end Zstd.Spec.Huffman
