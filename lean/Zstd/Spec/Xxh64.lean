/-
XXH64 (the checksum of RFC 8878 §3.1.1: low 32 bits of XXH64 with seed 0), one-shot definition
over a byte list.  `UInt64` arithmetic wraps, which is the algorithm's meaning.
-/
namespace Zstd.Spec.Xxh64

def P1 : UInt64 := 0x9E3779B185EBCA87
def P2 : UInt64 := 0xC2B2AE3D27D4EB4F
def P3 : UInt64 := 0x165667B19E3779F9
def P4 : UInt64 := 0x85EBCA77C2B2AE63
def P5 : UInt64 := 0x27D4EB2F165667C5

def rotl (x : UInt64) (r : UInt64) : UInt64 := (x <<< r) ||| (x >>> (64 - r))

def round (acc input : UInt64) : UInt64 := rotl (acc + input * P2) 31 * P1

def merge (acc v : UInt64) : UInt64 := (acc ^^^ round 0 v) * P1 + P4

def le64 (bs : List Nat) : UInt64 :=
  (bs.take 8).reverse.foldl (fun acc b => acc * 256 + UInt64.ofNat b) 0

def le32 (bs : List Nat) : UInt64 :=
  (bs.take 4).reverse.foldl (fun acc b => acc * 256 + UInt64.ofNat b) 0

/-- consume 32-byte stripes -/
def stripes : Nat → List Nat → UInt64 × UInt64 × UInt64 × UInt64 → (UInt64 × UInt64 × UInt64 × UInt64) × List Nat
  | 0, bs, v => (v, bs)
  | n + 1, bs, (v1, v2, v3, v4) =>
    stripes n (bs.drop 32)
      (round v1 (le64 bs), round v2 (le64 (bs.drop 8)), round v3 (le64 (bs.drop 16)), round v4 (le64 (bs.drop 24)))

def tail8 : Nat → List Nat → UInt64 → UInt64 × List Nat
  | 0, bs, h => (h, bs)
  | n + 1, bs, h => tail8 n (bs.drop 8) (rotl (h ^^^ round 0 (le64 bs)) 27 * P1 + P4)

def tail1 : List Nat → UInt64 → UInt64
  | [], h => h
  | b :: bs, h => tail1 bs (rotl (h ^^^ (UInt64.ofNat b * P5)) 11 * P1)

def avalanche (h : UInt64) : UInt64 :=
  let h := (h ^^^ (h >>> 33)) * P2
  let h := (h ^^^ (h >>> 29)) * P3
  h ^^^ (h >>> 32)

def xxh64 (seed : UInt64) (data : List Nat) : UInt64 :=
  let len := data.length
  let (h0, rest) :=
    if len ≥ 32 then
      let ((v1, v2, v3, v4), rest) := stripes (len / 32) data (seed + P1 + P2, seed + P2, seed, seed - P1)
      let h := rotl v1 1 + rotl v2 7 + rotl v3 12 + rotl v4 18
      (merge (merge (merge (merge h v1) v2) v3) v4, rest)
    else (seed + P5, data)
  let h := h0 + UInt64.ofNat len
  let (h, rest) := tail8 (rest.length / 8) rest h
  let (h, rest) :=
    if rest.length ≥ 4 then (rotl (h ^^^ (le32 rest * P1)) 23 * P2 + P3, rest.drop 4) else (h, rest)
  avalanche (tail1 rest h)

/-- the frame checksum: low 32 bits of XXH64(seed 0) -/
def checksum32 (data : List Nat) : Nat := (xxh64 0 data).toNat % 2 ^ 32

end Zstd.Spec.Xxh64
