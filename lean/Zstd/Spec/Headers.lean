import Zstd.Basic
import Zstd.Spec.Tables
/-
RFC 8878 header layouts, transcribed BY HAND from the RFC text (not from the source code):
  §3.1.1.3.1.1  Literals_Section_Header
  §3.1.1.1      Frame_Header (descriptor, window descriptor, dictionary id, frame content size)
Each header is read as ONE little-endian integer and its fields are taken out with `/` and `%`
(the RFC's bit numbering), so that the transcription shares no shift/mask with the code.
-/
namespace Zstd.Spec.Hdr
open Zstd Zstd.Spec

/-- §3.1.1.3.1.1 — `ltype`: 0 Raw, 1 RLE, 2 Compressed, 3 Treeless; `size` = header bytes -/
structure LitHeader where
  ltype : Nat
  regen : Nat
  comp : Option Nat
  streams : Option Nat
  size : Nat
  deriving Repr, DecidableEq

/-- header size from the first byte: Raw/RLE 1 (Size_Format x0), 2 (01), 3 (11);
Compressed/Treeless 3 (00, 01), 4 (10), 5 (11) -/
def litHeaderSize (b0 : Nat) : Nat :=
  let t := b0 % 4
  let sf := b0 / 4 % 4
  if t < 2 then (if sf % 2 = 0 then 1 else if sf = 1 then 2 else 3)
  else (if sf < 2 then 3 else if sf = 2 then 4 else 5)

/-- the fields, given the little-endian value `v` of the whole header (`size` bytes) -/
def litHeaderOfValue (v : Nat) : LitHeader :=
  let t := v % 4
  let sf := v / 4 % 4
  if t < 2 then
    -- Raw / RLE: Regenerated_Size uses 5, 12 or 20 bits; no Compressed_Size
    if sf % 2 = 0 then ⟨t, v / 8 % 2 ^ 5, none, none, 1⟩
    else if sf = 1 then ⟨t, v / 16 % 2 ^ 12, none, none, 2⟩
    else ⟨t, v / 16 % 2 ^ 20, none, none, 3⟩
  else
    -- Compressed / Treeless: both sizes use 10, 10, 14 or 18 bits; format 00 = single stream
    if sf = 0 then ⟨t, v / 16 % 2 ^ 10, some (v / 2 ^ 14 % 2 ^ 10), some 1, 3⟩
    else if sf = 1 then ⟨t, v / 16 % 2 ^ 10, some (v / 2 ^ 14 % 2 ^ 10), some 4, 3⟩
    else if sf = 2 then ⟨t, v / 16 % 2 ^ 14, some (v / 2 ^ 18 % 2 ^ 14), some 4, 4⟩
    else ⟨t, v / 16 % 2 ^ 18, some (v / 2 ^ 22 % 2 ^ 18), some 4, 5⟩

/-- `none` = the bytes do not hold a complete header -/
def parseLitHeader (bs : List Nat) : Option LitHeader :=
  match bs with
  | [] => none
  | b0 :: _ =>
    let n := litHeaderSize b0
    if bs.length < n then none else some (litHeaderOfValue (leNat (bs.take n)))

/-- §3.1.1.1 Frame_Header after the magic number.  `window` = Window_Size from the
Window_Descriptor (absent for single-segment frames), `dictId` = the Dictionary_ID field value,
`fcs` = Frame_Content_Size (with the +256 rule applied), `size` = bytes after the magic number. -/
structure FrameHeader where
  desc : FrameDesc
  window : Option Nat
  dictId : Option Nat
  fcs : Option Nat
  size : Nat
  deriving Repr, DecidableEq

def parseFrameHeader (bs : List Nat) : Option FrameHeader :=
  match bs with
  | [] => none
  | d :: rest =>
    let f := parseFrameDesc d
    let nw := if f.singleSegment then 0 else 1
    let nd := didFieldSize f
    let nf := fcsFieldSize f
    if rest.length < nw + nd + nf then none else
    let wbytes := rest.take nw
    let dbytes := (rest.drop nw).take nd
    let fbytes := (rest.drop (nw + nd)).take nf
    let fcs0 := leNat fbytes
    some { desc := f,
           window := if f.singleSegment then none else some (windowSize (leNat wbytes)),
           dictId := if nd = 0 then none else some (leNat dbytes),
           fcs := if nf = 0 then none else some (if nf = 2 then fcs0 + 256 else fcs0),
           size := 1 + nw + nd + nf }

/-- the window a decoder has to provide: Window_Size, or Frame_Content_Size for single-segment frames -/
def FrameHeader.requiredWindow (h : FrameHeader) : Nat :=
  match h.window with
  | some w => w
  | none => h.fcs.getD 0

end Zstd.Spec.Hdr
