import Zstd.Spec.Huffman
import Zstd.Spec.Tables
/-
RFC 8878 §3.1.1.2–§3.1.1.5 — blocks: literals section, sequences section, sequence execution.
Strict: whatever the RFC forbids is `none`.
-/
namespace Zstd.Spec

/-- entropy state carried from block to block within a frame (and seeded by a dictionary) -/
structure Entropy where
  huf : Option Huffman.Table := none
  ll : Option Fse.Table := none
  of : Option Fse.Table := none
  ml : Option Fse.Table := none
  hist : OffHist := ⟨1, 4, 8⟩
  deriving Repr, Inhabited

structure LitHeader where
  ltype : Nat            -- 0 Raw, 1 RLE, 2 Compressed, 3 Treeless
  regen : Nat
  comp : Nat             -- compressed size (Compressed/Treeless), else 0
  streams : Nat          -- 1 or 4 (Compressed/Treeless), else 0
  hdrLen : Nat
  deriving Repr, DecidableEq

/-- §3.1.1.3.1.1 Literals_Section_Header -/
def parseLitHeader (bytes : List Nat) : Option LitHeader :=
  match bytes with
  | [] => none
  | b0 :: _ =>
    let ltype := b0 % 4
    let sf := b0 / 4 % 4
    if ltype < 2 then
      if sf % 2 = 0 then some ⟨ltype, b0 / 8, 0, 0, 1⟩
      else if sf = 1 then
        if bytes.length < 2 then none else some ⟨ltype, leNat (bytes.take 2) / 16, 0, 0, 2⟩
      else
        if bytes.length < 3 then none else some ⟨ltype, leNat (bytes.take 3) / 16, 0, 0, 3⟩
    else
      let (n, bitsEach, streams) :=
        if sf = 0 then (3, 10, 1) else if sf = 1 then (3, 10, 4) else if sf = 2 then (4, 14, 4) else (5, 18, 4)
      if bytes.length < n then none
      else
        let v := leNat (bytes.take n) / 16
        some ⟨ltype, v % 2 ^ bitsEach, v / 2 ^ bitsEach % 2 ^ bitsEach, streams, n⟩

/-- four Huffman streams with a 6-byte jump table -/
def decodeFourStreams (t : Huffman.Table) (payload : List Nat) (regen : Nat) : Option (List Nat) :=
  if payload.length < 6 then none
  else
    let s1 := leNat (payload.take 2)
    let s2 := leNat ((payload.drop 2).take 2)
    let s3 := leNat ((payload.drop 4).take 2)
    let body := payload.drop 6
    if s1 + s2 + s3 > body.length then none
    else
      let n := (regen + 3) / 4
      if 3 * n > regen then none
      else
        match Huffman.decodeStream t (body.take s1) n,
              Huffman.decodeStream t ((body.drop s1).take s2) n,
              Huffman.decodeStream t ((body.drop (s1 + s2)).take s3) n,
              Huffman.decodeStream t (body.drop (s1 + s2 + s3)) (regen - 3 * n) with
        | some a, some b, some c, some d => some (a ++ b ++ c ++ d)
        | _, _, _, _ => none

/-- §3.1.1.3.1 literals section: returns (literals, bytes consumed, Huffman table now in force) -/
def decodeLiterals (bytes : List Nat) (prev : Option Huffman.Table) :
    Option (List Nat × Nat × Option Huffman.Table) :=
  match parseLitHeader bytes with
  | none => none
  | some h =>
    let body := bytes.drop h.hdrLen
    if h.ltype = 0 then
      if body.length < h.regen then none else some (body.take h.regen, h.hdrLen + h.regen, prev)
    else if h.ltype = 1 then
      match body with
      | [] => none
      | b :: _ => some (List.replicate h.regen b, h.hdrLen + 1, prev)
    else
      if body.length < h.comp then none
      else
        let payload := body.take h.comp
        let tbl : Option (Huffman.Table × Nat) :=
          if h.ltype = 2 then Huffman.readTable payload
          else prev.map (fun t => (t, 0))
        match tbl with
        | none => none
        | some (t, used) =>
          if used > payload.length then none
          else
            let streams := payload.drop used
            let lits :=
              if h.streams = 1 then Huffman.decodeStream t streams h.regen
              else decodeFourStreams t streams h.regen
            match lits with
            | none => none
            | some ls => some (ls, h.hdrLen + h.comp, some t)

structure Seq where
  ll : Nat
  ml : Nat
  ov : Nat          -- Offset_Value (before repeat-offset resolution)
  deriving Repr, DecidableEq

/-- one of the three symbol tables of a sequences section.
mode 0 predefined, 1 RLE, 2 FSE description, 3 repeat. Returns (table, bytes consumed). -/
def readSeqTable (mode : Nat) (bytes : List Nat) (maxLog maxSym : Nat) (dflt : Nat × List Int)
    (prev : Option Fse.Table) : Option (Fse.Table × Nat) :=
  if mode = 0 then (Fse.buildTable dflt.1 dflt.2).map (fun t => (t, 0))
  else if mode = 1 then
    match bytes with
    | [] => none
    | b :: _ => if b > maxSym then none else some (Fse.rleTable b, 1)
  else if mode = 2 then
    match Fse.readDescription bytes maxLog maxSym with
    | none => none
    | some (al, probs, used) => (Fse.buildTable al probs).map (fun t => (t, used))
  else prev.map (fun t => (t, 0))

/-- decode `n` sequences from the backward stream (states already initialised) -/
def decodeSeqLoop (llT ofT mlT : Fse.Table) :
    Nat → Nat → Nat → Nat → List Bool → List Seq → Option (List Seq × List Bool)
  | 0, _, _, _, bits, acc => some (acc.reverse, bits)
  | n + 1, sLL, sOF, sML, bits, acc =>
    match Fse.symbolOf llT sLL, Fse.symbolOf ofT sOF, Fse.symbolOf mlT sML with
    | some llc, some ofc, some mlc =>
      match llCodeTable[llc]?, mlCodeTable[mlc]? with
      | some (llBase, llBits), some (mlBase, mlBits) =>
        if ofc > 31 then none else
        match readBE ofc bits with
        | none => none
        | some (ofx, b1) =>
          match readBE mlBits b1 with
          | none => none
          | some (mlx, b2) =>
            match readBE llBits b2 with
            | none => none
            | some (llx, b3) =>
              let s : Seq := ⟨llBase + llx, mlBase + mlx, offsetValue ofc ofx⟩
              if n = 0 then some ((s :: acc).reverse, b3)
              else
                match Fse.updateState llT sLL b3 with
                | none => none
                | some (sLL', b4) =>
                  match Fse.updateState mlT sML b4 with
                  | none => none
                  | some (sML', b5) =>
                    match Fse.updateState ofT sOF b5 with
                    | none => none
                    | some (sOF', b6) => decodeSeqLoop llT ofT mlT n sLL' sOF' sML' b6 (s :: acc)
      | _, _ => none
    | _, _, _ => none

/-- §3.1.1.3.2 sequences section occupying exactly `bytes`.
Returns the sequences and the tables now in force. -/
def decodeSequences (bytes : List Nat) (e : Entropy) : Option (List Seq × Entropy) :=
  match parseSeqCount bytes with
  | none => none
  | some (n, used) =>
    if n = 0 then (if bytes.length = used then some ([], e) else none)
    else
      match bytes.drop used with
      | [] => none
      | modes :: rest =>
        if modes % 4 ≠ 0 then none else
        match readSeqTable (modes / 64) rest 9 35 (llDefaultLog, llDefaultDist) e.ll with
        | none => none
        | some (llT, u1) =>
          match readSeqTable (modes / 16 % 4) (rest.drop u1) 8 31 (ofDefaultLog, ofDefaultDist) e.of with
          | none => none
          | some (ofT, u2) =>
            match readSeqTable (modes / 4 % 4) (rest.drop (u1 + u2)) 9 52 (mlDefaultLog, mlDefaultDist) e.ml with
            | none => none
            | some (mlT, u3) =>
              match backwardStream (rest.drop (u1 + u2 + u3)) with
              | none => none
              | some bits =>
                match Fse.initState llT bits with
                | none => none
                | some (sLL, b1) =>
                  match Fse.initState ofT b1 with
                  | none => none
                  | some (sOF, b2) =>
                    match Fse.initState mlT b2 with
                    | none => none
                    | some (sML, b3) =>
                      match decodeSeqLoop llT ofT mlT n sLL sOF sML b3 [] with
                      | none => none
                      | some (seqs, left) =>
                        if left.isEmpty then some (seqs, { e with ll := some llT, of := some ofT, ml := some mlT })
                        else none

/-- byte-by-byte overlapping copy of `n` bytes from `offset` back, reaching into `dict` when the
offset exceeds the output produced so far -/
def matchCopy (dict : Array Nat) : Nat → Nat → Array Nat → Option (Array Nat)
  | 0, _, out => some out
  | n + 1, offset, out =>
    if offset ≤ out.size then
      match out[out.size - offset]? with
      | some b => matchCopy dict n offset (out.push b)
      | none => none
    else
      let back := offset - out.size
      if back ≤ dict.size then
        match dict[dict.size - back]? with
        | some b => matchCopy dict n offset (out.push b)
        | none => none
      else none

/-- §3.1.1.4 sequence execution. `out` is everything the frame has produced so far. -/
def execSequences (window : Nat) (dict : Array Nat) :
    List Seq → List Nat → OffHist → Array Nat → Option (Array Nat × OffHist)
  | [], lits, h, out => some (out ++ lits.toArray, h)
  | s :: rest, lits, h, out =>
    if s.ll > lits.length then none
    else
      let out1 := out ++ (lits.take s.ll).toArray
      let (offset, h') := repeatOffsets s.ov (s.ll = 0) h
      if offset = 0 then none
      else if offset > out1.size then
        -- may only reach into the dictionary while the whole output still lies within the window
        if out1.size > window ∨ offset - out1.size > dict.size then none
        else
          match matchCopy dict s.ml offset out1 with
          | none => none
          | some out2 => execSequences window dict rest (lits.drop s.ll) h' out2
      else if offset > window then none
      else
        match matchCopy dict s.ml offset out1 with
        | none => none
        | some out2 => execSequences window dict rest (lits.drop s.ll) h' out2

/-- a Compressed_Block body (exactly `bytes`) -/
def decodeCompressedBlock (window : Nat) (dict : Array Nat) (bytes : List Nat) (e : Entropy)
    (out : Array Nat) : Option (Array Nat × Entropy) :=
  match decodeLiterals bytes e.huf with
  | none => none
  | some (lits, used, huf) =>
    match decodeSequences (bytes.drop used) { e with huf := huf } with
    | none => none
    | some (seqs, e') =>
      match execSequences window dict seqs lits e'.hist out with
      | none => none
      | some (out', h') =>
        if out'.size - out.size > min window blockMaxSize then none
        else some (out', { e' with hist := h' })

end Zstd.Spec
