import Zstd.Model.FrameDecoder
open Zstd Zstd.Model

theorem matchCopy_within (dict : Array Nat) : ∀ (n offset : Nat) (out : Array Nat),
    0 < offset → offset ≤ out.size →
    Spec.matchCopy dict n offset out = some (copyWithin n offset out) := by
  intro n
  induction n with
  | zero => intro offset out _ _; simp [Spec.matchCopy, copyWithin]
  | succ n ih =>
    intro offset out hpos hle
    unfold Spec.matchCopy copyWithin
    simp only [hle, ↓reduceIte]
    have hlt : out.size - offset < out.size := by omega
    rw [Array.getElem?_eq_getElem hlt]
    simp only []
    have : out.getD (out.size - offset) 0 = out[out.size - offset] := by
      simp [Array.getD, hlt]
    rw [this]
    exact ih offset _ hpos (by simp; omega)

#print axioms matchCopy_within

/-- `k` bytes taken from the dictionary, starting `back` bytes before its end -/
theorem matchCopy_fromDict (dict : Array Nat) : ∀ (k offset : Nat) (out : Array Nat),
    out.size < offset → offset - out.size ≤ dict.size → k ≤ offset - out.size →
    Spec.matchCopy dict k offset out =
      some (out ++ dict.extract (dict.size - (offset - out.size)) (dict.size - (offset - out.size) + k)) := by
  intro k
  induction k with
  | zero => intro offset out _ _ _; simp [Spec.matchCopy]
  | succ k ih =>
    intro offset out hlt hle hk
    unfold Spec.matchCopy
    have h1 : ¬ offset ≤ out.size := by omega
    simp only [h1, ↓reduceIte, hle]
    have hidx : dict.size - (offset - out.size) < dict.size := by omega
    rw [Array.getElem?_eq_getElem hidx]
    simp only []
    rw [ih offset _ (by simp; omega) (by simp; omega) (by simp; omega)]
    congr 1
    simp only [Array.size_push]
    apply Array.ext'
    simp only [Array.toList_append, Array.toList_push, Array.toList_extract, List.append_assoc]
    congr 1
    have e1 : dict.size - (offset - (out.size + 1)) = dict.size - (offset - out.size) + 1 := by omega
    rw [e1]
    have e2 : dict.size - (offset - out.size) + 1 + k = dict.size - (offset - out.size) + (k + 1) := by omega
    rw [e2]
    generalize hs : dict.size - (offset - out.size) = s at hidx
    rw [List.extract_eq_drop_take, List.extract_eq_drop_take]
    simp only [Nat.add_sub_cancel_left]
    have : s + (k + 1) - s = k + 1 := by omega
    rw [this]
    have : s + 1 + k - (s + 1) = k := by omega
    have e3 : s + (k+1) - (s+1) = k := by omega
    rw [e3]
    rw [List.take_succ_eq_append_getElem (by simp; omega)]
    simp [List.drop_drop, Nat.add_comm]
    sorry
