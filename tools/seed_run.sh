#!/bin/bash
# tools/seed_run.sh <seed-id> <property>...   apply a filed seeded change to /repo, run the checks, undo
ID=$1; shift
git -C /repo apply /verif/seeded/$ID/patch.diff || exit 1
for P in "$@"; do
  echo "--- $P on $ID"
  /verif/bin/check $P 2>&1 | grep -E "VIOLATION|PASS|FAIL|BROKEN" | cut -c1-260 | tail -6
done
git -C /repo checkout -- .
# leave no mutated artefacts behind: regenerate Gen and rebuild the harness against the restored tree
python3 /verif/tools/extract.py >/dev/null 2>&1
(cd /verif/harness && cargo build --release --offline -q 2>/dev/null)
