#!/usr/bin/env python3
"""merge_agent.py <agentdir>: copy files that exist only in the agent's copy; 3-way merge files that differ,
using as base the /verif commit that best matches the agent's untouched files."""
import os, subprocess, sys, filecmp
A = sys.argv[1].rstrip('/')
V = '/verif'
EXCL = ('build', '.lake', '.git', 'evidence', 'replays', '__pycache__', 'scratch', 'repo')
def walk(root):
    out = []
    for d, dirs, files in os.walk(root):
        dirs[:] = [x for x in dirs if x not in EXCL]
        for f in files:
            p = os.path.relpath(os.path.join(d, f), root)
            if p.endswith('.pyc') or p.startswith('lean/lake-manifest') or p == 'repo': continue
            out.append(p)
    return out
af = set(walk(A)); vf = set(walk(V))
commits = subprocess.run(['git','log','--format=%h'],cwd=V,capture_output=True,text=True).stdout.split()
def show(c, f):
    r = subprocess.run(['git','show',f'{c}:{f}'],cwd=V,capture_output=True)
    return r.stdout if r.returncode == 0 else None
differ = [f for f in af & vf if not filecmp.cmp(os.path.join(A,f), os.path.join(V,f), shallow=False)]
# base: commit maximizing number of agent files identical to that commit's version
best=(None,-1)
probe=[f for f in af & vf][:400]
for c in commits[:60]:
    n=0
    for f in probe:
        b=show(c,f)
        if b is not None and b==open(os.path.join(A,f),'rb').read(): n+=1
    if n>best[1]: best=(c,n)
base=best[0]
print('base commit', base, best[1], 'of', len(probe))
new = sorted(af - vf)
for f in new:
    os.makedirs(os.path.dirname(os.path.join(V,f)) or V, exist_ok=True)
    subprocess.run(['cp','-p',os.path.join(A,f),os.path.join(V,f)])
print('copied new files:', len(new))
for f in new[:80]: print('  +', f)
for f in sorted(differ):
    b = show(base, f)
    a = open(os.path.join(A,f),'rb').read()
    if b is not None and b == a:
        continue  # agent did not touch it
    if f.startswith('lean/Zstd/Gen/'):
        continue  # regenerated
    bp='/tmp/base.tmp'; open(bp,'wb').write(b or b'')
    r = subprocess.run(['git','merge-file','-p',os.path.join(V,f),bp,os.path.join(A,f)],capture_output=True)
    if r.returncode == 0:
        open(os.path.join(V,f),'wb').write(r.stdout); print('merged clean:', f)
    else:
        open('/tmp/conflict_'+f.replace('/','_'),'wb').write(r.stdout); print('CONFLICT:', f, '-> /tmp/conflict_'+f.replace('/','_'))
