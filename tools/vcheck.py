#!/usr/bin/env python3
"""The check driver: one skeleton for all properties (DESIGN.md §7).

  extract (Gen regenerated from /repo)  ->  lake build Props.Cxx + zmodel  ->  axiom/sorry audit
  ->  cargo build harness (real ruzstd, hooks on)  ->  engines: impl vs model (correspondence)
  + implementation-only oracles  ->  verdict + evidence + replay files.

Exit codes are only 0 and 1.
"""
import fcntl, hashlib, json, os, re, shutil, subprocess, sys, time

VERIF = os.path.dirname(os.path.dirname(os.path.abspath(__file__)))
REPO = os.environ.get("VERIF_REPO", os.path.realpath(os.path.join(VERIF, "repo")))
LEAN = os.path.join(VERIF, "lean")
BUILD = os.path.join(VERIF, "build")
HARNESS = os.path.join(VERIF, "harness")
HARNESS_BIN = os.path.join(BUILD, "target", "release", "verif-harness")
ZMODEL = os.path.join(LEAN, ".lake", "build", "bin", "zmodel")
ALLOWED_AXIOMS = {"propext", "Classical.choice", "Quot.sound"}
FORBIDDEN = re.compile(r"\b(sorry|admit|native_decide|bv_decide|implemented_by)\b|^\s*axiom\s|^\s*unsafe\s|maxHeartbeats\s+0\b")

ENV = dict(os.environ)
ENV.update({"CARGO_NET_OFFLINE": "true", "CARGO_TERM_COLOR": "never"})


def sh(cmd, cwd=None, timeout=None, env=None):
    t = time.time()
    try:
        p = subprocess.run(cmd, cwd=cwd, env=env or ENV, stdout=subprocess.PIPE, stderr=subprocess.STDOUT, timeout=timeout, text=True, errors="replace")
        return p.returncode, p.stdout, time.time() - t
    except subprocess.TimeoutExpired as e:
        out = e.stdout if isinstance(e.stdout, str) else (e.stdout or b"").decode(errors="replace")
        return 124, out + "\n[timeout]", time.time() - t


class Lock:
    def __init__(self, name="build"):
        os.makedirs(BUILD, exist_ok=True)
        self.path = os.path.join(BUILD, "." + name + ".lock")

    def __enter__(self):
        self.f = open(self.path, "w")
        fcntl.flock(self.f, fcntl.LOCK_EX)
        return self

    def __exit__(self, *a):
        fcntl.flock(self.f, fcntl.LOCK_UN)
        self.f.close()


def strip_lean_comments(src):
    """Remove /- ... -/ (nested) and -- comments, keeping line structure."""
    out = []
    i, n, depth = 0, len(src), 0
    while i < n:
        if src.startswith("/-", i):
            depth += 1
            i += 2
            continue
        if depth > 0 and src.startswith("-/", i):
            depth -= 1
            i += 2
            continue
        if depth > 0:
            if src[i] == "\n":
                out.append("\n")
            i += 1
            continue
        if src.startswith("--", i):
            while i < n and src[i] != "\n":
                i += 1
            continue
        out.append(src[i])
        i += 1
    return "".join(out)


def lean_decls(path):
    """[(line, kind, fully qualified name)] of theorem/def declarations of a Lean file."""
    src = strip_lean_comments(open(path).read())
    ns = []
    out = []
    for ln, line in enumerate(src.split("\n"), 1):
        m = re.match(r"\s*namespace\s+(\S+)", line)
        if m:
            ns.append(m.group(1))
            continue
        m = re.match(r"\s*end\s+(\S+)", line)
        if m and ns and ns[-1] == m.group(1):
            ns.pop()
            continue
        m = re.match(r"\s*(?:@\[[^\]]*\]\s*)?(?:private\s+|protected\s+)?(theorem|lemma|def|abbrev|instance|example|structure|inductive)\s+([^\s:({\[]+)?", line)
        if m:
            name = m.group(2) or "example"
            out.append((ln, m.group(1), ".".join(ns + [name])))
    return out


def import_closure(module):
    """Lean files (paths) in the import closure of `module` inside the project."""
    seen, todo, files = set(), [module], []
    while todo:
        m = todo.pop()
        if m in seen:
            continue
        seen.add(m)
        p = os.path.join(LEAN, *m.split(".")) + ".lean"
        if not os.path.exists(p):
            continue
        files.append(p)
        for line in open(p):
            mm = re.match(r"\s*import\s+(Zstd\.\S+)", line)
            if mm:
                todo.append(mm.group(1))
    return files


class Check:
    def __init__(self, cfg, tier, seed, replay=None):
        self.cfg = cfg
        self.pid = cfg["id"]
        self.tier = tier
        self.seed = seed
        self.replay = replay
        self.t0 = time.time()
        self.out = os.path.join(BUILD, "out", self.pid)
        self.obligations = []  # (name, ok, detail)
        self.violations = []  # dict(kind, what, replay_text, signature)
        self.known_hits = []
        self.engine_reports = []
        self.log = []
        self.search_ran = False

    # ---------------------------------------------------------------- obligations
    def oblige(self, name, ok, detail=""):
        self.obligations.append((name, bool(ok), detail))
        if not ok:
            self.note(f"obligation BROKEN: {name}: {detail[:400]}")

    def note(self, s):
        self.log.append(s)
        print(f"[{self.pid}] {s}", flush=True)

    # ---------------------------------------------------------------- steps
    def step_extract(self):
        rc, out, dt = sh([sys.executable, os.path.join(VERIF, "tools", "extract.py")])
        try:
            res = json.loads(out.strip().split("\n")[-1])
        except Exception:
            res = {"changed": [], "errors": ["extract: crashed: " + out[-300:]]}
        for e in res["errors"]:
            self.oblige(e.split(":", 2)[0] + ":" + e.split(":", 2)[1] if e.count(":") >= 1 else e, False, e)
        self.oblige("extract: Gen regenerated from /repo working tree", not res["errors"], "; ".join(res["errors"]))
        self.gen_changed = res["changed"]
        if res["changed"]:
            self.note(f"Gen changed: {res['changed']}")

    def step_lake(self):
        mod = self.cfg["lean_module"]
        thms = [d for d in lean_decls(os.path.join(LEAN, *mod.split(".")) + ".lean") if d[1] in ("theorem", "lemma")]
        self.theorems = [t[2] for t in thms]
        rc, out, dt = sh(["lake", "build", mod], cwd=LEAN, timeout=3600)
        self.lake_s = dt
        broken = {}
        if rc != 0:
            for m in re.finditer(r"error: (\S+?\.lean):(\d+):(\d+): (.*)", out):
                f, ln, msg = m.group(1), int(m.group(2)), m.group(4)
                path = os.path.join(LEAN, f)
                name = f"{f}:{ln}"
                if os.path.exists(path):
                    prev = [d for d in lean_decls(path) if d[0] <= ln]
                    if prev:
                        name = prev[-1][2]
                broken.setdefault(name, f"{f}:{ln}: {msg}")
            if not broken:
                broken["lake build " + mod] = out[-600:]
        self.broken_decls = broken
        rel = os.path.join(*mod.split(".")) + ".lean"
        foreign = [d for d in broken.values() if not d.startswith(rel + ":")]
        for t in self.theorems:
            if t in broken:
                self.oblige("theorem " + t, False, broken[t])
            elif rc != 0 and (foreign or not any(d.startswith(rel + ":") for d in broken.values())):
                self.oblige("theorem " + t, False, "not checked: a module it depends on no longer builds (" + (foreign or list(broken.values()))[0][:200] + ")")
            else:
                self.oblige("theorem " + t, True)
        for name, detail in broken.items():
            if name not in self.theorems:
                self.oblige("lean " + name, False, detail)
        # the model driver
        rc2, out2, dt2 = sh(["lake", "build", "zmodel"], cwd=LEAN, timeout=3600)
        self.zmodel_ok = rc2 == 0 and os.path.exists(ZMODEL)
        self.oblige("zmodel (executable model) builds", self.zmodel_ok, out2[-600:] if rc2 else "")
        return rc == 0

    def step_audit(self, lake_ok):
        mod = self.cfg["lean_module"]
        files = import_closure(mod)
        bad = []
        for p in files:
            src = strip_lean_comments(open(p).read())
            for ln, line in enumerate(src.split("\n"), 1):
                if FORBIDDEN.search(line):
                    bad.append(f"{os.path.relpath(p, LEAN)}:{ln}: {line.strip()[:80]}")
        self.oblige("audit: no sorry/admit/axiom/native_decide/bv_decide/implemented_by/unsafe/maxHeartbeats 0 in import closure", not bad, "; ".join(bad[:5]))
        self.axioms = {}
        if not lake_ok or not self.theorems:
            if not self.theorems:
                self.oblige("audit: property file has theorems", False, "no theorem found in " + mod)
            return
        os.makedirs(self.out, exist_ok=True)
        audit = os.path.join(self.out, "Audit.lean")
        with open(audit, "w") as f:
            f.write(f"import {mod}\n")
            for t in self.theorems:
                f.write(f"#print axioms {t}\n")
        rc, out, dt = sh(["lake", "env", "lean", audit], cwd=LEAN, timeout=1800)
        # output: "'name' depends on axioms: [a, b]" or "'name' does not depend on any axioms"
        for m in re.finditer(r"'([^']+)' depends on axioms: \[([^\]]*)\]", out.replace("\n ", " ")):
            self.axioms[m.group(1)] = [a.strip() for a in m.group(2).split(",") if a.strip()]
        for m in re.finditer(r"'([^']+)' does not depend on any axioms", out):
            self.axioms[m.group(1)] = []
        for t in self.theorems:
            ax = self.axioms.get(t)
            if ax is None:
                self.oblige("axioms " + t, False, "no #print axioms output: " + out[-300:])
            else:
                extra = [a for a in ax if a not in ALLOWED_AXIOMS]
                self.oblige("axioms " + t, not extra, "extra axioms: " + ", ".join(extra))
        if self.tier == "thorough":
            # independent re-check of the compiled property module by the toolchain's `leanchecker` (replays every
            # declaration of the module through the kernel from the .olean, without the elaborator)
            rc, out, dt = sh(["lake", "env", "leanchecker", mod], cwd=LEAN, timeout=3600)
            self.oblige(f"leanchecker re-checks {mod}", rc == 0, out[-400:])
            self.leanchecker_s = round(dt, 1)

    def step_cargo(self):
        # cargo's fingerprints are mtime based: when the `repo` symlink is pointed at another tree whose
        # files are OLDER than the last build (e.g. back from a mutated copy to /repo) nothing would be
        # rebuilt.  Remember which tree the last build used and force a rebuild of ruzstd when it changes.
        stamp = os.path.join(BUILD, ".repo_path")
        last = open(stamp).read().strip() if os.path.exists(stamp) else None
        if last != REPO:
            sh(["cargo", "clean", "--release", "--offline", "-p", "ruzstd"], cwd=HARNESS, timeout=600)
            os.makedirs(BUILD, exist_ok=True)
            with open(stamp, "w") as f:
                f.write(REPO)
        rc, out, dt = sh(["cargo", "build", "--release", "--offline"], cwd=HARNESS, timeout=3600)
        self.harness_ok = rc == 0
        self.oblige("harness builds against /repo working tree (hooks on)", rc == 0, out[-1500:] if rc else "")
        for extra in self.cfg.get("extra_builds", []):
            rc, out, dt = sh(extra["cmd"], cwd=extra.get("cwd", HARNESS), timeout=3600)
            self.oblige(extra["name"], rc == 0, out[-1500:] if rc else "")

    # ---------------------------------------------------------------- engines
    def run_engine(self, eng, tier, seed, focus=None, tag="", max_s=None):
        """Run one harness engine and the model on the same cases; return report dict."""
        name = eng["name"]
        odir = os.path.join(self.out, name + tag)
        shutil.rmtree(odir, ignore_errors=True)
        os.makedirs(odir, exist_ok=True)
        cmd = [eng.get("bin", HARNESS_BIN), name, "--out", odir, "--seed", str(seed), "--tier", tier]
        if focus:
            cmd += ["--focus", focus]
        cmd += eng.get("args", [])
        tmo = eng.get("timeout", 3000)
        if max_s is not None:
            tmo = max(5, min(tmo, max_s))
        rc, out, dt = sh(cmd, cwd=VERIF, timeout=tmo)
        if rc == 124 and max_s is not None:
            # a search round cut off by the search box: not an obligation, just no result
            return {"engine": name, "tier": tier, "seed": seed, "harness_s": round(dt, 2), "rc": rc, "cut_by_search_box": True}
        rep = {"engine": name, "tier": tier, "seed": seed, "harness_s": round(dt, 2), "rc": rc}
        meta_p = os.path.join(odir, name + ".meta.json")
        hang_p = os.path.join(odir, name + ".hang")
        if rc == 4 and os.path.exists(hang_p):
            # the real code stopped making progress: a concrete non-termination (or extreme slowness) witness
            lines = open(hang_p).read()
            rep["hang"] = True
            self.violations.append({"kind": "implementation hangs (watchdog)", "engine": name,
                                    "what": f"engine {name}: the implementation made no progress for the watchdog period while executing the last request of this replay (never loops forever / bounded time)",
                                    "replay": lines, "signature": "hang:" + name})
            self.oblige(f"engine {name} runs to completion", False, "watchdog: no progress; see replay")
            return rep
        if rc != 0 or not os.path.exists(meta_p):
            rep["crashed"] = out[-800:]
            self.oblige(f"engine {name} runs to completion", False, f"rc={rc}: {out[-600:]}")
            return rep
        meta = json.load(open(meta_p))
        rep["meta"] = meta
        cases_p = os.path.join(odir, name + ".cases")
        impl_p = os.path.join(odir, name + ".impl")
        model_p = os.path.join(odir, name + ".model")
        rep["disagreements"] = []
        rep["compared"] = 0
        rep["distinct_nontrivial"] = measure_distinct(cases_p, impl_p) if meta["cases"] > 0 else meta.get("stats", {}).get("distinct_nontrivial", 0)
        # search rounds look for a concrete failing input with the implementation-only oracles: the model is only
        # needed there to decide conditional oracle failures
        in_search = tag.startswith(".search")
        if in_search and not meta.get("conditional_failures"):
            rep["model_skipped"] = "search round without conditional oracle failures"
        elif eng.get("model", True) and meta["cases"] > 0:
            if not self.zmodel_ok:
                rep["model_skipped"] = "zmodel did not build"
            else:
                t = time.time()
                mt = 3000 if self.tier == "thorough" else 1200
                if in_search and max_s is not None:
                    mt = max(30, min(mt, max_s - dt))
                rcm, errm = run_model_parallel(cases_p, model_p, mt)
                rep["model_s"] = round(time.time() - t, 2)

                class _P:
                    pass

                p = _P()
                p.returncode = rcm
                p.stderr = errm.encode()
                if p.returncode != 0 and in_search:
                    rep["model_skipped"] = "model run cut by the search box"
                elif p.returncode != 0:
                    self.oblige(f"model driver runs engine {name}", False, p.stderr.decode(errors="replace")[-400:])
                else:
                    rep["disagreements"], rep["compared"] = diff_streams(cases_p, impl_p, model_p)
                    # conditional oracle failures: they count only when the model disagrees on their line
                    conds = {c["line"] + 1: c for c in meta.get("conditional_failures", [])}
                    if conds:
                        keep = []
                        for d in rep["disagreements"]:
                            c = conds.get(d["line"])
                            if c:
                                meta.setdefault("oracle_failures", []).append({k: c[k] for k in ("property", "signature", "what", "replay")})
                            else:
                                keep.append(d)
                        rep["disagreements"] = keep
        return rep

    def step_engines(self):
        for eng in self.cfg.get("engines", []):
            if not self.harness_ok and not eng.get("bin"):
                continue
            rep = self.run_engine(eng, self.tier, self.seed)
            self.engine_reports.append(rep)

    # ---------------------------------------------------------------- verdict
    def relevant(self, of, engine):
        """does this oracle failure count for this property?  `also_reports` maps an engine name to the
        foreign property ids whose failures, when raised by THAT engine, are violations of this property too
        (e.g. wrong bytes on a dictionary frame are reported by the shared driver as C01/C06)."""
        if of["property"] == self.pid:
            return True
        also = self.cfg.get("also_reports") or {}
        return of["property"] in also.get(engine, [])

    def known(self):
        p = os.path.join(VERIF, "known_findings.json")
        if not os.path.exists(p):
            return []
        return [k for k in json.load(open(p)).get("findings", []) if k.get("status") == "known"]

    def collect(self):
        """Turn engine reports into violations / broken correspondences."""
        known = self.known()
        for rep in self.engine_reports:
            name = rep["engine"]
            meta = rep.get("meta")
            if not meta:
                continue
            for of in meta.get("oracle_failures", []):
                if not self.relevant(of, name):
                    continue
                k = next((k for k in known if k["property"] == self.pid and re.fullmatch(k["signature"], of["signature"])), None)
                if k:
                    if k["id"] not in [x["id"] for x in self.known_hits]:
                        self.known_hits.append(k)
                    continue
                self.violations.append({"kind": "implementation-vs-oracle", "engine": name, "what": of["what"], "replay": of["replay"], "signature": of["signature"]})
            dis = rep.get("disagreements", [])
            self.oblige(f"correspondence {name}: model = implementation on {rep.get('compared', 0)} cases", not dis,
                        "; ".join(f"{d['case']} | impl: {d['impl']} | model: {d['model']}" for d in dis[:3]))
            rep["n_disagreements"] = len(dis)

    def search(self):
        """An obligation broke but no concrete failing input is known yet: directed search with the
        implementation-only oracles (more seeds, thorough generators, focus on the break locus)."""
        self.search_ran = True
        box = 120 if self.tier == "quick" else 1500
        t_end = time.time() + box
        focus = self.break_locus()
        self.note(f"search: looking for a concrete failing input (box {box}s, focus={focus})")
        k = 0
        while time.time() < t_end:
            k += 1
            found = False
            for eng in self.cfg.get("engines", []):
                if not self.harness_ok and not eng.get("bin"):
                    continue
                left = t_end - time.time()
                if left < 5:
                    break
                rep = self.run_engine(eng, self.tier, self.seed + 7919 * k, focus=focus, tag=f".search{k}", max_s=left)
                rep["search_round"] = k
                self.engine_reports.append(rep)
                meta = rep.get("meta") or {}
                for of in meta.get("oracle_failures", []):
                    if self.relevant(of, eng["name"]):
                        found = True
            if found or k >= (6 if self.tier == "quick" else 20):
                break
        known = self.known()
        before = len(self.violations)
        for rep in self.engine_reports:
            if "search_round" not in rep:
                continue
            for of in (rep.get("meta") or {}).get("oracle_failures", []):
                if not self.relevant(of, rep["engine"]):
                    continue
                if any(k_["property"] == self.pid and re.fullmatch(k_["signature"], of["signature"]) for k_ in known):
                    continue
                if not any(v["signature"] == of["signature"] for v in self.violations):
                    self.violations.append({"kind": "implementation-vs-oracle (found by search)", "engine": rep["engine"], "what": of["what"], "replay": of["replay"], "signature": of["signature"]})
        return len(self.violations) > before

    def break_locus(self):
        for name, ok, detail in self.obligations:
            if not ok:
                return re.sub(r"[^A-Za-z0-9_.:]+", "_", name)[:80]
        return None

    def write_replay(self, v):
        d = os.path.join(VERIF, "replays", self.pid)
        os.makedirs(d, exist_ok=True)
        body = f"# property: {self.pid}\n# kind: {v['kind']}\n# what: {v['what']}\n# signature: {v.get('signature','')}\n# replay with: bin/check {self.pid} --replay <this file>\n{v['replay']}\n"
        h = hashlib.sha256(body.encode()).hexdigest()[:12]
        p = os.path.join(d, f"{h}.case")
        with open(p, "w") as f:
            f.write(body)
        return p

    def finish(self):
        broken = [(n, d) for n, ok, d in self.obligations if not ok]
        exit_code = 0
        lines = []
        for k in self.known_hits:
            lines.append(f"KNOWN-FINDING: property={self.pid} {k['what']}")
        if broken and not self.violations:
            self.search()
        if self.violations:
            seen = set()
            for v in self.violations:
                if v["signature"] in seen:
                    continue
                seen.add(v["signature"])
                p = self.write_replay(v)
                lines.append(f"VIOLATION property={self.pid} replay={p}")
                if len(seen) >= 5:
                    break
            exit_code = 1
        elif broken:
            what = "; ".join(f"{n}: {d[:300]}" for n, d in broken[:6])
            first_dis = ""
            for rep in self.engine_reports:
                for d in rep.get("disagreements", [])[:5]:
                    first_dis += f"{d['case']}\n#   impl : {d['impl']}\n#   model: {d['model']}\n"
            v = {"kind": "broken-obligation", "what": "no longer checks: " + what, "signature": "obligation",
                 "replay": "# The following proof obligations / correspondences no longer check on this tree.\n# The directed search did not find a concrete failing input.\n"
                 + "\n".join(f"# BROKEN {n}: {d[:500]}" for n, d in broken) + ("\n# first disagreeing cases:\n" + first_dis if first_dis else "")}
            p = self.write_replay(v)
            lines.append(f"VIOLATION property={self.pid} replay={p} no-failing-input-found")
            exit_code = 1
        self.write_evidence(exit_code)
        for l in lines:
            print(l, flush=True)
        print(f"[{self.pid}] {'FAIL' if exit_code else 'PASS'} obligations {sum(1 for o in self.obligations if o[1])}/{len(self.obligations)} wall {time.time()-self.t0:.1f}s", flush=True)
        return exit_code

    def write_evidence(self, exit_code):
        evals = 0
        samples = []
        eng_summ = []
        distinct = 0
        oracle_checks = 0
        for rep in self.engine_reports:
            meta = rep.get("meta") or {}
            evals += meta.get("cases", 0)
            oracle_checks += meta.get("oracle_checks", 0)
            samples += meta.get("samples", [])[:3]
            distinct += rep.get("distinct_nontrivial", 0)
            eng_summ.append({k: rep.get(k) for k in ("engine", "tier", "seed", "harness_s", "model_s", "compared", "n_disagreements", "search_round", "model_skipped") if rep.get(k) is not None}
                            | {"cases": meta.get("cases"), "oracle_checks": meta.get("oracle_checks"), "oracle_failures": len(meta.get("oracle_failures", [])), "stats": meta.get("stats"), "notes": meta.get("notes")})
        obl = [{"name": n, "ok": ok} | ({"detail": d[:300]} if d and not ok else {}) for n, ok, d in self.obligations]
        thm_samples = [f"theorem {t} (axioms: {', '.join(self.axioms.get(t, ['?'])) or 'none'})" for t in getattr(self, "theorems", [])[:40]]
        ev = {
            "property_id": self.pid,
            "tier": self.tier,
            "seed": self.seed,
            "level": "proof",
            "coverage": {
                "obligations": len(self.obligations),
                "discharged": sum(1 for o in self.obligations if o[1]),
                "checker_cmd": f"cd /verif/lean && lake build {self.cfg['lean_module']} zmodel && lake env lean <generated #print axioms file>  (driven by /verif/bin/check {self.pid})",
                "trusted_base": self.cfg.get("trusted_base", []) + [
                    "Lean 4.33.0 kernel; axioms limited to propext, Classical.choice, Quot.sound (audited per theorem on every run)",
                    "tools/extract.py (source text -> Zstd/Gen/*.lean), cross-checked by the correspondence run",
                    "correspondence harness (differential test of the hand-written model against the real code; bounded by generator quality)",
                ],
                "obligation_list": obl,
                "theorems": getattr(self, "theorems", []),
                "partial_theorems": [t for t in getattr(self, "theorems", []) if t.endswith("_partial")],
                "modelled_not_verified": self.cfg.get("modelled", ""),
                "evaluations": evals,
                "distinct_nontrivial": distinct_count(self.engine_reports),
                "rule": self.cfg.get("rule", "cases are requests generated by the harness engines (corpus, structured valid, structured malformed); distinct = distinct (request, implementation answer) lines, non-trivial = the implementation answer is not a rejection of a malformed request line"),
                "samples": (samples + thm_samples)[:60] or ["(no engine cases on this run)"],
                "oracle_checks": oracle_checks,
                "engines": eng_summ,
                "gen_changed_on_this_run": getattr(self, "gen_changed", []),
                "search_ran": self.search_ran,
                "known_findings_hit": [k["id"] for k in self.known_hits],
                "lake_build_s": round(getattr(self, "lake_s", 0), 1),
            },
            "assumptions": self.cfg.get("assumptions", []),
            "wall_s": round(time.time() - self.t0, 2),
            "violations": 0 if exit_code == 0 else max(1, len(self.violations)),
        }
        os.makedirs(os.path.join(VERIF, "evidence"), exist_ok=True)
        with open(os.path.join(VERIF, "evidence", self.pid + ".json"), "w") as f:
            json.dump(ev, f, indent=1)

    # ---------------------------------------------------------------- main
    def run(self):
        with Lock():
            self.step_extract()
            lake_ok = self.step_lake()
            self.step_audit(lake_ok)
            self.step_cargo()
        for hook in self.cfg.get("pre_engines", []):
            hook(self)
        self.step_engines()
        for hook in self.cfg.get("post_engines", []):
            hook(self)
        self.collect()
        return self.finish()


def run_model_parallel(cases_p, model_p, timeout):
    """Run zmodel on the request file, split at scenario starts (`<engine> new …` lines; stateless requests can be
    split anywhere) into up to 14 chunks that run concurrently; outputs are concatenated in order."""
    size = os.path.getsize(cases_p)
    with open(cases_p) as f:
        lines = f.readlines()
    n = len(lines)
    k = 1 if size < 300_000 or n < 16 else min(14, os.cpu_count() or 4)
    if k > 1:
        news = [i for i, l in enumerate(lines) if l.split(" ", 2)[1:2] == ["new"] or l.split(" ", 2)[1:2] == ["new\n"]]
        # allowed split points: scenario starts; and any line of an engine that never says `new` provided no stateful
        # scenario is open (conservative: only split before a `new` line, or anywhere if there is no `new` at all)
        if news:
            points = news
        else:
            points = list(range(0, n, max(1, n // (k * 4))))
        # choose k chunks of roughly equal byte size
        sizes = [len(l) for l in lines]
        total = sum(sizes)
        target = total / k
        cuts = [0]
        acc = 0
        pi = 0
        pts = [p for p in points if p > 0]
        cum = 0
        cumsum = []
        for sz in sizes:
            cumsum.append(cum)
            cum += sz
        for p_ in pts:
            if cumsum[p_] - cumsum[cuts[-1]] >= target and len(cuts) < k:
                cuts.append(p_)
        cuts.append(n)
    else:
        cuts = [0, n]
    procs = []
    tmpfiles = []
    for ci in range(len(cuts) - 1):
        a, b = cuts[ci], cuts[ci + 1]
        cp = f"{cases_p}.part{ci}"
        mp = f"{model_p}.part{ci}"
        with open(cp, "w") as f:
            f.writelines(lines[a:b])
        fi = open(cp)
        fo = open(mp, "w")
        procs.append((subprocess.Popen([ZMODEL], stdin=fi, stdout=fo, stderr=subprocess.PIPE), fi, fo))
        tmpfiles.append((cp, mp))
    rc = 0
    err = ""
    t_end = time.time() + timeout
    for pr, fi, fo in procs:
        try:
            _, e = pr.communicate(timeout=max(1, t_end - time.time()))
        except subprocess.TimeoutExpired:
            pr.kill()
            e = b"model driver timed out"
            rc = 124
        fi.close()
        fo.close()
        if pr.returncode not in (0, None) and rc == 0:
            rc = pr.returncode
            err = (e or b"").decode(errors="replace")[-400:]
        elif rc == 124:
            err = "model driver timed out"
    with open(model_p, "w") as out:
        for cp, mp in tmpfiles:
            with open(mp) as f:
                shutil.copyfileobj(f, out)
            os.remove(cp)
            os.remove(mp)
    return rc, err


def diff_streams(cases_p, impl_p, model_p, limit=50):
    dis = []
    n = 0
    with open(cases_p) as fc, open(impl_p) as fi, open(model_p) as fm:
        for c, a, b in zip(fc, fi, fm):
            n += 1
            a = a.rstrip("\n")
            b = b.rstrip("\n")
            if a == b:
                continue
            if a.split(" ", 1)[0] == "fault" and b.split(" ", 1)[0] == "fault":
                continue
            if len(dis) < limit:
                dis.append({"line": n, "case": c.rstrip("\n")[:2000], "impl": a[:2000], "model": b[:2000]})
            else:
                dis.append(None)
    n_model = sum(1 for _ in open(model_p))
    n_cases = sum(1 for _ in open(cases_p))
    if n_model != n_cases:
        dis.append({"line": min(n_model, n_cases) + 1, "case": "(stream length)", "impl": f"{n_cases} lines", "model": f"{n_model} lines"})
    return [d for d in dis if d is not None] + ([{"line": 0, "case": f"... and {sum(1 for d in dis if d is None)} more", "impl": "", "model": ""}] if any(d is None for d in dis) else []), n


def distinct_count(reports):
    return sum(rep.get("distinct_nontrivial", 0) for rep in reports)


def measure_distinct(cases_p, impl_p):
    """distinct (request, implementation answer) pairs whose answer is `ok ...` or a specific `err ...`
    (i.e. the request got past argument parsing and exercised the code)."""
    seen = set()
    with open(cases_p) as fc, open(impl_p) as fi:
        for c, a in zip(fc, fi):
            tok = a.split(" ", 1)[0].strip()
            if tok in ("ok", "err"):
                seen.add(hash((c, a)))
    return len(seen)


def replay(cfg, path):
    """Re-run the lines of a replay file on the real code and on the model and print both."""
    lines = [l.rstrip("\n") for l in open(path) if l.strip() and not l.startswith("#")]
    with Lock():
        sh([sys.executable, os.path.join(VERIF, "tools", "extract.py")])
        sh(["lake", "build", "zmodel"], cwd=LEAN)
        sh(["cargo", "build", "--release", "--offline"], cwd=HARNESS)
    odir = os.path.join(BUILD, "out", cfg["id"], "replay")
    shutil.rmtree(odir, ignore_errors=True)
    os.makedirs(odir)
    rp = os.path.join(odir, "replay.lines")
    with open(rp, "w") as f:
        f.write("\n".join(lines) + "\n")
    for l in open(path):
        if l.startswith("#"):
            print(l.rstrip())
    rc, out, dt = sh([HARNESS_BIN, "replay", "--out", odir, "--replay", rp], cwd=VERIF)
    print(out)
    meta_p = os.path.join(odir, "replay.meta.json")
    fails = 0
    if os.path.exists(meta_p):
        meta = json.load(open(meta_p))
        with open(os.path.join(odir, "replay.cases")) as fi:
            p = subprocess.run([ZMODEL], stdin=fi, stdout=subprocess.PIPE, text=True)
        model = p.stdout.split("\n")
        for c, a, b in zip(open(os.path.join(odir, "replay.cases")), open(os.path.join(odir, "replay.impl")), model):
            print(f"{c.rstrip()}\n   impl : {a.rstrip()}\n   model: {b}")
        for of in meta.get("oracle_failures", []):
            print(f"ORACLE FAILURE ({of['property']}): {of['what']}")
            fails += 1
    if fails:
        print(f"VIOLATION property={cfg['id']} replay={path}")
        return 1
    return 0
