#!/usr/bin/env python3
"""Regenerate MANIFEST.json from tools/props.py (so the two never drift)."""
import json, os, sys
sys.path.insert(0, os.path.dirname(os.path.abspath(__file__)))
import props

VERIF = os.path.dirname(os.path.dirname(os.path.abspath(__file__)))
all_ids = [json.loads(l)["id"] for l in open(os.path.join(VERIF, "properties.jsonl"))]

checks = []
for pid in all_ids:
    c = props.PROPS.get(pid)
    if not c or c.get("unclaimed"):
        continue
    checks.append({
        "property_id": pid,
        "quick_cmd": f"bin/check {pid} --tier quick",
        "thorough_cmd": f"bin/check {pid} --tier thorough",
        "evidence_file": f"/verif/evidence/{pid}.json",
        "replay_cmd_template": f"bin/check {pid} --replay {{path}}",
        "engine": ",".join(e["name"] for e in c.get("engines", [])) or "lean",
        "level_claimed": {"category": "proof", "text": c.get("level_text", ""), "design_ref": c.get("design_ref", f"DESIGN.md §8 {pid}")},
        "level_note": c.get("level_note", "Trusted: Lean 4.33.0 kernel (axioms propext, Classical.choice, Quot.sound only, audited per theorem on every run); tools/extract.py; the hand-written model is tied to the code by the differential correspondence run, which is testing, not proof."),
        "technique": c.get("technique", "Lean 4 theorems over a model regenerated (tables/constants/guards) from the source + differential correspondence of the hand-written parts"),
    })
na = []
for pid in all_ids:
    c = props.PROPS.get(pid)
    if not c or c.get("unclaimed"):
        na.append({"property_id": pid, "reason": (c or {}).get("unclaimed", "check not built yet in this session (see DESIGN.md §12 build order); nothing is claimed for it")})

man = {
    "version": 1,
    "setup_cmd": "./setup.sh",
    "hooks": {
        "guard": "verif_hooks",
        "enable": "cargo feature: the harness depends on ruzstd with features [verif_hooks, fuzz_exports, dict_builder] (harness/Cargo.toml)",
        "baseline_off_cmd": "cd /repo && cargo test --workspace --no-fail-fast --offline",
        "source_commits": props.HOOK_COMMITS,
        "add_only": True,
    },
    "engines": props.ENGINES,
    "checks": checks,
    "not_applicable": na,
    "notes": "All checks share one driver (tools/vcheck.py): extract -> lake build -> axiom audit -> cargo build harness -> correspondence + oracles -> verdict. Fix commits in /repo are listed in known_findings.json as 'fixed'.",
}
json.dump(man, open(os.path.join(VERIF, "MANIFEST.json"), "w"), indent=1)
print("checks:", [c["property_id"] for c in checks])
