#!/usr/bin/env python3
"""time every engine of every property in the thorough tier (harness + model), one line each"""
import sys, os, time, subprocess, json
sys.path.insert(0, '/verif/tools')
import vcheck, props
seen = set()
out = '/verif/build/out/timing'
os.makedirs(out, exist_ok=True)
for pid, cfg in sorted(props.PROPS.items()):
    for eng in cfg.get('engines', []):
        name = eng['name']
        if name in seen or eng.get('bin'):
            continue
        seen.add(name)
        od = os.path.join(out, name)
        subprocess.run(['rm', '-rf', od]); os.makedirs(od)
        t = time.time()
        r = subprocess.run([vcheck.HARNESS_BIN, name, '--out', od, '--seed', '1', '--tier', 'thorough'] + eng.get('args', []), cwd='/verif', capture_output=True, text=True)
        th = time.time() - t
        cases = os.path.join(od, name + '.cases')
        n = sum(1 for _ in open(cases)) if os.path.exists(cases) else 0
        tm = 0
        rc = None
        if eng.get('model', True) and n:
            t = time.time()
            rc, err = vcheck.run_model_parallel(cases, os.path.join(od, name + '.model'), 6000)
            tm = time.time() - t
        print(f'{name:14s} harness {th:8.1f}s rc={r.returncode} cases={n:8d} model {tm:8.1f}s rc={rc} size={os.path.getsize(cases) if n else 0}', flush=True)
