#!/bin/bash
# tools/seed_confirm2.sh <worktree> <n> <seed-id> <property>: like seed_confirm.sh, for demonstrations with their own command
# (meta.json "demo_command" for a Rust test with a feature set, or out/<n>/demo.sh for the command line tool)
set -u
WT=$1; N=$2; ID=$3; PROP=$4
OUT=$WT/out/$N
cd $WT || exit 1
git checkout -q -- . ; rm -rf ruzstd/tests
run_demo() {
  if [ -f $OUT/demo.sh ]; then sh $OUT/demo.sh > /tmp/demo.$$.log 2>&1; rc=$?; tail -2 /tmp/demo.$$.log | cut -c1-160; rm -f /tmp/demo.$$.log; echo "demo.sh exit $rc";
  else mkdir -p ruzstd/tests; cp $OUT/demo.rs ruzstd/tests/demo.rs; CMD=$(python3 -c "import json;print(json.load(open('$OUT/meta.json')).get('demo_command','cargo test --offline -p ruzstd --test demo'))"); $CMD 2>&1 | grep -E "^test result|error\[" | head -3; rm -rf ruzstd/tests; fi
}
echo "== demo WITHOUT patch (must pass)"; run_demo
git apply $OUT/patch.diff || { echo "patch does not apply"; exit 1; }
echo "== demo WITH patch (must fail)"; run_demo
echo "== test suite WITH patch (must pass)"
cargo test --workspace --no-fail-fast --offline 2>&1 | grep -E "^test result|FAILED" | head -5
git checkout -q -- .
mkdir -p /verif/seeded/$ID
cp $OUT/patch.diff /verif/seeded/$ID/
[ -f $OUT/demo.rs ] && cp $OUT/demo.rs /verif/seeded/$ID/
[ -f $OUT/demo.sh ] && cp $OUT/demo.sh /verif/seeded/$ID/
python3 - <<PY
import json
m=json.load(open("$OUT/meta.json"))
m["property"]="$PROP"
m["origin"]="written by a fresh sub-agent that was given only the property text and a scratch worktree"
json.dump(m,open("/verif/seeded/$ID/meta.json","w"),indent=1)
PY
echo "filed /verif/seeded/$ID"
