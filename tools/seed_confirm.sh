#!/bin/bash
# tools/seed_confirm.sh <worktree> <n> <seed-id> <property>
# Confirms a seeded change (patch + demo) in its scratch worktree and files it under /verif/seeded/<seed-id>/.
set -u
WT=$1; N=$2; ID=$3; PROP=$4
OUT=$WT/out/$N
cd $WT || exit 1
git checkout -q -- . ; rm -f ruzstd/tests/demo.rs
mkdir -p ruzstd/tests
cp $OUT/demo.rs ruzstd/tests/demo.rs
echo "== demo WITHOUT patch (must pass)"
cargo test --offline -p ruzstd --test demo 2>&1 | grep -E "^test result|error" | head -3
R0=${PIPESTATUS[0]}
git apply $OUT/patch.diff || { echo "patch does not apply"; exit 1; }
echo "== demo WITH patch (must fail)"
cargo test --offline -p ruzstd --test demo 2>&1 | grep -E "^test result|error\[" | head -4
rm -f ruzstd/tests/demo.rs; rmdir ruzstd/tests 2>/dev/null
echo "== test suite WITH patch (must pass)"
cargo test --workspace --no-fail-fast --offline 2>&1 | grep -E "^test result|FAILED" | head -5
git checkout -q -- .
mkdir -p /verif/seeded/$ID
cp $OUT/patch.diff $OUT/demo.rs /verif/seeded/$ID/
python3 - <<PY
import json
m=json.load(open("$OUT/meta.json"))
m["property"]="$PROP"
m["origin"]="written by a fresh sub-agent that was given only the property text and a scratch worktree"
json.dump(m,open("/verif/seeded/$ID/meta.json","w"),indent=1)
PY
echo "filed /verif/seeded/$ID"
