#!/usr/bin/env python3
"""C18 engine wrapper: runs the `io` engine of the harness in its four feature variants
{std, no_std} x {hash, no hash} (separate target dirs under build/), on the same seed, and

  * concatenates the helper-level cases of all four builds into io.cases / io.impl, so that the check
    driver compares every one of them with the Lean model (std builds: the real std::io against the
    Spec; no_std builds: io_nostd against the same Spec),
  * compares every codec-level digest line across the builds (`all`: the four builds must agree;
    `hash`: builds with the same hash setting must agree),
  * asks the model to predict the frame of the no-hash build from the frame of the hash build
    (`io hashoff <frame>`), for every small frame, in the std and in the no_std pair.

Invoked by tools/vcheck.py like a harness engine:  io_variants.py io --out DIR --seed N --tier T
"""
import json, os, random, shutil, subprocess, sys

def _find_zstd():
    """the reference `zstd` command line tool: on PATH, or in the places this sandbox is known to keep it"""
    import shutil as _sh
    p = _sh.which("zstd")
    if p:
        return p
    for c in ("/root/miniconda/bin/zstd", "/usr/bin/zstd", "/usr/local/bin/zstd", "/opt/conda/bin/zstd", "/venv/bin/zstd"):
        if os.path.exists(c):
            return c
    return "zstd"


ZSTD = _find_zstd()

VERIF = os.path.dirname(os.path.dirname(os.path.abspath(__file__)))
BUILD = os.path.join(VERIF, "build")
HARNESS = os.path.join(VERIF, "harness")
VARIANTS = [("std-hash", "std hash"), ("std-nohash", "std"), ("nostd-hash", "hash"), ("nostd-nohash", "")]


def variant_bin(name):
    return os.path.join(BUILD, "io-" + name, "release", "verif-harness")


def build_cmds():
    """extra_builds entries for tools/props.py"""
    out = []
    for name, feats in VARIANTS:
        out.append({
            "name": f"harness variant {name} builds (ruzstd features: {feats or 'none'})",
            "cmd": ["cargo", "build", "--release", "--offline", "--no-default-features", "--features", feats, "--target-dir", os.path.join(BUILD, "io-" + name)],
            "cwd": HARNESS,
        })
    return out


def make_reference_frames(d, seed, thorough):
    """frames from the reference `zstd` CLI: identical input for all four builds"""
    shutil.rmtree(d, ignore_errors=True)
    os.makedirs(d)
    rnd = random.Random(seed)
    words = [b"lorem ", b"ipsum ", b"dolor ", b"sit ", b"amet, ", b"consectetur ", b"0123456789", b"\n"]
    plans = [
        ("empty", 0, "text", ["-3"]),
        ("one", 1, "rand", ["-1"]),
        ("t35", 35, "text", ["-3", "--no-check"]),
        ("t4k", 4096, "text", ["-19"]),
        ("r4k", 4000, "rand", ["-1", "--no-check"]),
        ("t128k", 131072, "text", ["-3"]),
        ("m300k", 300000, "mixed", ["-5"]),
        ("m300k_nocheck", 300000, "mixed", ["-1", "--no-check"]),
        ("rle70k", 70000, "rle", ["-3"]),
    ]
    if thorough:
        plans += [("t1m", 1 << 20, "text", ["-9"]), ("m1m_long", 1 << 20, "mixed", ["-3", "--long=20"]), ("m600k_l19", 600000, "mixed", ["-19"])]
    n = 0
    for name, size, kind, opts in plans:
        if kind == "rand":
            data = bytes(rnd.getrandbits(8) for _ in range(size))
        elif kind == "rle":
            data = bytes([rnd.getrandbits(8)]) * size
        else:
            buf = bytearray()
            while len(buf) < size:
                if kind == "mixed" and rnd.random() < 0.2:
                    buf += bytes(rnd.getrandbits(8) for _ in range(rnd.randint(1, 400)))
                else:
                    buf += rnd.choice(words)
            data = bytes(buf[:size])
        raw = os.path.join(d, name + ".raw")
        with open(raw, "wb") as f:
            f.write(data)
        p = subprocess.run([ZSTD, "-q", "-f"] + opts + [raw, "-o", os.path.join(d, name + ".zst")], stdout=subprocess.PIPE, stderr=subprocess.STDOUT)
        if p.returncode == 0:
            n += 1
        else:
            os.remove(raw)
    # a trained dictionary and frames that need it (decoded by ONE reused decoder between the other frames)
    sd = os.path.join(d, "samples")
    os.makedirs(sd)
    for k in range(300):
        buf = bytearray()
        while len(buf) < 600:
            buf += rnd.choice(words) if rnd.random() < 0.85 else bytes(rnd.getrandbits(8) for _ in range(rnd.randint(1, 12)))
        with open(os.path.join(sd, f"s{k:03d}"), "wb") as f:
            f.write(bytes(buf))
    dpath = os.path.join(d, "reference.dict")
    p = subprocess.run([ZSTD, "-q", "--train", "--maxdict=4096"] + sorted(os.path.join(sd, x) for x in os.listdir(sd)) + ["-o", dpath], stdout=subprocess.PIPE, stderr=subprocess.STDOUT)
    if p.returncode == 0 and os.path.exists(dpath):
        for name, size in (("dict_small", 500), ("dict_3k", 3000)):
            buf = bytearray()
            while len(buf) < size:
                buf += rnd.choice(words)
            raw = os.path.join(d, name + ".raw")
            with open(raw, "wb") as f:
                f.write(bytes(buf[:size]))
            q = subprocess.run([ZSTD, "-q", "-f", "-3", "-D", dpath, raw, "-o", os.path.join(d, name + ".zst")], stdout=subprocess.PIPE, stderr=subprocess.STDOUT)
            if q.returncode == 0:
                n += 1
            else:
                os.remove(raw)
    shutil.rmtree(sd, ignore_errors=True)
    return n


def main():
    a = sys.argv[1:]
    out, seed, tier = "out", 1, "quick"
    i = 1
    while i < len(a):
        if a[i] == "--out":
            out = a[i + 1]
        elif a[i] == "--seed":
            seed = int(a[i + 1])
        elif a[i] == "--tier":
            tier = a[i + 1]
        elif a[i] == "--focus":
            pass
        i += 2
    os.makedirs(out, exist_ok=True)
    frames_dir = os.path.join(out, "refframes")
    n_ref = make_reference_frames(frames_dir, seed, tier == "thorough")
    env = dict(os.environ)
    env["VERIF_IO_FRAMES"] = frames_dir
    failures = []
    stats = {}
    notes = [f"{n_ref} reference frames from the zstd CLI"]
    samples = []
    cases, impl = [], []
    digests = {}
    frames = {}
    helper = {}
    oracle_checks = 0

    def fail(sig, what, replay):
        if len(failures) < 50:
            failures.append({"property": "C18", "signature": sig, "what": what, "replay": replay})

    procs = {}
    for name, _ in VARIANTS:
        b = variant_bin(name)
        if not os.path.exists(b):
            fail("variant_missing", f"variant {name} was not built ({b})", f"# build the variant: {name}")
            continue
        vdir = os.path.join(out, name)
        shutil.rmtree(vdir, ignore_errors=True)
        procs[name] = (vdir, subprocess.Popen([b, "io", "--out", vdir, "--seed", str(seed), "--tier", tier], env=env, cwd=VERIF, stdout=subprocess.PIPE, stderr=subprocess.STDOUT, text=True))
    for name, (vdir, p) in procs.items():
        try:
            o, _ = p.communicate(timeout=3000)
        except subprocess.TimeoutExpired:
            p.kill()
            o = "[timeout]"
        if p.returncode != 0 or not os.path.exists(os.path.join(vdir, "io.meta.json")):
            fail("variant_crashed", f"variant {name}: engine did not complete (rc={p.returncode}): {o[-300:]}", f"# {name}")
            continue
        meta = json.load(open(os.path.join(vdir, "io.meta.json")))
        oracle_checks += meta.get("oracle_checks", 0)
        for k, v in meta.get("stats", {}).items():
            stats[f"{name}:{k}"] = v
        for of in meta.get("oracle_failures", []):
            of["what"] = f"[{name}] " + of["what"]
            of["replay"] = f"# variant {name}\n" + of["replay"]
            failures.append(of)
        samples += [f"[{name}] {s}" for s in meta.get("samples", [])[:2]]
        c = open(os.path.join(vdir, "io.cases")).read().split("\n")[:-1]
        m = open(os.path.join(vdir, "io.impl")).read().split("\n")[:-1]
        cases += c
        impl += m
        helper[name] = list(zip(c, m))
        stats[f"{name}:helper_cases"] = len(c)
        digests[name] = {}
        for line in open(os.path.join(vdir, "io.digests")):
            line = line.rstrip("\n")
            if not line:
                continue
            scope, cid, rest = line.split(" ", 2)
            digests[name][(scope, cid + " " + rest.split(" ", 1)[0] if rest.startswith(("vec", "frag")) else cid)] = rest
        frames[name] = dict(l.rstrip("\n").split(" ", 1) for l in open(os.path.join(vdir, "io.frames")) if " " in l)

    # ---- the helper-level cases of the four builds must be the same requests, and the answers equal
    names = [n for n, _ in VARIANTS if n in digests]
    # ---- cross-build comparison of every codec-level line
    compared = 0
    if names:
        ref = names[0]
        for other in names[1:]:
            same_hash = ref.split("-")[1] == other.split("-")[1]
            keys = set(digests[ref]) | set(digests[other])
            for k in sorted(keys):
                scope = k[0]
                if scope == "hash" and not same_hash:
                    continue
                compared += 1
                x, y = digests[ref].get(k), digests[other].get(k)
                if x != y:
                    fail("cross_build_mismatch", f"{k[1]}: {ref} -> {x!r:.200} but {other} -> {y!r:.200}", f"# case {k[1]} (scope {scope}), seed {seed}, tier {tier}\n# {ref}: {x}\n# {other}: {y}")
        # pairs with the same hash setting that are not the reference: std-nohash vs nostd-nohash
        for x_name in names:
            for y_name in names:
                if x_name < y_name and ref not in (x_name, y_name) and x_name.split("-")[1] == y_name.split("-")[1]:
                    for k in sorted(set(digests[x_name]) | set(digests[y_name])):
                        if k[0] != "hash":
                            continue
                        compared += 1
                        x, y = digests[x_name].get(k), digests[y_name].get(k)
                        if x != y:
                            fail("cross_build_mismatch", f"{k[1]}: {x_name} -> {x!r:.200} but {y_name} -> {y!r:.200}", f"# case {k[1]}, seed {seed}, tier {tier}\n# {x_name}: {x}\n# {y_name}: {y}")
    oracle_checks += compared
    stats["cross_build_lines_compared"] = compared
    # ---- helper level, build against build: what `ruzstd::io` answers in a no_std build must be what the
    # real std::io answers in the std build, request by request (the one documented exception:
    # `read_to_end` with an `Interrupted` in the script, theorem nostd_read_to_end_interrupted_differs)
    n_h = 0
    for hs in ("hash", "nohash"):
        a, b = helper.get("std-" + hs), helper.get("nostd-" + hs)
        if not a or not b:
            continue
        for (ca, ma), (cb, mb) in zip(a, b):
            if ca.replace(" std_", " ", 1) != cb:
                fail("helper_case_streams_differ", f"std-{hs} and nostd-{hs} generated different helper cases: {ca!r:.120} vs {cb!r:.120}", "# same seed must give the same requests")
                break
            if " read_to_end " in cb and ("i," in cb.split(" ")[2] + "," ):
                continue
            n_h += 1
            if ma != mb:
                fail("io_helper_differs_from_std", f"`{cb}`: std::io answers `{ma:.160}`, io_nostd answers `{mb:.160}`", cb)
    oracle_checks += n_h
    stats["helper_answers_compared_std_vs_nostd"] = n_h
    # ---- the model's prediction of the no-hash frame from the hash frame
    n_rel = 0
    for fam in ("std", "nostd"):
        h, nh = frames.get(fam + "-hash"), frames.get(fam + "-nohash")
        if h is None or nh is None:
            continue
        for cid, fh in h.items():
            if cid in nh:
                cases.append(f"io hashoff {fh}")
                impl.append(f"ok {nh[cid]}")
                n_rel += 1
    stats["hash_relation_cases"] = n_rel
    if names and n_rel == 0:
        fail("no_hash_relation_cases", "no frame pair (hash build, no-hash build) to compare", "# io.frames empty")
    with open(os.path.join(out, "io.cases"), "w") as f:
        f.write("".join(c + "\n" for c in cases))
    with open(os.path.join(out, "io.impl"), "w") as f:
        f.write("".join(c + "\n" for c in impl))
    meta = {"engine": "io", "cases": len(cases), "oracle_checks": oracle_checks, "stats": stats, "samples": samples[:8], "notes": notes, "oracle_failures": failures}
    with open(os.path.join(out, "io.meta.json"), "w") as f:
        json.dump(meta, f, indent=1)
    print(f"io cases={len(cases)} oracle_checks={oracle_checks} oracle_failures={len(failures)}")
    return 0


if __name__ == "__main__":
    sys.exit(main())
