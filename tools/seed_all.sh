#!/bin/bash
# tools/seed_all.sh [ids...]: every filed seeded change against the check of ITS property; one summary line each
cd /verif
IDS=${@:-$(ls seeded | sort -V)}
for ID in $IDS; do
  P=$(python3 -c "import json;print(json.load(open('/verif/seeded/$ID/meta.json')).get('property','${ID%%-*}'))")
  git -C /repo apply /verif/seeded/$ID/patch.diff 2>/dev/null || { echo "$ID $P PATCH-DOES-NOT-APPLY"; continue; }
  OUT=$(/verif/bin/check $P 2>&1)
  git -C /repo checkout -- .
  V=$(echo "$OUT" | grep -c "^VIOLATION")
  N=$(echo "$OUT" | grep "^VIOLATION" | grep -c "no-failing-input-found")
  L=$(echo "$OUT" | grep -E "PASS|FAIL" | tail -1)
  if [ "$V" = 0 ]; then R="MISSED"; elif [ "$N" = "$V" ]; then R="broken-obligation-only"; else R="concrete"; fi
  echo "$ID $P $R | $L"
done
python3 /verif/tools/extract.py >/dev/null 2>&1
(cd /verif/harness && cargo build --release --offline -q 2>/dev/null)
