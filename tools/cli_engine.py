#!/usr/bin/env python3
"""C19 engine: drives the built `ruzstd-cli` binary (built from the CURRENT tree into
build/cli-target by the check) in a scratch directory under build/ (removed afterwards).

  file contents (sizes 0, 1, 35, 128 KiB - 1, 128 KiB, 128 KiB + 1, 1 MiB; seeded; mixed compressibility)
    x level option {absent, 0, 1, 2, 9} x {explicit, defaulted} output path
  + failure cases: missing input, output not creatable, level out of range, no subcommand,
    decompress of a corrupt / truncated / missing archive, decompress with defaulted output = input.

Observed: exit status, panic marker on stderr, files present, bytes.
Oracles (implementation only): exit 0 => the reference `zstd -d` accepts the output and restores the
original, and `ruzstd-cli decompress` restores it too; a run that fails must not panic and must not
leave an output file; a failing decompress must not destroy its input.
Model: `cli compress|decompress|nocommand|stem|addext ...` lines, answered by zmodel (exit class, files).

Invoked by tools/vcheck.py like a harness engine:  cli_engine.py cli --out DIR --seed N --tier T
"""
import json, os, random, shutil, subprocess, sys

def _find_zstd():
    """the reference `zstd` command line tool: on PATH, or in the places this sandbox is known to keep it"""
    import shutil as _sh
    p = _sh.which("zstd")
    if p:
        return p
    for c in ("/root/miniconda/bin/zstd", "/usr/bin/zstd", "/usr/local/bin/zstd", "/opt/conda/bin/zstd", "/venv/bin/zstd"):
        if os.path.exists(c):
            return c
    return "zstd"


ZSTD = _find_zstd()

VERIF = os.path.dirname(os.path.dirname(os.path.abspath(__file__)))
BUILD = os.path.join(VERIF, "build")
REPO = os.environ.get("VERIF_REPO", os.path.realpath(os.path.join(VERIF, "repo")))
CLI = os.path.join(BUILD, "cli-target", "release", "ruzstd-cli")


def build_cmds():
    return [{
        "name": "ruzstd-cli builds from the /repo working tree",
        "cmd": ["cargo", "build", "--release", "--offline", "-p", "ruzstd-cli", "--target-dir", os.path.join(BUILD, "cli-target")],
        "cwd": REPO,
    }]


def content(rnd, size, kind):
    if size == 0:
        return b""
    if kind == 0:
        return bytes(rnd.getrandbits(8) for _ in range(min(size, 4096))) * (size // 4096 + 1)
    if kind == 1:
        return rnd.randbytes(size)
    if kind == 2:
        words = [b"the ", b"quick ", b"brown ", b"fox ", b"jumps ", b"over ", b"the lazy dog\n", b"0123456789 "]
        buf = bytearray()
        while len(buf) < size:
            buf += rnd.choice(words)
        return bytes(buf)
    buf = bytearray()
    while len(buf) < size:
        if rnd.random() < 0.5:
            buf += bytes([rnd.getrandbits(8)]) * rnd.randint(1, 2000)
        else:
            buf += rnd.randbytes(rnd.randint(1, 300))
    return bytes(buf)


def exit_class(rc):
    return {0: "ok", 1: "error", 2: "usage", 101: "panic"}.get(rc, f"other{rc}")


class Engine:
    def __init__(self, out, seed, tier):
        self.out, self.seed, self.tier = out, seed, tier
        self.cases, self.impl = [], []
        self.failures, self.stats, self.samples, self.notes = [], {}, [], []
        self.oracle_checks = 0
        self.work = os.path.join(BUILD, f"cli-work-{os.getpid()}")
        self.env = dict(os.environ)
        self.env.pop("RUST_BACKTRACE", None)
        self.env["NO_COLOR"] = "1"
        self.n = 0

    def stat(self, k, n=1):
        self.stats[k] = self.stats.get(k, 0) + n

    def fail(self, sig, what, replay):
        self.stat("oracle_failure:" + sig)
        # at most two witnesses per signature, so that a frequent failure cannot crowd out a different one
        if sum(1 for f in self.failures if f["signature"] == sig) < 2 and len(self.failures) < 60:
            self.failures.append({"property": "C19", "signature": sig, "what": what, "replay": replay})

    def case(self, line, answer):
        self.cases.append(line)
        self.impl.append(answer)

    def run(self, args, cwd):
        p = subprocess.run([CLI] + args, cwd=cwd, env=self.env, stdout=subprocess.PIPE, stderr=subprocess.PIPE, timeout=600)
        err = p.stderr.decode(errors="replace")
        return p.returncode, ("panicked at" in err), err

    def fresh(self):
        self.n += 1
        d = os.path.join(self.work, f"c{self.n}")
        os.makedirs(d)
        return d

    def zstd_restores(self, path, original):
        p = subprocess.run([ZSTD, "-d", "-q", "-c", path], stdout=subprocess.PIPE, stderr=subprocess.PIPE)
        return p.returncode == 0 and p.stdout == original

    # ------------------------------------------------------------------ compress (+ round trip)
    def compress_case(self, data, size_name, level, explicit, input_exists=True, creatable=True, preexisting=False):
        d = self.fresh()
        name = "input.bin"
        if input_exists:
            with open(os.path.join(d, name), "wb") as f:
                f.write(data)
        if not creatable:
            out_rel = os.path.join("no-such-dir", "out.zst")
            explicit = True
        else:
            out_rel = "explicit-out.zst" if explicit else name + ".zst"
        if preexisting and creatable:
            # the output path already holds a LONGER file (an older archive): it must be replaced, not overwritten in place
            with open(os.path.join(d, out_rel), "wb") as f:
                f.write(b"older archive contents " * (len(data) // 8 + 200))
            size_name += "/output-preexists"
        args = ["compress", name] + ([out_rel] if explicit else []) + ([] if level is None else ["--level", str(level)])
        rc, panicked, err = self.run(args, d)
        ex = exit_class(rc)
        out_path = os.path.join(d, out_rel)
        exists = os.path.exists(out_path)
        others = sorted(x for x in os.listdir(d) if x not in (name, out_rel, "no-such-dir"))
        lvl = "-" if level is None else str(level)
        replay = f"# cd <scratch>; head -c {len(data)} <seeded content {size_name}> > {name}; ruzstd-cli {' '.join(args)}\n# exit status {rc}, panic marker {panicked}, output present {exists}" + (f" ({os.path.getsize(out_path)} bytes)" if exists else "")
        self.stat(f"compress:level={lvl}:exit={ex}")
        self.oracle_checks += 1
        if others:
            self.fail("cli_unexpected_files", f"compress {args}: unexpected files {others}", replay)
        if (ex == "panic") != panicked:
            self.fail("cli_panic_marker_vs_status", f"compress {args}: exit {rc} but panic marker {panicked}", replay)
        complete = False
        if exists:
            self.oracle_checks += 1
            complete = self.zstd_restores(out_path, data)
        state = "none" if not exists else ("complete" if complete else "incomplete")
        if ex == "ok":
            # the property: the reference decoder accepts the file and restores the original ...
            if not complete:
                self.fail("cli_output_not_restored_by_zstd", f"compress {args} ({size_name}): exit 0 but `zstd -d` does not restore the input (output {'missing' if not exists else 'present'})", replay)
            else:
                # ... and so does the tool itself, with explicit and with defaulted output path
                for dexplicit in (True, False):
                    self.oracle_checks += 1
                    dd = self.fresh()
                    arch = os.path.basename(out_rel)
                    shutil.copy(out_path, os.path.join(dd, arch))
                    dargs = ["decompress", arch] + (["restored.bin"] if dexplicit else [])
                    rc2, p2, _ = self.run(dargs, dd)
                    target = "restored.bin" if dexplicit else os.path.splitext(arch)[0]
                    tp = os.path.join(dd, target)
                    ok = rc2 == 0 and os.path.exists(tp) and open(tp, "rb").read() == data
                    self.stat(f"decompress:{'explicit' if dexplicit else 'default'}:{'restored' if ok else 'FAILED'}")
                    if not ok:
                        self.fail("cli_roundtrip_differs", f"decompress {dargs} after compress {args} ({size_name}): exit {rc2}, restored={os.path.exists(tp)}", replay + f"\n# then: ruzstd-cli {' '.join(dargs)}")
                    if not dexplicit:
                        # the model's default-name derivation
                        self.case(f"cli stem {arch}", f"ok {target}" if os.path.exists(tp) else "ok ?")
                    if dexplicit and len(self.cases) % 7 == 0:
                        self.case("cli decompress 1 1 1 0", f"exit={exit_class(rc2)} out={'complete' if ok else ('incomplete' if os.path.exists(tp) else 'none')} input=kept")
        elif level in (None, 0, 1) and input_exists and creatable and ex != "panic":
            # the property: compress works at every implemented level and when no level is given
            self.fail(f"cli_compress_refused:level={'absent' if level is None else level}", f"compress {args} ({size_name}): exit status {rc} although the input exists, the output can be created and the level is {'absent' if level is None else 'an implemented one'}", replay)
            if exists:
                self.fail(f"cli_failure_leaves_output:level={'absent' if level is None else level}:out={state}", f"compress {args}: failed and left an output file", replay)
        else:
            # the property: failure is reported by the exit status, not by a panic, and nothing that looks like a result is left
            if ex == "panic" or panicked or exists:
                what = f"compress {args} ({size_name}): exit status {rc}" + (", panicked" if panicked else "") + (f", output file left behind ({os.path.getsize(out_path)} bytes)" if exists else "")
                lv = "absent" if level is None else str(level)
                if ex == "panic":
                    sig = f"F6:compress_panic:level={lv}:out={state}"
                else:
                    sig = f"cli_failure_leaves_output:level={lv}:out={state}"
                self.fail(sig, what, replay)
        if not explicit and input_exists:
            self.case(f"cli addext {name}", f"ok {name}.zst" if (exists or ex != "ok") else "ok ?")
        self.case(f"cli compress {lvl} {int(input_exists)} {int(len(data) == 0)} {int(creatable)}", f"exit={ex} out={state}")
        if len(self.samples) < 5 and (self.n % 13 == 1):
            self.samples.append(f"ruzstd-cli {' '.join(args)} [{size_name}] => exit={ex} out={state}")

    # ------------------------------------------------------------------ decompress failure cases
    def decompress_case(self, kind, rnd):
        d = self.fresh()
        good = os.path.join(d, "good.zst")
        data = content(rnd, 5000, 2)
        with open(os.path.join(d, "plain"), "wb") as f:
            f.write(data)
        subprocess.run([ZSTD, "-q", "-f", os.path.join(d, "plain"), "-o", good], check=True)
        frame = open(good, "rb").read()
        os.remove(os.path.join(d, "plain"))
        exists, valid, same, creatable = 1, 1, 0, 1
        arch = "arch.zst"
        args = ["decompress", arch, "out.bin"]
        if kind == "missing":
            exists, valid = 0, 0
        elif kind == "corrupt_magic":
            valid = 0
            open(os.path.join(d, arch), "wb").write(b"hello world, not a frame")
        elif kind == "truncated":
            valid = 0
            open(os.path.join(d, arch), "wb").write(frame[: len(frame) // 2])
        elif kind in ("truncated_head", "truncated_tail1", "truncated_tail4"):
            valid = 0
            cut = {"truncated_head": 12, "truncated_tail1": len(frame) - 1, "truncated_tail4": len(frame) - 4}[kind]
            open(os.path.join(d, arch), "wb").write(frame[:cut])
        elif kind == "bad_block":
            valid = 0
            b = bytearray(frame)
            b[len(b) // 2] ^= 0xFF
            b[len(b) // 2 + 1] ^= 0xFF
            open(os.path.join(d, arch), "wb").write(bytes(b))
        elif kind == "uncreatable":
            creatable = 0
            shutil.copy(good, os.path.join(d, arch))
            args = ["decompress", arch, os.path.join("no-such-dir", "out.bin")]
        elif kind == "same_default":
            # an archive without extension: the defaulted output name IS the input name
            arch = "archive"
            same = 1
            shutil.copy(good, os.path.join(d, arch))
            args = ["decompress", arch]
        elif kind == "same_explicit":
            same = 1
            shutil.copy(good, os.path.join(d, arch))
            args = ["decompress", arch, arch]
        elif kind == "good":
            shutil.copy(good, os.path.join(d, arch))
        os.remove(good)
        before = open(os.path.join(d, arch), "rb").read() if os.path.exists(os.path.join(d, arch)) else None
        rc, panicked, err = self.run(args, d)
        ex = exit_class(rc)
        outp = os.path.join(d, args[2] if len(args) > 2 else arch)
        after = open(os.path.join(d, arch), "rb").read() if os.path.exists(os.path.join(d, arch)) else None
        destroyed = before is not None and after != before
        if same:
            out_state = "incomplete" if destroyed else "none"
        else:
            out_state = "none" if not os.path.exists(outp) else ("complete" if open(outp, "rb").read() == data else "incomplete")
        replay = f"# decompress case `{kind}`: ruzstd-cli {' '.join(args)}\n# exit status {rc}, panic marker {panicked}, input {'DESTROYED' if destroyed else 'kept'}, output {out_state}"
        self.stat(f"decompress:{kind}:exit={ex}")
        self.oracle_checks += 2
        if ex == "panic" or panicked:
            self.fail(f"cli_decompress_panic:{kind}", f"decompress ({kind}): exit status {rc}, panicked", replay)
        if destroyed:
            self.fail(f"cli_decompress_clobbers_input:{kind}", f"decompress ({kind}) `{' '.join(args)}`: exit status {rc}; the input archive ({len(before)} bytes) was truncated to {len(after) if after is not None else 0} bytes — the output path equals the input path and `File::create` runs before anything is read", replay)
        # "when an operation cannot be carried out the tool reports failure through its exit status": an archive that is
        # missing, is not a frame, or stops before its end cannot be decompressed
        if (kind in ("missing", "corrupt_magic") or kind.startswith("truncated")) and ex == "ok":
            self.fail(f"cli_decompress_success_on_unusable_archive:{kind}", f"decompress ({kind}) `{' '.join(args)}`: exit status 0 although the archive cannot be decompressed (output: {out_state})", replay)
        if kind == "good" and (ex != "ok" or out_state != "complete"):
            self.fail("cli_decompress_reference_frame", f"decompress of a frame written by the reference zstd: exit {rc}, output {out_state}", replay)
        self.case(f"cli decompress {exists} {valid} {creatable} {same}", f"exit={ex} out={out_state} input={'destroyed' if destroyed else 'kept'}")
        if kind == "same_default":
            self.case(f"cli stem {arch}", f"ok {arch}")

    def main(self):
        rnd = random.Random(self.seed)
        shutil.rmtree(self.work, ignore_errors=True)
        os.makedirs(self.work)
        try:
            if not os.path.exists(CLI):
                self.fail("cli_not_built", f"{CLI} does not exist", "# cargo build -p ruzstd-cli failed?")
                return
            sizes = [(0, "0"), (1, "1"), (35, "35"), (131071, "128KiB-1"), (131072, "128KiB"), (131073, "128KiB+1"), (1 << 20, "1MiB")]
            if self.tier == "thorough":
                sizes += [(2, "2"), (1000, "1000"), (65536, "64KiB"), (262144, "256KiB"), (262145, "256KiB+1"), (3 << 20, "3MiB")]
            kinds = [1, 2] if self.tier != "thorough" else [0, 1, 2, 3]
            for size, sname in sizes:
                for k in kinds:
                    if size <= 1 and k != kinds[0]:
                        continue
                    data = content(rnd, size, k)[:size]
                    for level in (None, 0, 1, 2, 9):
                        for explicit in (True, False):
                            self.compress_case(data, f"{sname}/kind{k}", level, explicit)
                    if self.tier == "thorough":
                        for level in (3, 4, 5, 255):
                            self.compress_case(data, f"{sname}/kind{k}", level, False)
            small = content(rnd, 3000, 2)
            for level in (None, 0, 1, 2, 3, 4, 5, 9, 255, 256, 300):
                self.compress_case(small, "3000/kind2", level, False)
            for level in (None, 0, 1):
                for explicit in (True, False):
                    self.compress_case(small, "3000/kind2", level, explicit, preexisting=True)
            self.compress_case(content(rnd, 200000, 1), "200000/kind1", None, True, preexisting=True)
            for level in (None, 1, 2, 9):
                self.compress_case(small, "3000/kind2", level, False, input_exists=False)
                self.compress_case(small, "3000/kind2", level, True, creatable=False)
            for kind in ("good", "missing", "corrupt_magic", "truncated", "truncated_head", "truncated_tail1", "truncated_tail4", "bad_block", "uncreatable", "same_default", "same_explicit"):
                self.decompress_case(kind, rnd)
            # compress onto the input path itself
            d = self.fresh()
            data = content(rnd, 4000, 2)
            open(os.path.join(d, "same.bin"), "wb").write(data)
            rc, panicked, _ = self.run(["compress", "same.bin", "same.bin", "--level", "1"], d)
            after = open(os.path.join(d, "same.bin"), "rb").read()
            self.stat(f"compress:same_path:exit={exit_class(rc)}")
            self.oracle_checks += 1
            if after != data:
                self.fail("cli_compress_clobbers_input:same_explicit", f"`compress same.bin same.bin`: exit status {rc}; the input ({len(data)} bytes) was replaced by {len(after)} bytes (the frame of an EMPTY input: the file was truncated before it was read) — the data is lost", "# ruzstd-cli compress same.bin same.bin --level 1")
            # … and onto the input file under ANOTHER SPELLING of its path (`sub/../same.bin`, a symbolic link to it, through a
            # linked directory): the guard must look at the file, not at the string
            for variant in ("dotdot", "symlink", "linked_dir"):
                d = self.fresh()
                data = content(rnd, 4000, 2)
                open(os.path.join(d, "same.bin"), "wb").write(data)
                os.makedirs(os.path.join(d, "sub"))
                if variant == "dotdot":
                    other = os.path.join("sub", "..", "same.bin")
                elif variant == "symlink":
                    os.symlink("same.bin", os.path.join(d, "latest"))
                    other = "latest"
                else:
                    os.symlink(".", os.path.join(d, "here"))
                    other = os.path.join("here", "same.bin")
                rc, panicked, _ = self.run(["compress", "same.bin", other, "--level", "1"], d)
                after = open(os.path.join(d, "same.bin"), "rb").read()
                self.stat(f"compress:same_path_{variant}:exit={exit_class(rc)}")
                self.oracle_checks += 1
                if after != data:
                    self.fail(f"cli_compress_clobbers_input:{variant}", f"`compress same.bin {other}` (the same file under another spelling): exit status {rc}; the input ({len(data)} bytes) was replaced by {len(after)} bytes — the data is lost", f"# mkdir sub; ln -s same.bin latest; ln -s . here; ruzstd-cli compress same.bin {other} --level 1")
                # decompress: an archive addressed through the other spelling, output defaulting / pointing to the archive itself
                d = self.fresh()
                plain = os.path.join(d, "plain")
                open(plain, "wb").write(data)
                subprocess.run([ZSTD, "-q", "-f", plain, "-o", os.path.join(d, "arch.zst")], check=True)
                os.remove(plain)
                os.makedirs(os.path.join(d, "sub"))
                os.symlink(".", os.path.join(d, "here"))
                os.symlink("arch.zst", os.path.join(d, "latest.zst"))
                target = {"dotdot": os.path.join("sub", "..", "arch.zst"), "symlink": "latest.zst", "linked_dir": os.path.join("here", "arch.zst")}[variant]
                before = open(os.path.join(d, "arch.zst"), "rb").read()
                rc, panicked, _ = self.run(["decompress", "arch.zst", target], d)
                after = open(os.path.join(d, "arch.zst"), "rb").read() if os.path.exists(os.path.join(d, "arch.zst")) else b""
                self.stat(f"decompress:same_path_{variant}:exit={exit_class(rc)}")
                self.oracle_checks += 1
                if after != before:
                    self.fail(f"cli_decompress_clobbers_input:{variant}", f"`decompress arch.zst {target}` (the archive itself under another spelling): exit status {rc}; the archive ({len(before)} bytes) now has {len(after)} bytes", f"# ln -s . here; ln -s arch.zst latest.zst; mkdir sub; ruzstd-cli decompress arch.zst {target}")
            # an output that cannot take the data (`/dev/full`: every write fails with ENOSPC): the tool must not report success
            if os.path.exists("/dev/full"):
                for level in (None, 0, 1):
                    d = self.fresh()
                    data = content(rnd, 2160, 2)
                    open(os.path.join(d, "in.bin"), "wb").write(data)
                    os.symlink("/dev/full", os.path.join(d, "full.zst"))
                    args = ["compress", "in.bin", "full.zst"] + ([] if level is None else ["--level", str(level)])
                    rc, panicked, _ = self.run(args, d)
                    self.stat(f"compress:dev_full:exit={exit_class(rc)}")
                    self.oracle_checks += 1
                    if rc == 0:
                        self.fail("cli_success_although_output_not_written", f"`{' '.join(args)}` with an output on which every write fails (/dev/full): exit status 0 — the archive was not written", "# ln -s /dev/full full.zst; ruzstd-cli " + " ".join(args))
            # an input whose length is not known when it is opened (a named pipe): everything that arrives must be compressed
            try:
                import threading
                d = self.fresh()
                fifo = os.path.join(d, "pipe.in")
                os.mkfifo(fifo)
                data = content(rnd, 300000, 1)

                def feed():
                    try:
                        with open(fifo, "wb") as f:
                            for k in range(0, len(data), 7000):
                                f.write(data[k:k + 7000])
                    except OSError:
                        pass
                t = threading.Thread(target=feed, daemon=True)
                t.start()
                try:
                    pr = subprocess.run([CLI, "compress", "pipe.in", "pipe.zst", "--level", "1"], cwd=d, env=self.env, stdout=subprocess.PIPE, stderr=subprocess.PIPE, timeout=90)
                    rc = pr.returncode
                except subprocess.TimeoutExpired:
                    rc = None
                t.join(timeout=5)
                if rc is None:
                    raise OSError("the pipe case did not finish in this environment")
                self.stat(f"compress:fifo:exit={exit_class(rc)}")
                self.oracle_checks += 1
                outp = os.path.join(d, "pipe.zst")
                if rc == 0 and not (os.path.exists(outp) and self.zstd_restores(outp, data)):
                    self.fail("cli_pipe_input_truncated", f"`compress pipe.in pipe.zst` (a named pipe fed {len(data)} bytes): exit status 0 but the archive does not restore the data", "# mkfifo pipe.in; (head -c 300000 file > pipe.in &); ruzstd-cli compress pipe.in pipe.zst --level 1")
            except (OSError, AttributeError) as ex:
                self.notes.append(f"named pipes not usable here ({ex}): the pipe-input case was skipped")
            # no subcommand
            d = self.fresh()
            rc, panicked, _ = self.run([], d)
            self.stat(f"nocommand:exit={exit_class(rc)}")
            self.case("cli nocommand", f"exit={exit_class(rc)}")
            if panicked:
                self.notes.append("`ruzstd-cli` without a subcommand panics (`.wrap_err(..).unwrap()`, exit status 101); nothing is written, so it is recorded, not counted as a violation of C19")
        finally:
            shutil.rmtree(self.work, ignore_errors=True)

    def write(self):
        os.makedirs(self.out, exist_ok=True)
        with open(os.path.join(self.out, "cli.cases"), "w") as f:
            f.write("".join(c + "\n" for c in self.cases))
        with open(os.path.join(self.out, "cli.impl"), "w") as f:
            f.write("".join(c + "\n" for c in self.impl))
        meta = {"engine": "cli", "cases": len(self.cases), "oracle_checks": self.oracle_checks, "stats": self.stats, "samples": self.samples, "notes": self.notes, "oracle_failures": self.failures}
        with open(os.path.join(self.out, "cli.meta.json"), "w") as f:
            json.dump(meta, f, indent=1)
        print(f"cli cases={len(self.cases)} oracle_checks={self.oracle_checks} oracle_failures={len(self.failures)}")


def main():
    a = sys.argv[1:]
    out, seed, tier = "out", 1, "quick"
    i = 1
    while i < len(a):
        if a[i] == "--out":
            out = a[i + 1]
        elif a[i] == "--seed":
            seed = int(a[i + 1])
        elif a[i] == "--tier":
            tier = a[i + 1]
        i += 2
    e = Engine(out, seed, tier)
    e.main()
    e.write()
    return 0


if __name__ == "__main__":
    sys.exit(main())
