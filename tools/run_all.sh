#!/bin/bash
# tools/run_all.sh [tier]: every check on the current tree, one line each (use on the CLEAN tree before committing evidence)
TIER=${1:-quick}
cd /verif
if [ -n "$(git -C /repo status --short)" ]; then echo "WARNING: /repo working tree is not clean"; fi
rm -rf replays
for p in C01 C02 C03 C04 C05 C06 C07 C08 C09 C10 C11 C12 C13 C14 C15 C16 C17 C18 C19 C20; do
  bin/check $p --tier $TIER 2>&1 | grep -E "VIOLATION|KNOWN-FINDING|PASS|FAIL" | cut -c1-200
done
