#!/usr/bin/env python3
"""Tie 1: regenerate lean/Zstd/Gen/*.lean from the CURRENT working tree of /repo.

What is extracted is exactly what text -> definition can do unambiguously: constants, the
match-arm tables of the sequence coder, the predefined distributions, the comparison
operators of the guards the properties name, header-field decode tables.
Every anchor is looked up by a regex on the source text; an anchor that is no longer
recognised is a *broken obligation* (exit 2, message `extract:<anchor>`), never skipped.

Files are only rewritten when their content changes, so `lake build` stays a no-op on an
unchanged tree.
"""
import os, re, sys, json

_VERIF = os.path.dirname(os.path.dirname(os.path.abspath(__file__)))
REPO = os.environ.get("VERIF_REPO", os.path.realpath(os.path.join(_VERIF, "repo")))
OUT = os.path.join(_VERIF, "lean", "Zstd", "Gen")
SRC = os.path.join(REPO, "ruzstd", "src")


class ExtractError(Exception):
    pass


def read(rel):
    p = os.path.join(REPO, rel)
    try:
        return open(p).read()
    except OSError as e:
        raise ExtractError(f"extract:file:{rel}: {e}")


def strip_comments(s):
    s = re.sub(r"/\*.*?\*/", "", s, flags=re.S)
    s = re.sub(r"//[^\n]*", "", s)
    return s


def const_expr(text, name, anchor):
    m = re.search(r"\bconst\s+" + re.escape(name) + r"\s*:\s*[A-Za-z0-9_]+\s*=\s*([^;]+);", text)
    if not m:
        raise ExtractError(f"extract:{anchor}:{name}")
    expr = m.group(1).strip()
    if not re.fullmatch(r"[0-9a-fA-FxX_+\-*/<>() \n]+", expr):
        raise ExtractError(f"extract:{anchor}:{name}: unsupported expr {expr!r}")
    try:
        return int(eval(expr.replace("/", "//"), {"__builtins__": {}}))
    except Exception as e:
        raise ExtractError(f"extract:{anchor}:{name}: {e}")


def fn_body(text, name, anchor):
    """Return the brace-balanced body of `fn name`."""
    m = re.search(r"\bfn\s+" + re.escape(name) + r"\s*(<[^>]*>)?\s*\(", text)
    if not m:
        raise ExtractError(f"extract:{anchor}:fn {name}")
    i = text.index("{", m.end())
    depth = 0
    for j in range(i, len(text)):
        if text[j] == "{":
            depth += 1
        elif text[j] == "}":
            depth -= 1
            if depth == 0:
                return text[i + 1 : j]
    raise ExtractError(f"extract:{anchor}:fn {name}: unbalanced")


def num(s):
    return int(s.replace("_", ""), 0)


def array_const(text, name, anchor):
    m = re.search(r"\bconst\s+" + re.escape(name) + r"\s*:\s*&?\[[^\]]*\]\s*=\s*&?\[([^\]]*)\]\s*;", text, flags=re.S)
    if not m:
        raise ExtractError(f"extract:{anchor}:{name}")
    items = [x.strip() for x in m.group(1).split(",") if x.strip()]
    try:
        return [int(x) for x in items]
    except ValueError as e:
        raise ExtractError(f"extract:{anchor}:{name}: {e}")


def lean_list(xs):
    return "[" + ", ".join(str(x) for x in xs) + "]"


def lean_int_list(xs):
    return "[" + ", ".join(f"({x})" if x < 0 else str(x) for x in xs) + "]"


def lean_tuples(rows):
    return "[" + ",\n   ".join("(" + ", ".join(str(v) for v in r) + ")" for r in rows) + "]"


# ------------------------------------------------------------------------------------------
# A tiny Rust-expression -> Lean translator for the shift/mask expressions of the header
# parsers.  Grammar: numbers, `uN::from(e)` (widening, identity), `name[idx]`, names, parentheses,
# binary `* / + << >> & |` with RUST precedence; the Lean text is fully parenthesised, so the
# different precedences of Lean's `>>>`/`&&&` do not matter.  Anything else is an ExtractError.
_TOK = re.compile(r"\s*(0x[0-9A-Fa-f_]+|0b[01_]+|\d[\d_]*|[A-Za-z_][A-Za-z0-9_]*(?:(?:::|\.)[A-Za-z0-9_]+)*|>>|<<|==|[()\[\]&|+*/\-])")
_PREC = {"*": 7, "/": 7, "+": 6, "<<": 5, ">>": 5, "&": 4, "|": 2}
_LEANOP = {"*": "*", "/": "/", "+": "+", "<<": "<<<", ">>": ">>>", "&": "&&&", "|": "|||"}


def rust_num(tok):
    m = re.fullmatch(r"(0x[0-9A-Fa-f_]+|0b[01_]+|\d[\d_]*?)(u8|u16|u32|u64|usize)?", tok)
    if not m:
        return None
    return int(m.group(1).replace("_", ""), 0)


class RustExpr:
    def __init__(self, text, varmap, anchor):
        self.anchor = anchor
        self.varmap = varmap
        self.toks = []
        pos = 0
        text = text.strip()
        while pos < len(text):
            m = _TOK.match(text, pos)
            if not m:
                raise ExtractError(f"extract:{anchor}: cannot tokenise {text[pos:pos+20]!r}")
            self.toks.append(m.group(1))
            pos = m.end()
        self.i = 0

    def peek(self):
        return self.toks[self.i] if self.i < len(self.toks) else None

    def take(self, t=None):
        x = self.peek()
        if x is None or (t is not None and x != t):
            raise ExtractError(f"extract:{self.anchor}: expected {t!r}, found {x!r}")
        self.i += 1
        return x

    def atom(self):
        t = self.take()
        if t == "(":
            e = self.expr(0)
            self.take(")")
            return e
        n = rust_num(t)
        if n is not None:
            return str(n)
        if re.fullmatch(r"(u8|u16|u32|u64|usize)::from", t):
            self.take("(")
            e = self.expr(0)
            self.take(")")
            return e
        if re.fullmatch(r"[A-Za-z_][A-Za-z0-9_.:]*", t):
            if self.peek() == "[":
                self.take("[")
                idx = rust_num(self.take())
                self.take("]")
                key = (t, idx)
            else:
                key = t
            if key not in self.varmap:
                raise ExtractError(f"extract:{self.anchor}: unknown operand {key!r}")
            return self.varmap[key]
        raise ExtractError(f"extract:{self.anchor}: unexpected token {t!r}")

    def expr(self, minp):
        lhs = self.atom()
        while True:
            op = self.peek()
            if op not in _PREC or _PREC[op] < minp:
                return lhs
            self.take()
            rhs = self.expr(_PREC[op] + 1)
            lhs = f"({lhs} {_LEANOP[op]} {rhs})"

    def parse(self):
        e = self.expr(0)
        if self.peek() is not None:
            raise ExtractError(f"extract:{self.anchor}: trailing {self.peek()!r}")
        return e


def rust_expr(text, varmap, anchor):
    return RustExpr(text, varmap, anchor).parse()


def block_after(text, start_pat, anchor):
    """brace-balanced block following the first match of start_pat (which must end before the `{`)."""
    m = re.search(start_pat, text)
    if not m:
        raise ExtractError(f"extract:{anchor}")
    i = text.index("{", m.end() - 1)
    depth = 0
    for j in range(i, len(text)):
        if text[j] == "{":
            depth += 1
        elif text[j] == "}":
            depth -= 1
            if depth == 0:
                return text[i + 1 : j]
    raise ExtractError(f"extract:{anchor}: unbalanced")


# ------------------------------------------------------------------------------------------
def gen_consts():
    common = strip_comments(read("ruzstd/src/common/mod.rs"))
    fd = strip_comments(read("ruzstd/src/decoding/frame_decoder.rs"))
    fse = strip_comments(read("ruzstd/src/fse/fse_decoder.rs"))
    huf = strip_comments(read("ruzstd/src/huff0/huff0_decoder.rs"))
    ssd = strip_comments(read("ruzstd/src/decoding/sequence_section_decoder.rs"))
    ss = strip_comments(read("ruzstd/src/blocks/sequence_section.rs"))
    mg = strip_comments(read("ruzstd/src/encoding/match_generator.rs"))
    fc = strip_comments(read("ruzstd/src/encoding/frame_compressor.rs"))
    dd = strip_comments(read("ruzstd/src/decoding/dictionary.rs"))
    out = []
    A = out.append
    A(("magicNum", const_expr(common, "MAGIC_NUM", "consts"), "common/mod.rs MAGIC_NUM"))
    A(("minWindowSize", const_expr(common, "MIN_WINDOW_SIZE", "consts"), "common/mod.rs"))
    A(("maxWindowSize", const_expr(common, "MAX_WINDOW_SIZE", "consts"), "common/mod.rs"))
    A(("maxBlockSize", const_expr(common, "MAX_BLOCK_SIZE", "consts"), "common/mod.rs"))
    A(("defaultMaxWindowSize", const_expr(fd, "DEFAULT_MAX_WINDOW_SIZE", "consts"), "frame_decoder.rs"))
    A(("accLogOffset", const_expr(fse, "ACC_LOG_OFFSET", "consts"), "fse_decoder.rs"))
    A(("hufMaxNumBits", const_expr(huf, "MAX_MAX_NUM_BITS", "consts"), "huff0_decoder.rs"))
    A(("llMaxLog", const_expr(ssd, "LL_MAX_LOG", "consts"), "sequence_section_decoder.rs"))
    A(("mlMaxLog", const_expr(ssd, "ML_MAX_LOG", "consts"), "sequence_section_decoder.rs"))
    A(("ofMaxLog", const_expr(ssd, "OF_MAX_LOG", "consts"), "sequence_section_decoder.rs"))
    A(("llDefaultAccLog", const_expr(ssd, "LL_DEFAULT_ACC_LOG", "consts"), "sequence_section_decoder.rs"))
    A(("mlDefaultAccLog", const_expr(ssd, "ML_DEFAULT_ACC_LOG", "consts"), "sequence_section_decoder.rs"))
    A(("ofDefaultAccLog", const_expr(ssd, "OF_DEFAULT_ACC_LOG", "consts"), "sequence_section_decoder.rs"))
    A(("maxLiteralLengthCode", const_expr(ss, "MAX_LITERAL_LENGTH_CODE", "consts"), "sequence_section.rs"))
    A(("maxMatchLengthCode", const_expr(ss, "MAX_MATCH_LENGTH_CODE", "consts"), "sequence_section.rs"))
    A(("maxOffsetCode", const_expr(ss, "MAX_OFFSET_CODE", "consts"), "sequence_section.rs"))
    A(("minMatchLen", const_expr(mg, "MIN_MATCH_LEN", "consts"), "match_generator.rs"))
    # production matcher parameters: MatchGeneratorDriver::new(1024 * 128, 1)
    m = re.search(r"MatchGeneratorDriver::new\(\s*([0-9_ *]+)\s*,\s*([0-9_]+)\s*\)", fc)
    if not m:
        raise ExtractError("extract:consts:MatchGeneratorDriver::new(args)")
    A(("prodSliceSize", int(eval(m.group(1), {"__builtins__": {}})), "frame_compressor.rs FrameCompressor::new"))
    A(("prodMaxSlices", num(m.group(2)), "frame_compressor.rs FrameCompressor::new"))
    # skippable-frame magic range
    fr = strip_comments(read("ruzstd/src/decoding/frame.rs"))
    m = re.search(r"\((0x[0-9A-Fa-f_]+)\s*\.\.=\s*(0x[0-9A-Fa-f_]+)\)\s*\.contains\(&magic_num\)", fr)
    if not m:
        raise ExtractError("extract:consts:skippable magic range")
    A(("skipMagicLo", num(m.group(1)), "frame.rs"))
    A(("skipMagicHi", num(m.group(2)), "frame.rs"))
    m = re.search(r"const\s+MAGIC_NUM\s*:\s*\[u8;\s*4\]\s*=\s*\[([^\]]+)\]", dd)
    if not m:
        raise ExtractError("extract:consts:dictionary MAGIC_NUM")
    dm = [num(x.strip()) for x in m.group(1).split(",")]
    lines = ["/- GENERATED by tools/extract.py from /repo — do not edit. -/", "namespace Zstd.Gen", ""]
    for name, val, where in out:
        lines.append(f"/-- `{where}` -/")
        lines.append(f"def {name} : Nat := {val}")
    lines.append("/-- `decoding/dictionary.rs` MAGIC_NUM -/")
    lines.append(f"def dictMagic : List Nat := {lean_list(dm)}")
    lines += ["", "end Zstd.Gen", ""]
    return "\n".join(lines)


def parse_dec_table(body, fname):
    """lookup_ll_code / lookup_ml_code: `lo..=hi => (u32::from(code) [+ k], 0)` then rows."""
    m = re.search(r"(\d+)\s*\.\.=\s*(\d+)\s*=>\s*\(\s*u32::from\(code\)\s*(?:\+\s*(\d+))?\s*,\s*(\d+)\s*\)", body)
    if not m:
        raise ExtractError(f"extract:dectables:{fname}: identity arm")
    lo, hi, add, bits0 = int(m.group(1)), int(m.group(2)), int(m.group(3) or 0), int(m.group(4))
    if lo != 0 or bits0 != 0:
        raise ExtractError(f"extract:dectables:{fname}: identity arm shape")
    rows = [(int(a), int(b), int(c)) for a, b, c in re.findall(r"\b(\d+)\s*=>\s*\(\s*(\d+)\s*,\s*(\d+)\s*\)", body)]
    if not rows:
        raise ExtractError(f"extract:dectables:{fname}: rows")
    if not re.search(r"_\s*=>\s*unreachable!", body):
        raise ExtractError(f"extract:dectables:{fname}: default arm")
    # every arm must be accounted for
    n_arms = len(re.findall(r"=>", body))
    if n_arms != len(rows) + 2:
        raise ExtractError(f"extract:dectables:{fname}: {n_arms} arms, recognised {len(rows)+2}")
    return hi, add, rows


def gen_dectables():
    ssd = strip_comments(read("ruzstd/src/decoding/sequence_section_decoder.rs"))
    llhi, lladd, llrows = parse_dec_table(fn_body(ssd, "lookup_ll_code", "dectables"), "lookup_ll_code")
    mlhi, mladd, mlrows = parse_dec_table(fn_body(ssd, "lookup_ml_code", "dectables"), "lookup_ml_code")
    L = ["/- GENERATED by tools/extract.py from /repo — do not edit. -/", "namespace Zstd.Gen", ""]
    L.append("/-- `lookup_ll_code`: arm `0..=hi => (code + add, 0)` -/")
    L.append(f"def llDecIdentHi : Nat := {llhi}")
    L.append(f"def llDecIdentAdd : Nat := {lladd}")
    L.append("/-- `lookup_ll_code` rows: (code, baseline, extra bits) -/")
    L.append(f"def llDecRows : List (Nat × Nat × Nat) :=\n  {lean_tuples(llrows)}")
    L.append("/-- `lookup_ml_code`: arm `0..=hi => (code + add, 0)` -/")
    L.append(f"def mlDecIdentHi : Nat := {mlhi}")
    L.append(f"def mlDecIdentAdd : Nat := {mladd}")
    L.append("/-- `lookup_ml_code` rows: (code, baseline, extra bits) -/")
    L.append(f"def mlDecRows : List (Nat × Nat × Nat) :=\n  {lean_tuples(mlrows)}")
    L += ["", "end Zstd.Gen", ""]
    return "\n".join(L)


def parse_enc_table(body, fname):
    """encode_literal_length / encode_match_len.
    arms: `a..=b => unreachable!()` (optional, leading), `a..=b => (len as u8 [- k], 0, 0)`,
          `a..=b => (code, len - base, bits)` rows, `a.. => unreachable!()`."""
    arms = re.findall(r"(\d+)\s*\.\.(=?)\s*(\d*)\s*=>\s*([^\n]+?),?\s*\n", body + "\n")
    if not arms:
        raise ExtractError(f"extract:enctables:{fname}: arms")
    unreach_lo = None  # values <= this are unreachable (leading arm)
    ident = None
    rows = []
    upper = None
    for lo, eq, hi, rhs in arms:
        lo = int(lo)
        rhs = rhs.strip().rstrip(",")
        if eq == "" and hi == "":
            if not rhs.startswith("unreachable!"):
                raise ExtractError(f"extract:enctables:{fname}: open arm rhs {rhs!r}")
            upper = lo
            continue
        hi = int(hi)
        if rhs.startswith("unreachable!"):
            if lo != 0:
                raise ExtractError(f"extract:enctables:{fname}: unreachable arm not leading")
            unreach_lo = hi
            continue
        m = re.fullmatch(r"\(\s*len as u8\s*(?:-\s*(\d+))?\s*,\s*0\s*,\s*0\s*\)", rhs)
        if m:
            ident = (lo, hi, int(m.group(1) or 0))
            continue
        m = re.fullmatch(r"\(\s*(\d+)\s*,\s*len\s*-\s*(\d+)\s*,\s*(\d+)\s*\)", rhs)
        if m:
            rows.append((lo, hi, int(m.group(1)), int(m.group(2)), int(m.group(3))))
            continue
        raise ExtractError(f"extract:enctables:{fname}: arm rhs {rhs!r}")
    if ident is None or upper is None or not rows:
        raise ExtractError(f"extract:enctables:{fname}: incomplete")
    n_arms = len(re.findall(r"=>", body))
    if n_arms != len(rows) + 2 + (1 if unreach_lo is not None else 0):
        raise ExtractError(f"extract:enctables:{fname}: {n_arms} arms, recognised fewer")
    return unreach_lo, ident, rows, upper


def gen_enctables():
    c = strip_comments(read("ruzstd/src/encoding/blocks/compressed.rs"))
    ll = parse_enc_table(fn_body(c, "encode_literal_length", "enctables"), "encode_literal_length")
    ml = parse_enc_table(fn_body(c, "encode_match_len", "enctables"), "encode_match_len")
    L = ["/- GENERATED by tools/extract.py from /repo — do not edit. -/", "namespace Zstd.Gen", ""]
    for pfx, (unr, ident, rows, upper), fname in (("llEnc", ll, "encode_literal_length"), ("mlEnc", ml, "encode_match_len")):
        L.append(f"/-- `{fname}`: values below this are `unreachable!()` (0 = no such arm) -/")
        L.append(f"def {pfx}Min : Nat := {0 if unr is None else unr + 1}")
        L.append(f"/-- `{fname}`: identity arm `lo..=hi => (len - sub, 0, 0)` -/")
        L.append(f"def {pfx}IdentLo : Nat := {ident[0]}")
        L.append(f"def {pfx}IdentHi : Nat := {ident[1]}")
        L.append(f"def {pfx}IdentSub : Nat := {ident[2]}")
        L.append(f"/-- `{fname}` rows: (lo, hi, code, base, extra bits) -/")
        L.append(f"def {pfx}Rows : List (Nat × Nat × Nat × Nat × Nat) :=\n  {lean_tuples(rows)}")
        L.append(f"/-- `{fname}`: `upper.. => unreachable!()` -/")
        L.append(f"def {pfx}Upper : Nat := {upper}")
    # encode_seqnum arms
    body = fn_body(c, "encode_seqnum", "enctables")
    ul = re.search(r"const\s+UPPER_LIMIT\s*:\s*usize\s*=\s*([^;]+);", body)
    arms = re.findall(r"(0x[0-9A-Fa-f_]+|\d+)\s*\.\.=\s*(0x[0-9A-Fa-f_]+|\d+|UPPER_LIMIT)\s*=>", body)
    if not ul or len(arms) != 3:
        raise ExtractError("extract:enctables:encode_seqnum arms")
    upper_limit = int(eval(ul.group(1), {"__builtins__": {}}))
    vals = []
    for lo, hi in arms:
        vals.append((num(lo), upper_limit if hi == "UPPER_LIMIT" else num(hi)))
    sub = re.search(r"let\s+encode\s*=\s*seqnum\s*-\s*(0x[0-9A-Fa-f_]+|\d+)\s*;", body)
    if not sub:
        raise ExtractError("extract:enctables:encode_seqnum subtrahend")
    # byte order of the three-byte form: order of the write_bits calls after 255
    three = body[body.index("let encode") :]
    order = re.findall(r"writer\.write_bits\(\s*(255u8|upper|lower)\s*,\s*8\s*\)", three)
    if order[:1] != ["255u8"] or sorted(order[1:3]) != ["lower", "upper"]:
        raise ExtractError("extract:enctables:encode_seqnum 3-byte order")
    L.append("/-- `encode_seqnum`: (lo, hi) of the 1-, 2- and 3-byte arms -/")
    L.append(f"def seqnumArms : List (Nat × Nat) := {lean_tuples(vals)}")
    L.append("/-- `encode_seqnum`: `let encode = seqnum - K` -/")
    L.append(f"def seqnumSub : Nat := {num(sub.group(1))}")
    L.append("/-- `encode_seqnum`: in the 3-byte form, is the low byte written before the high byte? -/")
    L.append(f"def seqnumLowFirst : Bool := {'true' if order[1] == 'lower' else 'false'}")
    L += ["", "end Zstd.Gen", ""]
    return "\n".join(L)


def gen_dists():
    ssd = strip_comments(read("ruzstd/src/decoding/sequence_section_decoder.rs"))
    enc = strip_comments(read("ruzstd/src/fse/fse_encoder.rs"))
    L = ["/- GENERATED by tools/extract.py from /repo — do not edit. -/", "namespace Zstd.Gen", ""]
    for lean, text, name, where in (
        ("llDistDec", ssd, "LITERALS_LENGTH_DEFAULT_DISTRIBUTION", "sequence_section_decoder.rs"),
        ("mlDistDec", ssd, "MATCH_LENGTH_DEFAULT_DISTRIBUTION", "sequence_section_decoder.rs"),
        ("ofDistDec", ssd, "OFFSET_DEFAULT_DISTRIBUTION", "sequence_section_decoder.rs"),
        ("llDistEnc", enc, "LL_DIST", "fse_encoder.rs"),
        ("mlDistEnc", enc, "ML_DIST", "fse_encoder.rs"),
        ("ofDistEnc", enc, "OF_DIST", "fse_encoder.rs"),
    ):
        xs = array_const(text, name, "dists")
        L.append(f"/-- `{where}` {name} -/")
        L.append(f"def {lean} : List Int := {lean_int_list(xs)}")
    # accuracy logs used by the encoder's default tables
    for lean, fname in (("llDefaultLogEnc", "default_ll_table"), ("mlDefaultLogEnc", "default_ml_table"), ("ofDefaultLogEnc", "default_of_table")):
        body = fn_body(enc, fname, "dists")
        m = re.search(r"build_table_from_probabilities\(\s*[A-Z_]+\s*,\s*(\d+)\s*\)", body)
        if not m:
            raise ExtractError(f"extract:dists:{fname}")
        L.append(f"/-- `fse_encoder.rs` {fname} accuracy log -/")
        L.append(f"def {lean} : Nat := {int(m.group(1))}")
    L += ["", "end Zstd.Gen", ""]
    return "\n".join(L)


def gen_fse():
    """FSE parameters that are plain source text: the spreading step of both `next_position`
    functions, the production arguments of the table builder (max accuracy logs, zero-bit
    avoidance flag) in the sequence coder and the Huffman-weight coder, the normaliser's
    minimum accuracy log."""
    dec = strip_comments(read("ruzstd/src/fse/fse_decoder.rs"))
    enc = strip_comments(read("ruzstd/src/fse/fse_encoder.rs"))
    comp = strip_comments(read("ruzstd/src/encoding/blocks/compressed.rs"))
    hufe = strip_comments(read("ruzstd/src/huff0/huff0_encoder.rs"))
    hufd = strip_comments(read("ruzstd/src/huff0/huff0_decoder.rs"))
    L = ["/- GENERATED by tools/extract.py from /repo — do not edit. -/", "namespace Zstd.Gen", ""]
    for pfx, text, where in (("fseDec", dec, "fse_decoder.rs"), ("fseEnc", enc, "fse_encoder.rs")):
        b = fn_body(text, "next_position", "fse")
        m = re.search(r"p\s*\+=\s*\(table_size\s*>>\s*(\d+)\)\s*\+\s*\(table_size\s*>>\s*(\d+)\)\s*\+\s*(\d+)\s*;\s*p\s*&=\s*table_size\s*-\s*1\s*;", b)
        if not m:
            raise ExtractError(f"extract:fse:{where} next_position")
        L.append(f"/-- `{where}` next_position: `p += (size >> a) + (size >> b) + c; p &= size - 1` -/")
        L.append(f"def {pfx}StepShrA : Nat := {int(m.group(1))}")
        L.append(f"def {pfx}StepShrB : Nat := {int(m.group(2))}")
        L.append(f"def {pfx}StepAdd : Nat := {int(m.group(3))}")
    # choose_table(..., max_log) calls in compress_block, in source order: ll, ml, of
    body = fn_body(comp, "compress_block", "fse")
    calls = re.findall(r"let\s+(ll|ml|of)_mode\s*=\s*choose_table\((.*?)\)\s*;", body, flags=re.S)
    if [c[0] for c in calls] != ["ll", "ml", "of"]:
        raise ExtractError("extract:fse:compress_block choose_table calls")
    for name, args in calls:
        m = re.search(r",\s*(\d+)\s*,?\s*$", args.strip())
        if not m:
            raise ExtractError(f"extract:fse:choose_table {name} max_log")
        L.append(f"/-- `compressed.rs` compress_block: `choose_table(.., max_log)` for {name} -/")
        L.append(f"def {name}EncMaxLog : Nat := {int(m.group(1))}")
    body = fn_body(comp, "choose_table", "fse")
    m = re.search(r"build_table_from_data\(\s*data\s*,\s*max_log\s*,\s*(true|false)\s*\)", body)
    if not m:
        raise ExtractError("extract:fse:choose_table build_table_from_data")
    L.append("/-- `compressed.rs` choose_table: `build_table_from_data(data, max_log, AVOID)` -/")
    L.append(f"def seqEncAvoidZeroBits : Bool := {m.group(1)}")
    m = re.search(r"build_table_from_data\(\s*weights\.iter\(\)\.copied\(\)\s*,\s*(\d+)\s*,\s*(true|false)\s*\)", hufe)
    if not m:
        raise ExtractError("extract:fse:huff0_encoder build_table_from_data")
    L.append("/-- `huff0_encoder.rs`: `build_table_from_data(weights, MAXLOG, AVOID)` -/")
    L.append(f"def hufWeightsEncMaxLog : Nat := {int(m.group(1))}")
    L.append(f"def hufWeightsEncAvoidZeroBits : Bool := {m.group(2)}")
    m = re.search(r"fse_table\.build_decoder\(\s*fse_stream\s*,\s*(\d+)\s*\)", hufd)
    if not m:
        raise ExtractError("extract:fse:huff0_decoder build_decoder max_log")
    L.append("/-- `huff0_decoder.rs`: `fse_table.build_decoder(fse_stream, MAXLOG)` -/")
    L.append(f"def hufWeightsDecMaxLog : Nat := {int(m.group(1))}")
    b = fn_body(enc, "build_table_from_counts", "fse")
    m = re.search(r"let\s+acc_log\s*=\s*\(sum\.ilog2\(\)\s*as\s*u8\s*\+\s*(\d+)\)\.max\((\d+)\)\s*;", b)
    if not m:
        raise ExtractError("extract:fse:normaliser acc_log")
    L.append("/-- `fse_encoder.rs` build_table_from_counts: `(sum.ilog2() + ADD).max(MIN)` -/")
    L.append(f"def normLogAdd : Nat := {int(m.group(1))}")
    L.append(f"def normLogMin : Nat := {int(m.group(2))}")
    L += ["", "end Zstd.Gen", ""]
    return "\n".join(L)


OPS = {">": "a > b", ">=": "a ≥ b", "<": "a < b", "<=": "a ≤ b", "==": "a = b", "!=": "a ≠ b"}


def guard(text, pattern, anchor):
    m = re.search(pattern, text)
    if not m:
        raise ExtractError(f"extract:guards:{anchor}")
    op = m.group("op")
    if op not in OPS:
        raise ExtractError(f"extract:guards:{anchor}: operator {op!r}")
    return op


def gen_guards():
    fr = strip_comments(read("ruzstd/src/decoding/frame.rs"))
    fd = strip_comments(read("ruzstd/src/decoding/frame_decoder.rs"))
    bd = strip_comments(read("ruzstd/src/decoding/block_decoder.rs"))
    fa = strip_comments(read("ruzstd/src/encoding/levels/fastest.rs"))
    OPRE = r"(?P<op>>=|<=|==|!=|>|<)"
    G = []
    G.append(("windowMinOk", guard(fr, r"if\s+window_size\s*" + OPRE + r"\s*MIN_WINDOW_SIZE", "window_size ? MIN_WINDOW_SIZE"),
              "frame.rs `if window_size OP MIN_WINDOW_SIZE` (then-branch = not too small)"))
    G.append(("windowMaxOk", guard(fr, r"if\s+window_size\s*" + OPRE + r"\s*MAX_WINDOW_SIZE", "window_size ? MAX_WINDOW_SIZE"),
              "frame.rs `if window_size OP MAX_WINDOW_SIZE` (then-branch = not too big)"))
    G.append(("windowOverLimit", guard(fn_body(fd, "check_window_size", "guards"), r"if\s+window_size\s*" + OPRE + r"\s*max_window_size", "window_size ? max_window_size"),
              "frame_decoder.rs check_window_size `if window_size OP max_window_size` (then-branch = reject)"))
    # (anchored up to the opening brace: `if val > MAX_BLOCK_SIZE * 2 {` or `if false && val > …` must NOT match)
    G.append(("blockSizeTooLarge", guard(fn_body(bd, "block_content_size", "guards"), r"if\s+val\s*" + OPRE + r"\s*MAX_BLOCK_SIZE\s*\{", "val ? MAX_BLOCK_SIZE"),
              "block_decoder.rs block_content_size `if val OP MAX_BLOCK_SIZE {` (then-branch = reject)"))
    # C05: the three guards that cap what a compressed block may regenerate
    se = strip_comments(read("ruzstd/src/decoding/sequence_execution.rs"))
    G.append(("literalsTooLarge", guard(fn_body(bd, "decompress_block", "guards"), r"if\s+section\.regenerated_size\s*" + OPRE + r"\s*MAX_BLOCK_SIZE\s*\{", "section.regenerated_size ? MAX_BLOCK_SIZE"),
              "block_decoder.rs decompress_block `if section.regenerated_size OP MAX_BLOCK_SIZE {` (then-branch = reject)"))
    ex = fn_body(se, "execute_sequences", "guards")
    if not re.search(r"let\s+size_after_seq\s*=\s*u64::from\(seq_sum\)\s*\+\s*u64::from\(seq\.ll\)\s*\+\s*u64::from\(seq\.ml\)\s*;", ex):
        raise ExtractError("extract:guards:execute_sequences size_after_seq definition")
    G.append(("execSeqTooLarge", guard(ex, r"if\s+size_after_seq\s*" + OPRE + r"\s*u64::from\(MAX_BLOCK_SIZE\)\s*\{", "size_after_seq ? MAX_BLOCK_SIZE"),
              "sequence_execution.rs `if size_after_seq OP u64::from(MAX_BLOCK_SIZE) {` before a sequence is expanded (then-branch = reject)"))
    G.append(("execRestTooLarge", guard(ex, r"if\s+seq_sum as usize\s*\+\s*rest_literals\.len\(\)\s*" + OPRE + r"\s*MAX_BLOCK_SIZE as usize\s*\{", "seq_sum + rest_literals ? MAX_BLOCK_SIZE"),
              "sequence_execution.rs `if seq_sum as usize + rest_literals.len() OP MAX_BLOCK_SIZE as usize {` before the trailing literals are pushed (then-branch = reject)"))
    # the zero-offset check of execute_sequences (anchored to the whole condition: `if a && b && actual_offset == 0` must NOT match)
    G.append(("execZeroOffset", guard(ex, r"if\s+actual_offset\s*" + OPRE + r"\s*0\s*\{\s*return\s+Err\(\s*ExecuteSequencesError::ZeroOffset\s*\)", "actual_offset ? 0 => ZeroOffset"),
              "sequence_execution.rs `if actual_offset OP 0 { return Err(ZeroOffset) }` after the offset history step (then-branch = reject)"))
    # how far a match may reach into the dictionary content
    dbuf = strip_comments(read("ruzstd/src/decoding/decode_buffer.rs"))
    G.append(("dictReachTooFar", guard(fn_body(dbuf, "repeat_from_dict", "guards"), r"if\s+bytes_from_dict\s*" + OPRE + r"\s*self\.dict_content\.len\(\)\s*\{", "bytes_from_dict ? dict_content.len()"),
              "decode_buffer.rs repeat_from_dict `if bytes_from_dict OP self.dict_content.len() {` (then-branch = reject: the match starts before the dictionary content)"))
    m = re.search(r"if\s+compressed_size\s*(?P<op1>>=|<=|==|!=|>|<)\s*block_size as usize\s*\|\|\s*compressed_size\s*(?P<op2>>=|<=|==|!=|>|<)\s*MAX_BLOCK_SIZE as usize", fa)
    if not m:
        raise ExtractError("extract:guards:compress_fastest raw fallback")
    G.append(("rawFallbackVsBlock", m.group("op1"), "fastest.rs `compressed_size OP block_size` (true = store raw)"))
    G.append(("rawFallbackVsMax", m.group("op2"), "fastest.rs `compressed_size OP MAX_BLOCK_SIZE` (true = store raw)"))
    # ---- order-of-check facts, as plain Bool constants
    B = []
    body = fn_body(fd, "set_max_window_size", "guards")
    if re.search(r"self\.max_window_size\s*=\s*max_window_size\s*\.min\(\s*crate::common::MAX_WINDOW_SIZE\s*\)\s*;", body):
        clamps = True
    elif re.search(r"self\.max_window_size\s*=\s*max_window_size\s*;", body):
        clamps = False
    else:
        raise ExtractError("extract:guards:set_max_window_size clamp")
    B.append(("setMaxWindowClamps", clamps, "`set_max_window_size` stores `max_window_size.min(MAX_WINDOW_SIZE)` (false: stores it unclamped)"))
    st = fd[fd.index("impl FrameDecoderState"):]
    for fname in ("new", "reset"):
        b = fn_body(st, fname, "guards")
        rd = b.find("read_frame_header(source)?")
        ws = b.find(".window_size()?")
        i = b.find("check_window_size(window_size, max_window_size)?")
        j1 = b.find("DecoderScratch::new(")
        j2 = b.find("decoder_scratch.reset(")
        j = max(j1, j2)
        if rd < 0 or ws < 0 or j < 0:
            raise ExtractError(f"extract:guards:FrameDecoderState::{fname} header/alloc anchors")
        # i < 0: the call is gone -> the path does not check at all
        B.append((f"checkPresent_{fname}", i >= 0, f"FrameDecoderState::{fname} calls check_window_size(window_size, max_window_size)?"))
        B.append((f"checkBeforeAlloc_{fname}", i >= 0 and rd < ws < i < j, f"FrameDecoderState::{fname}: read header, window_size()?, check_window_size, and only then the scratch (re)allocation"))
        if fname == "reset":
            k = b.find("self.")
            B.append(("checkBeforeMutate_reset", i >= 0 and (k < 0 or i < k), "FrameDecoderState::reset: no field of self is written before check_window_size"))
    b = fn_body(fd[fd.index("impl FrameDecoder {"):], "new", "guards")
    B.append(("newUsesDefaultLimit", bool(re.search(r"max_window_size\s*:\s*DEFAULT_MAX_WINDOW_SIZE\s*,", b)), "FrameDecoder::new sets max_window_size: DEFAULT_MAX_WINDOW_SIZE"))
    b = fn_body(fd[fd.index("impl FrameDecoder {"):], "reset", "guards")
    B.append(("resetPassesLimit_reuse", bool(re.search(r"s\.reset\(\s*source\s*,\s*self\.max_window_size\s*\)\?", b)), "FrameDecoder::reset: reuse path passes self.max_window_size"))
    B.append(("resetPassesLimit_new", bool(re.search(r"FrameDecoderState::new\(\s*source\s*,\s*self\.max_window_size\s*\)\?", b)), "FrameDecoder::reset: first-use path passes self.max_window_size"))
    sd = strip_comments(read("ruzstd/src/decoding/streaming_decoder.rs"))
    b = fn_body(sd, "new_with_max_window_size", "guards")
    i1 = b.find("decoder.set_max_window_size(max_window_size)")
    i2 = b.find("decoder.init(&mut source)?")
    if i2 < 0:
        raise ExtractError("extract:guards:StreamingDecoder::new_with_max_window_size init")
    B.append(("streamingSetsLimitBeforeInit", 0 <= i1 < i2, "StreamingDecoder::new_with_max_window_size calls set_max_window_size before init"))
    # check_window_size reports (requested: window_size, max: max_window_size)
    b = fn_body(fd, "check_window_size", "guards")
    B.append(("checkReportsRequestedAndMax", bool(re.search(r"WindowSizeTooBig\s*\{\s*requested\s*:\s*window_size\s*,\s*max\s*:\s*max_window_size\s*,?\s*\}", b)), "check_window_size returns WindowSizeTooBig { requested: window_size, max: max_window_size }"))
    L = ["/- GENERATED by tools/extract.py from /repo — do not edit. -/", "namespace Zstd.Gen", ""]
    for name, op, where in G:
        L.append(f"/-- `{where}`; source operator `{op}` -/")
        L.append(f"def {name} (a b : Nat) : Bool := decide ({OPS[op]})")
    for name, val, where in B:
        L.append(f"/-- {where} -/")
        L.append(f"def {name} : Bool := {'true' if val else 'false'}")
    L += ["", "end Zstd.Gen", ""]
    return "\n".join(L)


def gen_headers():
    """Small decode tables of header fields (match arms)."""
    fr = strip_comments(read("ruzstd/src/decoding/frame.rs"))
    bd = strip_comments(read("ruzstd/src/decoding/block_decoder.rs"))
    ls = strip_comments(read("ruzstd/src/blocks/literals_section.rs"))
    ss = strip_comments(read("ruzstd/src/blocks/sequence_section.rs"))
    L = ["/- GENERATED by tools/extract.py from /repo — do not edit. -/", "set_option linter.unusedVariables false", "namespace Zstd.Gen", ""]
    # frame_content_size_bytes: 0 => {single?1:0}, 1 => 2, 2 => 4, 3 => 8
    b = fn_body(fr, "frame_content_size_bytes", "headers")
    rows = re.findall(r"\b(\d)\s*=>\s*Ok\((\d)\)", b)
    m0 = re.search(r"0\s*=>\s*\{\s*if\s+self\.single_segment_flag\(\)\s*\{\s*Ok\((\d)\)\s*\}\s*else\s*\{\s*Ok\((\d)\)\s*\}", b)
    if len(rows) != 3 or not m0:
        raise ExtractError("extract:headers:frame_content_size_bytes")
    L.append("/-- `frame_content_size_bytes`: flag ↦ bytes for flags 1..3; flag 0: (single segment, otherwise) -/")
    L.append(f"def fcsBytes : List (Nat × Nat) := {lean_tuples([(int(a), int(b_)) for a, b_ in rows])}")
    L.append(f"def fcsBytesFlag0 : Nat × Nat := ({m0.group(1)}, {m0.group(2)})")
    b = fn_body(fr, "dictionary_id_bytes", "headers")
    rows = re.findall(r"\b(\d)\s*=>\s*Ok\((\d)\)", b)
    if len(rows) != 4:
        raise ExtractError("extract:headers:dictionary_id_bytes")
    L.append("/-- `dictionary_id_bytes`: flag ↦ bytes -/")
    L.append(f"def dictIdBytes : List (Nat × Nat) := {lean_tuples([(int(a), int(b_)) for a, b_ in rows])}")
    # block_type arms
    b = fn_body(bd, "block_type", "headers")
    rows = re.findall(r"\b(\d)\s*=>\s*Ok\(BlockType::(\w+)\)", b)
    if len(rows) != 4:
        raise ExtractError("extract:headers:block_type")
    names = {"Raw": 0, "RLE": 1, "Compressed": 2, "Reserved": 3}
    L.append("/-- `block_type`: 2-bit field ↦ type (0 Raw, 1 RLE, 2 Compressed, 3 Reserved) -/")
    L.append(f"def blockTypeMap : List (Nat × Nat) := {lean_tuples([(int(a), names[n]) for a, n in rows])}")
    # literals section_type arms
    b = fn_body(ls, "section_type", "headers")
    rows = re.findall(r"\b(\d)\s*=>\s*Ok\(LiteralsSectionType::(\w+)\)", b)
    if len(rows) != 4:
        raise ExtractError("extract:headers:section_type")
    names = {"Raw": 0, "RLE": 1, "Compressed": 2, "Treeless": 3}
    L.append("/-- literals `section_type`: 2-bit field ↦ type (0 Raw, 1 RLE, 2 Compressed, 3 Treeless) -/")
    L.append(f"def litTypeMap : List (Nat × Nat) := {lean_tuples([(int(a), names[n]) for a, n in rows])}")
    # decode_mode arms
    b = fn_body(ss, "decode_mode", "headers")
    rows = re.findall(r"\b(\d)\s*=>\s*ModeType::(\w+)", b)
    if len(rows) != 4:
        raise ExtractError("extract:headers:decode_mode")
    names = {"Predefined": 0, "RLE": 1, "FSECompressed": 2, "Repeat": 3}
    L.append("/-- `decode_mode`: 2-bit field ↦ mode (0 Predefined, 1 RLE, 2 FSECompressed, 3 Repeat) -/")
    L.append(f"def seqModeMap : List (Nat × Nat) := {lean_tuples([(int(a), names[n]) for a, n in rows])}")
    gen_headers_more(L, fr, bd, ls)
    L += ["", "end Zstd.Gen", ""]
    return "\n".join(L)


def _arms(body, anchor):
    """top-level arms `PAT => { BLOCK }` of a match body: [(pattern text, block text)]"""
    out = []
    i = 0
    n = len(body)
    while True:
        m = re.compile(r"\s*([^{}]+?)\s*=>\s*").match(body, i)
        if not m:
            break
        j = m.end()
        if j < n and body[j] == "{":
            depth = 0
            k = j
            while k < n:
                if body[k] == "{":
                    depth += 1
                elif body[k] == "}":
                    depth -= 1
                    if depth == 0:
                        break
                k += 1
            out.append((m.group(1).strip(), body[j + 1 : k]))
            i = k + 1
        else:
            # expression arm up to the next top-level comma
            depth = 0
            k = j
            while k < n and not (body[k] == "," and depth == 0):
                if body[k] in "([{":
                    depth += 1
                elif body[k] in ")]}":
                    depth -= 1
                k += 1
            out.append((m.group(1).strip(), body[j:k].strip()))
            i = k + 1
        while i < n and body[i] in ", \n\t":
            i += 1
    if body[i:].strip():
        raise ExtractError(f"extract:{anchor}: unparsed match tail {body[i:i+40]!r}")
    return out


def _pat_values(pat, anchor):
    """`0 | 2` -> [0, 2];  `1..=3` -> [1, 2, 3];  `_` -> None"""
    if pat == "_":
        return None
    m = re.fullmatch(r"(\d+)\s*\.\.=\s*(\d+)", pat)
    if m:
        return list(range(int(m.group(1)), int(m.group(2)) + 1))
    try:
        return [int(x.strip()) for x in pat.split("|")]
    except ValueError:
        raise ExtractError(f"extract:{anchor}: pattern {pat!r}")


def gen_headers_more(L, fr, bd, ls):
    RAW = {("raw", i): f"r{i}" for i in range(5)}
    # ---------------- literals section: header_bytes_needed
    b = fn_body(ls, "header_bytes_needed", "headers")
    groups = {}
    for key, pat in (("RawRle", r"LiteralsSectionType::RLE\s*\|\s*LiteralsSectionType::Raw\s*=>\s*\{"),
                     ("Compressed", r"LiteralsSectionType::Compressed\s*\|\s*LiteralsSectionType::Treeless\s*=>\s*\{")):
        inner = block_after(b, pat, f"headers:header_bytes_needed:{key}")
        mb = block_after(inner, r"match\s+size_format\s*\{", f"headers:header_bytes_needed:{key}:match")
        rows = []
        for pat_, blk in _arms(mb, f"headers:header_bytes_needed:{key}"):
            vals = _pat_values(pat_, "headers:header_bytes_needed")
            if vals is None:
                if "panic!" not in blk:
                    raise ExtractError("extract:headers:header_bytes_needed default arm")
                continue
            m = re.search(r"Ok\((\d+)\)", blk)
            if not m:
                raise ExtractError("extract:headers:header_bytes_needed arm value")
            rows += [(v, int(m.group(1))) for v in vals]
        groups[key] = rows
        L.append(f"/-- `LiteralsSection::header_bytes_needed`, {key} types: size_format ↦ header bytes -/")
        L.append(f"def litHdrBytes{key} : List (Nat × Nat) := {lean_tuples(rows)}")
    m = re.search(r"let\s+size_format\s*=\s*([^;]+);", b)
    if not m:
        raise ExtractError("extract:headers:header_bytes_needed size_format")
    L.append("/-- `header_bytes_needed`: `let size_format = …` as a function of the first byte -/")
    L.append(f"def litSizeFormatOfFirst (r0 : Nat) : Nat := {rust_expr(m.group(1), {'first_byte': 'r0'}, 'headers:size_format')}")
    b = fn_body(ls, "section_type", "headers")
    m = re.search(r"let\s+t\s*=\s*([^;]+);", b)
    if not m:
        raise ExtractError("extract:headers:section_type expr")
    L.append("/-- `section_type`: `let t = …` -/")
    L.append(f"def litTypeOfRaw (r0 : Nat) : Nat := {rust_expr(m.group(1), {'raw': 'r0'}, 'headers:section_type')}")
    # ---------------- literals section: parse_from_header size expressions
    b = fn_body(ls, "parse_from_header", "headers")
    tail = b[b.index("match self.ls_type"):]
    inner = block_after(tail, r"LiteralsSectionType::RLE\s*\|\s*LiteralsSectionType::Raw\s*=>\s*\{", "headers:parse_from_header:RawRle")
    mb = block_after(inner, r"match\s+size_format\s*\{", "headers:parse_from_header:RawRle:match")
    rows = []
    for pat_, blk in _arms(mb, "headers:parse_from_header:RawRle"):
        vals = _pat_values(pat_, "headers:parse_from_header")
        if vals is None:
            continue
        m1 = re.search(r"self\.regenerated_size\s*=\s*([^;]+);", blk)
        m2 = re.search(r"Ok\((\d+)\)", blk)
        if not m1 or not m2 or "compressed_size" in blk:
            raise ExtractError("extract:headers:parse_from_header RawRle arm")
        e = rust_expr(m1.group(1), RAW, "headers:parse_from_header:regen")
        reach = 1 + max(int(x) for x in re.findall(r"raw\[(\d)\]", blk))
        for v in vals:
            rows.append((v, e, int(m2.group(1)), reach))
    if sorted(r[0] for r in rows) != [0, 1, 2, 3]:
        raise ExtractError("extract:headers:parse_from_header RawRle arms incomplete")
    L.append("/-- `parse_from_header`, Raw/RLE: size_format ↦ (regenerated_size expression, bytes used); `rI` = `raw[I]` -/")
    L.append("def litParseRawRle (sf r0 r1 r2 r3 r4 : Nat) : Option (Nat × Nat) :=")
    L.append("  match sf with")
    for v, e, used, reach in sorted(rows):
        L.append(f"  | {v} => some ({e}, {used})")
    L.append("  | _ => none")
    L.append("/-- `parse_from_header`, Raw/RLE: size_format ↦ 1 + highest index `raw[I]` the arm touches -/")
    L.append(f"def litParseRawRleReach : List (Nat × Nat) := {lean_tuples([(v, reach) for v, _, _, reach in sorted(rows)])}")
    inner = block_after(tail, r"LiteralsSectionType::Compressed\s*\|\s*LiteralsSectionType::Treeless\s*=>\s*\{", "headers:parse_from_header:Compressed")
    # first match: num_streams, second match: sizes
    i1 = inner.index("match size_format")
    mb1 = block_after(inner[i1:], r"match\s+size_format\s*\{", "headers:parse_from_header:streams")
    i2 = inner.index("match size_format", i1 + 5)
    mb2 = block_after(inner[i2:], r"match\s+size_format\s*\{", "headers:parse_from_header:sizes")
    srows = []
    for pat_, blk in _arms(mb1, "headers:parse_from_header:streams"):
        vals = _pat_values(pat_, "headers:parse_from_header")
        if vals is None:
            continue
        m = re.search(r"self\.num_streams\s*=\s*Some\((\d+)\)", blk)
        if not m:
            raise ExtractError("extract:headers:parse_from_header num_streams arm")
        srows += [(v, int(m.group(1))) for v in vals]
    L.append("/-- `parse_from_header`, Compressed/Treeless: size_format ↦ num_streams -/")
    L.append(f"def litStreams : List (Nat × Nat) := {lean_tuples(sorted(srows))}")
    rows = []
    for pat_, blk in _arms(mb2, "headers:parse_from_header:sizes"):
        vals = _pat_values(pat_, "headers:parse_from_header")
        if vals is None:
            continue
        m1 = re.search(r"self\.regenerated_size\s*=\s*([^;]+);", blk)
        m3 = re.search(r"self\.compressed_size\s*=\s*Some\(((?:[^()]|\((?:[^()]|\((?:[^()]|\([^()]*\))*\))*\))*)\)\s*;", blk)
        m2 = re.search(r"Ok\((\d+)\)", blk)
        if not m1 or not m2 or not m3:
            raise ExtractError("extract:headers:parse_from_header Compressed arm")
        e1 = rust_expr(m1.group(1), RAW, "headers:parse_from_header:regen")
        e3 = rust_expr(m3.group(1).rstrip().rstrip(","), RAW, "headers:parse_from_header:comp")
        reach = 1 + max(int(x) for x in re.findall(r"raw\[(\d)\]", blk))
        for v in vals:
            rows.append((v, e1, e3, int(m2.group(1)), reach))
    if sorted(r[0] for r in rows) != [0, 1, 2, 3]:
        raise ExtractError("extract:headers:parse_from_header Compressed arms incomplete")
    L.append("/-- `parse_from_header`, Compressed/Treeless: size_format ↦ (regenerated, compressed, bytes used) -/")
    L.append("def litParseCompressed (sf r0 r1 r2 r3 r4 : Nat) : Option (Nat × Nat × Nat) :=")
    L.append("  match sf with")
    for v, e1, e3, used, reach in sorted(rows):
        L.append(f"  | {v} => some ({e1}, {e3}, {used})")
    L.append("  | _ => none")
    L.append("/-- `parse_from_header`, Compressed/Treeless: size_format ↦ 1 + highest index `raw[I]` the arm touches -/")
    L.append(f"def litParseCompressedReach : List (Nat × Nat) := {lean_tuples([(v, reach) for v, _, _, _, reach in sorted(rows)])}")
    # ---------------- block header (decoder)
    HB = {("self.header_buffer", i): f"b{i}" for i in range(3)}
    b = fn_body(bd, "block_content_size_unchecked", "headers")
    L.append("/-- `block_content_size_unchecked`; `bI` = `self.header_buffer[I]` -/")
    L.append(f"def blockSizeExpr (b0 b1 b2 : Nat) : Nat := {rust_expr(b, HB, 'headers:block_content_size_unchecked')}")
    b = fn_body(bd, "block_type", "headers")
    m = re.search(r"let\s+t\s*=\s*([^;]+);", b)
    if not m:
        raise ExtractError("extract:headers:block_type expr")
    L.append("/-- `block_type`: `let t = …` -/")
    L.append(f"def blockTypeExpr (b0 b1 b2 : Nat) : Nat := {rust_expr(m.group(1), HB, 'headers:block_type')}")
    b = fn_body(bd, "is_last", "headers")
    m = re.fullmatch(r"\s*(.+?)\s*==\s*1\s*", b, flags=re.S)
    if not m:
        raise ExtractError("extract:headers:is_last")
    L.append("/-- `is_last`: `… == 1` -/")
    L.append(f"def blockLastExpr (b0 b1 b2 : Nat) : Nat := {rust_expr(m.group(1), HB, 'headers:is_last')}")
    # decompressed_size / content_size per type in read_block_header
    b = fn_body(bd, "read_block_header", "headers")
    names = {"Raw": 0, "RLE": 1, "Compressed": 2, "Reserved": 3}
    for var, lean in (("decompressed_size", "blockDecompressedSizeArms"), ("content_size", "blockContentSizeArms")):
        mb = block_after(b, r"let\s+" + var + r"\s*=\s*match\s+btype\s*\{", f"headers:read_block_header:{var}")
        rows = []
        for t, v in re.findall(r"BlockType::(\w+)\s*=>\s*(block_size|\d+)", mb):
            rows.append((names[t], "none" if v == "block_size" else f"some {v}"))
        if sorted(r[0] for r in rows) != [0, 1, 2, 3]:
            raise ExtractError(f"extract:headers:read_block_header:{var}")
        L.append(f"/-- `read_block_header`: `{var}` per block type; `none` = `block_size` -/")
        L.append(f"def {lean} : List (Nat × Option Nat) := {lean_tuples(sorted(rows))}")
    # ---------------- block header (encoder)
    eb = strip_comments(read("ruzstd/src/encoding/block_header.rs"))
    b = fn_body(eb, "serialize", "headers")
    rows = [(names[t], int(v)) for t, v in re.findall(r"BlockType::(\w+)\s*=>\s*(\d+)\s*,", b)]
    if not re.search(r"BlockType::Reserved\s*=>\s*panic!", b) or sorted(r[0] for r in rows) != [0, 1, 2]:
        raise ExtractError("extract:headers:BlockHeader::serialize type arms")
    L.append("/-- encoder `BlockHeader::serialize`: block type ↦ encoded value (`Reserved` panics) -/")
    L.append(f"def encBlockTypeMap : List (Nat × Nat) := {lean_tuples(sorted(rows))}")
    m1 = re.search(r"let\s+mut\s+block_header\s*=\s*self\.block_size\s*<<\s*(\d+)\s*;", b)
    m2 = re.search(r"block_header\s*\|=\s*encoded_block_type\s*<<\s*(\d+)\s*;", b)
    m3 = re.search(r"block_header\s*\|=\s*self\.last_block as u32\s*;", b)
    m4 = re.search(r"block_header\.to_le_bytes\(\)\[0\.\.(\d+)\]", b)
    if not (m1 and m2 and m3 and m4):
        raise ExtractError("extract:headers:BlockHeader::serialize shifts")
    L.append("/-- encoder `BlockHeader::serialize`: `block_size << A | type << B | last`, first C little-endian bytes -/")
    L.append(f"def encBlockSizeShift : Nat := {m1.group(1)}")
    L.append(f"def encBlockTypeShift : Nat := {m2.group(1)}")
    L.append(f"def encBlockBytes : Nat := {m4.group(1)}")
    # ---------------- frame descriptor accessors and window size
    D = {"self.0": "d"}
    for fname, lean, iseq in (("frame_content_size_flag", "fdFcsFlag", False), ("single_segment_flag", "fdSingleSegment", True),
                              ("content_checksum_flag", "fdChecksum", True), ("dict_id_flag", "fdDictIdFlag", False)):
        b = fn_body(fr, fname, "headers")
        if iseq:
            m = re.fullmatch(r"\s*(.+?)\s*==\s*1\s*", b, flags=re.S)
            if not m:
                raise ExtractError(f"extract:headers:{fname}")
            e = rust_expr(m.group(1), D, f"headers:{fname}")
            L.append(f"/-- `FrameDescriptor::{fname}`: `… == 1` -/")
            L.append(f"def {lean} (d : Nat) : Bool := decide ({e} = 1)")
        else:
            e = rust_expr(b, D, f"headers:{fname}")
            L.append(f"/-- `FrameDescriptor::{fname}` -/")
            L.append(f"def {lean} (d : Nat) : Nat := {e}")
    b = fn_body(fr, "window_size", "headers")
    W = {"self.window_descriptor": "wd"}
    lets = re.findall(r"let\s+(\w+)\s*=\s*([^;]+);", b)
    want = ["exp", "mantissa", "window_log", "window_base", "window_add", "window_size"]
    if [n for n, _ in lets] != want:
        raise ExtractError(f"extract:headers:window_size lets {[n for n, _ in lets]}")
    L.append("/-- `FrameHeader::window_size`, the arithmetic of the non-single-segment branch; `wd` = `self.window_descriptor` -/")
    L.append("def windowSizeExpr (wd : Nat) : Nat :=")
    for n, e in lets:
        le = rust_expr(e, W, f"headers:window_size:{n}")
        L.append(f"  let {n} := {le}")
        W[n] = n
    L.append("  window_size")
    b = fn_body(fr, "read_frame_header", "headers")
    m = re.search(r"if\s+fcs_len\s*==\s*(\d+)\s*\{\s*fcs\s*\+=\s*(\d+)\s*;\s*\}", b)
    if not m:
        raise ExtractError("extract:headers:read_frame_header +256 rule")
    L.append("/-- `read_frame_header`: `if fcs_len == A { fcs += B }` -/")
    L.append(f"def fcsAddLen : Nat := {m.group(1)}")
    L.append(f"def fcsAdd : Nat := {m.group(2)}")
    # ---------------- encoder: frame header
    eh = strip_comments(read("ruzstd/src/encoding/frame_header.rs"))
    eh = eh[: eh.index("#[cfg(test)]")] if "#[cfg(test)]" in eh else eh
    b = fn_body(eh, "descriptor", "headers")
    mb = block_after(b, r"match\s+find_min_size\(id\)\s*\{", "headers:descriptor:dict arms")
    rows = [(int(a), int(c)) for a, c in re.findall(r"\b(\d+)\s*=>\s*(\d+)\s*,", mb)]
    if len(rows) != 4 or not re.search(r"_\s*=>\s*panic!", mb):
        raise ExtractError("extract:headers:descriptor dict arms")
    L.append("/-- encoder `FrameHeader::descriptor`: `find_min_size(dictionary_id)` ↦ Dictionary_ID_flag (other: panic) -/")
    L.append(f"def encDidFlagArms : List (Nat × Nat) := {lean_tuples(rows)}")
    mb = block_after(b, r"match\s+field_size\s*\{", "headers:descriptor:fcs arms")
    rows = [(int(a), int(c)) for a, c in re.findall(r"\b(\d+)\s*=>\s*(\d+)\s*,", mb)]
    if len(rows) != 4 or not re.search(r"_\s*=>\s*panic!", mb):
        raise ExtractError("extract:headers:descriptor fcs arms")
    L.append("/-- encoder `FrameHeader::descriptor`: `find_min_size(frame_content_size)` ↦ Frame_Content_Size_flag (other: panic) -/")
    L.append(f"def encFcsFlagArms : List (Nat × Nat) := {lean_tuples(rows)}")
    # order and widths of the descriptor bit fields
    order = re.findall(r"bw\.write_bits\(\s*(flag_value|0u8|1u8)\s*,\s*(\d+)\s*\)", b)
    widths = [int(w) for _, w in order]
    if widths != [2, 2, 1, 1, 1, 1, 1, 1, 2, 2]:
        raise ExtractError(f"extract:headers:descriptor write order {widths}")
    b = fn_body(eh, "serialize", "headers")
    m = re.search(r"let\s+exponent\s*=\s*if\s+log\s*>\s*(\d+)\s*\{\s*log\s*-\s*(\d+)\s*\}\s*else\s*\{\s*(\d+)\s*\}\s*as u8\s*;\s*output\.push\(exponent\s*<<\s*(\d+)\)", b)
    if not m or not re.search(r"let\s+log\s*=\s*window_size\.next_power_of_two\(\)\.ilog2\(\)\s*;", b):
        raise ExtractError("extract:headers:FrameHeader::serialize window descriptor")
    L.append("/-- encoder `FrameHeader::serialize`: `exponent = if log > A { log - B } else { C }; push(exponent << D)` -/")
    L.append(f"def encWinLogAbove : Nat := {m.group(1)}")
    L.append(f"def encWinLogSub : Nat := {m.group(2)}")
    L.append(f"def encWinExpElse : Nat := {m.group(3)}")
    L.append(f"def encWinShift : Nat := {m.group(4)}")
    b = fn_body(eh, "minify_val_fcs", "headers")
    m = re.search(r"if\s+new_size\s*==\s*(\d+)\s*\{\s*val\s*-=\s*(\d+)\s*;\s*\}", b)
    if not m:
        raise ExtractError("extract:headers:minify_val_fcs")
    L.append("/-- encoder `minify_val_fcs`: `if new_size == A { val -= B }` -/")
    L.append(f"def encFcsSubLen : Nat := {m.group(1)}")
    L.append(f"def encFcsSub : Nat := {m.group(2)}")
    eu = strip_comments(read("ruzstd/src/encoding/util.rs"))
    b = fn_body(eu, "find_min_size", "headers")
    rows = [(int(a), int(c)) for a, c in re.findall(r"if\s+val\s*>>\s*(\d+)\s*==\s*0\s*\{\s*return\s+(\d+)\s*;\s*\}", b)]
    m0 = re.search(r"if\s+val\s*==\s*0\s*\{\s*return\s+(\d+)\s*;\s*\}", b)
    m9 = re.search(r"\}\s*(\d+)\s*$", b.strip())
    if len(rows) != 3 or not m0 or not m9:
        raise ExtractError("extract:headers:find_min_size")
    L.append("/-- `find_min_size`: value for 0; `(shift, bytes)` tests in order (`val >> shift == 0`); default -/")
    L.append(f"def findMinSizeZero : Nat := {m0.group(1)}")
    L.append(f"def findMinSizeArms : List (Nat × Nat) := {lean_tuples(rows)}")
    L.append(f"def findMinSizeDefault : Nat := {m9.group(1)}")
    # what FrameCompressor::compress puts into the header
    fc = strip_comments(read("ruzstd/src/encoding/frame_compressor.rs"))
    m = re.search(r"let\s+header\s*=\s*FrameHeader\s*\{\s*frame_content_size\s*:\s*None\s*,\s*single_segment\s*:\s*false\s*,\s*content_checksum\s*:\s*cfg!\(feature\s*=\s*\"hash\"\)\s*,\s*dictionary_id\s*:\s*None\s*,\s*window_size\s*:\s*Some\(\s*self\s*\.state\s*\.matcher\s*\.window_size\(\)\s*(?:\.max\(\s*u64::from\(\s*crate::common::MAX_BLOCK_SIZE\s*\)\s*\)\s*,?\s*)?\)\s*,?\s*\}", fc)
    if not m:
        raise ExtractError("extract:headers:FrameCompressor::compress header literal")
    L.append("/-- `FrameCompressor::compress` builds `FrameHeader { frame_content_size: None, single_segment: false, content_checksum: cfg!(feature = \"hash\"), dictionary_id: None, window_size: Some(matcher.window_size() [.max(MAX_BLOCK_SIZE), see Gen.frameDeclaresAtLeastMaxBlock]) }` (anchor present) -/")
    L.append("def compressHeaderShape : Bool := true")
    # ---------------- encoder: literals section headers
    c = strip_comments(read("ruzstd/src/encoding/blocks/compressed.rs"))
    b = fn_body(c, "raw_literals", "headers")
    w = re.findall(r"writer\.write_bits\(\s*([^,]+?)\s*,\s*(\d+)\s*\)\s*;", b)
    if len(w) != 3 or w[2][0] != "literals.len() as u32" or rust_num(w[0][0]) is None or rust_num(w[1][0]) is None:
        raise ExtractError("extract:headers:raw_literals writes")
    L.append("/-- `raw_literals`: write_bits(type, A); write_bits(size_format, B); write_bits(len, C) -/")
    L.append(f"def rawLitWrites : List (Nat × Nat) := {lean_tuples([(rust_num(w[0][0]), int(w[0][1])), (rust_num(w[1][0]), int(w[1][1]))])}")
    L.append(f"def rawLitSizeBits : Nat := {int(w[2][1])}")
    b = fn_body(c, "compress_literals", "headers")
    m = re.search(r"if\s+new_table\s*\{\s*writer\.write_bits\(\s*(\w+)\s*,\s*(\d+)\s*\)\s*;\s*\}\s*else\s*\{\s*writer\.write_bits\(\s*(\w+)\s*,\s*(\d+)\s*\)\s*;\s*\}", b)
    if not m or m.group(2) != m.group(4):
        raise ExtractError("extract:headers:compress_literals type bits")
    L.append("/-- `compress_literals`: literals type written for a new table / for the reused table, and its width -/")
    L.append(f"def litTypeNewTable : Nat := {rust_num(m.group(1))}")
    L.append(f"def litTypeReuseTable : Nat := {rust_num(m.group(3))}")
    L.append(f"def litTypeBits : Nat := {m.group(2)}")
    mb = block_after(b, r"match\s+literals\.len\(\)\s*\{", "headers:compress_literals size_format arms")
    rows = [(int(lo), int(hi), rust_num(sf), int(bits)) for lo, hi, sf, bits in re.findall(r"(\d+)\s*\.\.\s*(\d+)\s*=>\s*\(\s*(\w+)\s*,\s*(\d+)\s*\)", mb)]
    if len(rows) != 4 or not re.search(r"_\s*=>\s*unimplemented!", mb) or len(re.findall(r"=>", mb)) != 5:
        raise ExtractError("extract:headers:compress_literals size_format arms")
    L.append("/-- `compress_literals`: `lo..hi => (size_format, size_bits)` (hi exclusive); anything else is `unimplemented!` -/")
    L.append(f"def litSizeFormatArms : List (Nat × Nat × Nat × Nat) := {lean_tuples(rows)}")
    seq = re.findall(r"writer\.(write_bits|change_bits)\(\s*([^;]+?)\s*\)\s*;", b[b.index("let (size_format, size_bits)"):])
    want = [("write_bits", "size_format, 2"), ("write_bits", "literals.len() as u32, size_bits"), ("write_bits", "0u32, size_bits"), ("change_bits", "size_index, encoded_len as u64, size_bits")]
    if seq != want:
        raise ExtractError(f"extract:headers:compress_literals write sequence {seq}")
    L.append("/-- `compress_literals` writes size_format (2 bits), regenerated size, a zero placeholder, then patches the compressed size in with change_bits (anchor present) -/")
    L.append("def litSizeFormatBits : Nat := 2")
    m = re.search(r"if\s+size_format\s*==\s*(\d+)\s*\{\s*encoder\.encode\(", b)
    if not m:
        raise ExtractError("extract:headers:compress_literals single-stream format")
    L.append("/-- `compress_literals`: the size_format that selects the single-stream encoder -/")
    L.append(f"def litSingleStreamFormat : Nat := {m.group(1)}")
    b = fn_body(c, "compress_block", "headers")
    m = re.search(r"if\s+literals_vec\.len\(\)\s*(>=|<=|==|!=|>|<)\s*(\d+)\s*\{\s*if\s+let\s+Some\(table\)\s*=\s*compress_literals", b)
    if not m:
        raise ExtractError("extract:headers:compress_block literals threshold")
    L.append(f"/-- `compress_block`: `if literals_vec.len() {m.group(1)} K` ⇒ try Huffman literals, else raw -/")
    L.append(f"def litCompressIf (a : Nat) : Bool := decide ({OPS[m.group(1)].replace('b', str(int(m.group(2))))})")


def gen_matcher():
    """match_generator.rs: constants of the suffix-store hash, the store-selection rule and the
    comparison operators / update statements the C17 model mirrors (anchors must stay recognisable)."""
    mg = strip_comments(read("ruzstd/src/encoding/match_generator.rs"))
    OPRE = r"(?P<op>>=|<=|==|!=|>|<)"
    L = ["/- GENERATED by tools/extract.py from /repo — do not edit. -/", "namespace Zstd.Gen", ""]
    L.append("/-- `match_generator.rs commit_space` SUFFIX_STORE_MIN_CAPACITY -/")
    L.append(f"def suffixStoreMinCapacity : Nat := {const_expr(fn_body(mg, 'commit_space', 'matcher'), 'SUFFIX_STORE_MIN_CAPACITY', 'matcher')}")
    kb = fn_body(mg[mg.index("impl SuffixStore"):], "key", "matcher")
    m = re.search(r"const\s+POLY\s*:\s*u64\s*=\s*(0x[0-9A-Fa-f_]+)u64\s*;", kb)
    if not m:
        raise ExtractError("extract:matcher:SuffixStore::key POLY")
    L.append("/-- `SuffixStore::key` POLY -/")
    L.append(f"def keyPoly : Nat := {num(m.group(1))}")
    shifts = []
    for i in range(5):
        if not re.search(rf"let\s+s{i}\s*=\s*suffix\[{i}\]\s+as\s+u64\s*;", kb):
            raise ExtractError(f"extract:matcher:SuffixStore::key s{i} load")
        m = re.search(rf"let\s+s{i}\s*=\s*\(s{i}\s*<<\s*(\d+)\)\.wrapping_mul\(POLY\)\s*;", kb)
        if not m:
            raise ExtractError(f"extract:matcher:SuffixStore::key s{i} shift")
        shifts.append(int(m.group(1)))
    if not re.search(r"let\s+index\s*=\s*s0\s*\^\s*s1\s*\^\s*s2\s*\^\s*s3\s*\^\s*s4\s*;\s*let\s+index\s*=\s*index\s*>>\s*\(64\s*-\s*self\.len_log\)\s*;\s*index\s+as\s+usize\s*%\s*self\.slots\.len\(\)", kb):
        raise ExtractError("extract:matcher:SuffixStore::key combine/shift/mod")
    L.append("/-- `SuffixStore::key`: left shift applied to byte i before the wrapping multiply -/")
    L.append(f"def keyShifts : List Nat := {lean_list(shifts)}")
    ns = fn_body(mg, "next_sequence", "matcher")
    G = []
    G.append(("mgAtEnd", guard(ns, r"if\s+self\.suffix_idx\s*" + OPRE + r"\s*data_slice\.len\(\)", "suffix_idx ? data_slice.len()"),
              "next_sequence `if self.suffix_idx OP data_slice.len()` (then-branch = end of block)"))
    G.append(("mgPendingLits", guard(ns, r"if\s+self\.last_idx_in_sequence\s*" + OPRE + r"\s*self\.suffix_idx", "last_idx_in_sequence ? suffix_idx"),
              "next_sequence `if self.last_idx_in_sequence OP self.suffix_idx` (then-branch = emit trailing literals)"))
    G.append(("mgTailShort", guard(ns, r"if\s+data_slice\.len\(\)\s*" + OPRE + r"\s*MIN_MATCH_LEN", "data_slice.len() ? MIN_MATCH_LEN"),
              "next_sequence `if data_slice.len() OP MIN_MATCH_LEN` (then-branch = rest is literals)"))
    G.append(("mgCandLenOk", guard(ns, r"if\s+match_len\s*" + OPRE + r"\s*MIN_MATCH_LEN", "match_len ? MIN_MATCH_LEN"),
              "next_sequence `if match_len OP MIN_MATCH_LEN` (then-branch = candidate accepted)"))
    m = re.search(r"if\s+match_len\s*(?P<op1>>=|<=|==|!=|>|<)\s*old_match_len\s*\|\|\s*\(match_len\s*(?P<op2>>=|<=|==|!=|>|<)\s*old_match_len\s*&&\s*offset\s*(?P<op3>>=|<=|==|!=|>|<)\s*old_offset\)", ns)
    if not m or m.group("op2") != "==":
        raise ExtractError("extract:matcher:next_sequence candidate replacement rule")
    G.append(("mgLongerWins", m.group("op1"), "next_sequence `match_len OP old_match_len` (true = replace candidate)"))
    G.append(("mgCloserWins", m.group("op3"), "next_sequence `match_len == old_match_len && offset OP old_offset` (true = replace candidate)"))
    rs = fn_body(mg, "reserve", "matcher")
    G.append(("mgReserveAssert", guard(rs, r"assert!\(\s*self\.max_window_size\s*" + OPRE + r"\s*amount\s*\)", "reserve assert"),
              "reserve `assert!(self.max_window_size OP amount)`"))
    G.append(("mgEvictWhile", guard(rs, r"while\s+self\.window_size\s*\+\s*amount\s*" + OPRE + r"\s*self\.max_window_size", "reserve while"),
              "reserve `while self.window_size + amount OP self.max_window_size` (true = evict the oldest entry)"))
    cs = fn_body(mg, "commit_space", "matcher")
    G.append(("mgStoreFits", guard(cs, r"store\.len_log\s*" + OPRE + r"\s*requested_size_log", "store.len_log ? requested_size_log"),
              "commit_space `store.len_log OP requested_size_log` (true = pooled store is reused)"))
    for name, op, where in G:
        L.append(f"/-- `match_generator.rs {where}`; source operator `{op}` -/")
        L.append(f"def {name} (a b : Nat) : Bool := decide ({OPS[op]})")
    # statements whose exact shape the model mirrors (presence only)
    anchors = [
        ("offset formula", r"let\s+offset\s*=\s*match_entry\.base_offset\s*\+\s*self\.suffix_idx\s*-\s*match_index\s*;", ns),
        ("match slice of the last entry", r"&match_entry\.data\[match_index\.\.self\.suffix_idx\]", ns),
        ("match slice of an older entry", r"&match_entry\.data\[match_index\.\.\]", ns),
        ("key slice", r"let\s+key\s*=\s*&data_slice\[\.\.MIN_MATCH_LEN\]\s*;", ns),
        ("advance by match", r"self\.add_suffixes_till\(self\.suffix_idx\s*\+\s*match_len\)\s*;", ns),
        ("advance by one", r"self\.suffix_idx\s*\+=\s*1\s*;", ns),
        ("base offset update", r"entry\.base_offset\s*\+=\s*last_len\s*;", fn_body(mg, "add_data", "matcher")),
        ("new entry base offset", r"base_offset\s*:\s*0\s*,", fn_body(mg, "add_data", "matcher")),
        ("window_size update", r"self\.window_size\s*\+=\s*len\s*;", fn_body(mg, "add_data", "matcher")),
        ("add_data assert", r"assert!\(\s*self\.window\.is_empty\(\)\s*\|\|\s*self\.suffix_idx\s*==\s*self\.window\.last\(\)\.unwrap\(\)\.data\.len\(\)\s*\)", fn_body(mg, "add_data", "matcher")),
        ("eviction", r"let\s+removed\s*=\s*self\.window\.remove\(0\)\s*;\s*self\.window_size\s*-=\s*removed\.data\.len\(\)\s*;", rs),
        ("suffix windows", r"slice\.windows\(MIN_MATCH_LEN\)\.enumerate\(\)", fn_body(mg, "add_suffixes_till", "matcher")),
        ("suffix slice", r"&last_entry\.data\[self\.suffix_idx\.\.idx\]", fn_body(mg, "add_suffixes_till", "matcher")),
        ("store size", r"usize::max\(\s*SUFFIX_STORE_MIN_CAPACITY\s*,\s*space\.len\(\)\.next_power_of_two\(\)\s*\)", cs),
        ("common prefix chunk", r"Self::mismatch_chunks::<8>\(a,\s*b\)", fn_body(mg, "common_prefix_len", "matcher")),
    ]
    for name, pat, text in anchors:
        if not re.search(pat, text):
            raise ExtractError(f"extract:matcher:{name}")
    # the recycling closures clear the store (both in reset and in commit_space)
    n_clear = len(re.findall(r"suffixes\.slots\.clear\(\)\s*;\s*suffixes\.slots\.resize\(\s*suffixes\.slots\.capacity\(\)\s*,\s*None\s*\)\s*;", mg))
    if n_clear != 2:
        raise ExtractError(f"extract:matcher:recycled suffix store is cleared (found {n_clear} of 2 sites)")
    L.append("/-- both recycling closures clear the suffix store (`slots.clear(); slots.resize(capacity, None)`) -/")
    L.append("def recycledStoreCleared : Bool := true")
    L += ["", "end Zstd.Gen", ""]
    return "\n".join(L)


def struct_fields(text, name, anchor):
    m = re.search(r"\bstruct\s+" + re.escape(name) + r"\s*(<[^>]*>)?\s*\{", text)
    if not m:
        raise ExtractError(f"extract:{anchor}:struct {name}")
    i = m.end() - 1
    depth = 0
    for j in range(i, len(text)):
        if text[j] == "{":
            depth += 1
        elif text[j] == "}":
            depth -= 1
            if depth == 0:
                body = text[i + 1 : j]
                break
    else:
        raise ExtractError(f"extract:{anchor}:struct {name}: unbalanced")
    body = re.sub(r"#\[[^\]]*\]", "", body)
    fields = re.findall(r"(?:^|,|\n)\s*(?:pub(?:\([a-z]+\))?\s+)?([a-z_][a-z0-9_]*)\s*:", body)
    if not fields:
        raise ExtractError(f"extract:{anchor}:struct {name}: no fields")
    return fields


def reset_touches(body):
    """paths `self.a(.b)*` that a reset body assigns to or clears/resets/reserves"""
    paths = []
    for m in re.finditer(r"self((?:\s*\.\s*[a-z_][a-z0-9_]*)+)\s*(=(?!=)|\.\s*(?:clear|reset|reserve|truncate)\s*\()", body):
        path = [x.strip() for x in m.group(1).split(".") if x.strip()]
        paths.append(path)
    return paths


def impl_fn_body(text, type_name, fn_name, anchor):
    """body of `fn fn_name` inside `impl type_name { … }` (first impl block that has it)"""
    for m in re.finditer(r"\bimpl(?:<[^>]*>)?\s+" + re.escape(type_name) + r"\b[^{]*\{", text):
        i = m.end() - 1
        depth = 0
        for j in range(i, len(text)):
            if text[j] == "{":
                depth += 1
            elif text[j] == "}":
                depth -= 1
                if depth == 0:
                    block = text[i + 1 : j]
                    if re.search(r"\bfn\s+" + re.escape(fn_name) + r"\s*(<[^>]*>)?\s*\(", block):
                        return fn_body(block, fn_name, anchor)
                    break
    raise ExtractError(f"extract:{anchor}:impl {type_name}::{fn_name}")


def gen_reset():
    """C07: which fields each `reset` touches, against the full field list of the struct.
    A field that a reset no longer touches (or a new field nobody resets) changes these lists and
    breaks `Zstd.Props.C07.reset_covers_*`."""
    fd = strip_comments(read("ruzstd/src/decoding/frame_decoder.rs"))
    sc = strip_comments(read("ruzstd/src/decoding/scratch.rs"))
    db = strip_comments(read("ruzstd/src/decoding/decode_buffer.rs"))
    fse = strip_comments(read("ruzstd/src/fse/fse_decoder.rs"))
    huf = strip_comments(read("ruzstd/src/huff0/huff0_decoder.rs"))
    rb = strip_comments(read("ruzstd/src/decoding/ringbuffer.rs"))
    L = ["/- GENERATED by tools/extract.py from /repo — do not edit. -/", "namespace Zstd.Gen", ""]

    def emit(lean, fields, where):
        L.append(f"/-- `{where}` -/")
        L.append(f"def {lean} : List String := [" + ", ".join('"%s"' % f for f in fields) + "]")

    def top(paths):
        out = []
        for p_ in paths:
            if p_[0] not in out:
                out.append(p_[0])
        return out

    def sub(paths, first):
        out = []
        for p_ in paths:
            if p_[0] == first and len(p_) > 1 and p_[1] not in out:
                out.append(p_[1])
        return out

    emit("frameStateFields", struct_fields(fd, "FrameDecoderState", "reset"), "frame_decoder.rs struct FrameDecoderState")
    t = reset_touches(impl_fn_body(fd, "FrameDecoderState", "reset", "reset"))
    emit("frameStateReset", top(t), "frame_decoder.rs FrameDecoderState::reset: fields assigned / reset")
    emit("scratchFields", struct_fields(sc, "DecoderScratch", "reset"), "scratch.rs struct DecoderScratch")
    t = reset_touches(impl_fn_body(sc, "DecoderScratch", "reset", "reset"))
    emit("scratchReset", top(t), "scratch.rs DecoderScratch::reset: top-level fields touched")
    emit("fseScratchFields", struct_fields(sc, "FSEScratch", "reset"), "scratch.rs struct FSEScratch")
    emit("fseScratchReset", sub(t, "fse"), "scratch.rs DecoderScratch::reset: `self.fse.X` touched")
    emit("hufScratchFields", struct_fields(sc, "HuffmanScratch", "reset"), "scratch.rs struct HuffmanScratch")
    emit("hufScratchReset", sub(t, "huf"), "scratch.rs DecoderScratch::reset: `self.huf.X` touched")
    emit("decodeBufferFields", struct_fields(db, "DecodeBuffer", "reset"), "decode_buffer.rs struct DecodeBuffer")
    emit("decodeBufferReset", top(reset_touches(impl_fn_body(db, "DecodeBuffer", "reset", "reset"))), "decode_buffer.rs DecodeBuffer::reset")
    emit("fseTableFields", struct_fields(fse, "FSETable", "reset"), "fse_decoder.rs struct FSETable")
    emit("fseTableReset", top(reset_touches(impl_fn_body(fse, "FSETable", "reset", "reset"))), "fse_decoder.rs FSETable::reset")
    emit("hufTableFields", struct_fields(huf, "HuffmanTable", "reset"), "huff0_decoder.rs struct HuffmanTable")
    emit("hufTableReset", top(reset_touches(impl_fn_body(huf, "HuffmanTable", "reset", "reset"))), "huff0_decoder.rs HuffmanTable::reset")
    emit("ringFields", struct_fields(rb, "RingBuffer", "reset"), "ringbuffer.rs struct RingBuffer")
    emit("ringClear", top(reset_touches(impl_fn_body(rb, "RingBuffer", "clear", "reset"))), "ringbuffer.rs RingBuffer::clear")
    # init_from_dict: what a dictionary seeds
    t = reset_touches(impl_fn_body(sc, "DecoderScratch", "init_from_dict", "reset"))
    body = impl_fn_body(sc, "DecoderScratch", "init_from_dict", "reset")
    seeded = []
    for m in re.finditer(r"self((?:\s*\.\s*[a-z_][a-z0-9_]*)+)\s*(?:=(?!=)|\.\s*(?:reinit_from|clear|extend_from_slice)\s*\()", body):
        path = ".".join(x.strip() for x in m.group(1).split(".") if x.strip())
        if path not in seeded:
            seeded.append(path)
    emit("dictSeeds", seeded, "scratch.rs DecoderScratch::init_from_dict: paths written")
    # the initial offset history (new and reset must agree)
    hists = re.findall(r"offset_hist\s*[:=]\s*\[\s*(\d+)\s*,\s*(\d+)\s*,\s*(\d+)\s*\]", sc)
    if len(hists) != 2:
        raise ExtractError("extract:reset:offset_hist initialisers")
    L.append("/-- `scratch.rs` initial offset history in `new` and in `reset` -/")
    L.append(f"def offsetHistNew : List Nat := [{', '.join(hists[0])}]")
    L.append(f"def offsetHistReset : List Nat := [{', '.join(hists[1])}]")
    L += ["", "end Zstd.Gen", ""]
    return "\n".join(L)


def gen_huf():
    """Constants / operators of the Huffman coder (C13): every one is plain source text."""
    enc = strip_comments(read("ruzstd/src/huff0/huff0_encoder.rs"))
    dec = strip_comments(read("ruzstd/src/huff0/huff0_decoder.rs"))
    lsd = strip_comments(read("ruzstd/src/decoding/literals_section_decoder.rs"))
    OPRE = r"(?P<op>>=|<=|==|!=|>|<)"
    N = []  # (name, value, where)
    G = []  # (name, op, where)

    def need(text, pattern, anchor, flags=0):
        m = re.search(pattern, text, flags)
        if not m:
            raise ExtractError(f"extract:huf:{anchor}")
        return m

    # --- encoder: build_from_counts depth limit `weights.len().ilog2() as usize + K`
    b = fn_body(enc, "build_from_counts", "huf")
    m = need(b, r"let\s+limit\s*=\s*weights\.len\(\)\.ilog2\(\)\s*as\s+usize\s*\+\s*(\d+)\s*;", "build_from_counts limit")
    N.append(("hufLimitAdd", int(m.group(1)), "huff0_encoder.rs build_from_counts: `limit = weights.len().ilog2() + K`"))
    m = need(b, r"assert!\(\s*counts\.len\(\)\s*" + OPRE + r"\s*(\d+)\s*\)", "build_from_counts assert")
    N.append(("hufMaxCounts", int(m.group(2)), "huff0_encoder.rs build_from_counts: `assert!(counts.len() OP K)`"))
    G.append(("hufCountsLenOk", m.group("op"), "huff0_encoder.rs build_from_counts `assert!(counts.len() OP 256)`"))
    # --- encoder: distribute_weights asserts
    b = fn_body(enc, "distribute_weights", "huf")
    m1 = need(b, r"assert!\(\s*amount\s*" + OPRE + r"\s*(\d+)\s*\)\s*;\s*assert!\(\s*amount\s*(?P<op2>>=|<=|==|!=|>|<)\s*(\d+)\s*\)", "distribute_weights asserts")
    G.append(("hufAmountLoOk", m1.group("op"), "huff0_encoder.rs distribute_weights first `assert!(amount OP K)`"))
    N.append(("hufAmountLo", int(m1.group(2)), "huff0_encoder.rs distribute_weights first assert bound"))
    G.append(("hufAmountHiOk", m1.group("op2"), "huff0_encoder.rs distribute_weights second `assert!(amount OP K)`"))
    N.append(("hufAmountHi", int(m1.group(4)), "huff0_encoder.rs distribute_weights second assert bound"))
    # --- encoder: write_table
    b = fn_body(enc, "write_table", "huf")
    m = need(b, r"if\s+weights\.len\(\)\s*" + OPRE + r"\s*(\d+)\s*\{", "write_table direct/fse switch")
    G.append(("hufUseFse", m.group("op"), "huff0_encoder.rs write_table `if weights.len() OP K` (then-branch = FSE-compressed form)"))
    N.append(("hufDirectMax", int(m.group(2)), "huff0_encoder.rs write_table direct/FSE switch bound"))
    m = need(b, r"build_table_from_data\(\s*weights\.iter\(\)\.copied\(\)\s*,\s*(\d+)\s*,\s*(true|false)\s*\)", "write_table fse params")
    N.append(("hufWeightsMaxLogEnc", int(m.group(1)), "huff0_encoder.rs write_table: max accuracy log of the weights' FSE table"))
    m = need(b, r"assert!\(\s*encoded_len\s*" + OPRE + r"\s*(\d+)\s*\)", "write_table encoded_len assert")
    G.append(("hufFseLenOk", m.group("op"), "huff0_encoder.rs write_table `assert!(encoded_len OP K)`"))
    N.append(("hufFseLenBound", int(m.group(2)), "huff0_encoder.rs write_table encoded_len bound"))
    m = need(b, r"write_bits\(\s*weights\.len\(\)\s*as\s+u8\s*\+\s*(\d+)\s*,\s*8\s*\)", "write_table direct header")
    N.append(("hufDirectHeaderAddEnc", int(m.group(1)), "huff0_encoder.rs write_table: direct header byte = len + K"))
    # nibble order of the direct form: which of weight1 / weight2 is written first (= low nibble)
    order = re.findall(r"self\.writer\.write_bits\(\s*(weight1|weight2)\s*,\s*4\s*\)", b)
    if sorted(order) != ["weight1", "weight2"]:
        raise ExtractError("extract:huf:write_table nibble writes")
    m = need(b, r"write_bits\(\s*weight\s*<<\s*(\d+)\s*,\s*8\s*\)", "write_table odd remainder")
    N.append(("hufOddShift", int(m.group(1)), "huff0_encoder.rs write_table: odd remainder written as `weight << K`"))
    # --- encoder: encode4x
    b = fn_body(enc, "encode4x", "huf")
    m = need(b, r"assert!\(\s*data\.len\(\)\s*" + OPRE + r"\s*(\d+)\s*\)", "encode4x assert")
    G.append(("hufEnc4LenOk", m.group("op"), "huff0_encoder.rs encode4x `assert!(data.len() OP K)`"))
    N.append(("hufEnc4MinLen", int(m.group(2)), "huff0_encoder.rs encode4x min length"))
    m = need(b, r"data\.len\(\)\.div_ceil\(\s*(\d+)\s*\)", "encode4x split")
    N.append(("hufSplitDiv", int(m.group(1)), "huff0_encoder.rs encode4x: split_size = len.div_ceil(K)"))
    # --- decoder
    b = fn_body(dec, "read_weights", "huf")
    m = need(b, r"(\d+)\s*\.\.=\s*(\d+)\s*=>", "read_weights header arm")
    if int(m.group(1)) != 0:
        raise ExtractError("extract:huf:read_weights header arm lower bound")
    N.append(("hufFseHeaderMax", int(m.group(2)), "huff0_decoder.rs read_weights: `0..=K` = FSE-compressed form"))
    m = need(b, r"self\.fse_table\.build_decoder\(\s*fse_stream\s*,\s*(\d+)\s*\)", "read_weights fse max log")
    N.append(("hufWeightsMaxLogDec", int(m.group(1)), "huff0_decoder.rs read_weights: max accuracy log of the weights' FSE table"))
    m = need(b, r"let\s+num_weights\s*=\s*header\s*-\s*(\d+)\s*;", "read_weights direct header")
    N.append(("hufDirectHeaderSubDec", int(m.group(1)), "huff0_decoder.rs read_weights: num_weights = header - K"))
    m = need(b, r"if\s+self\.weights\.len\(\)\s*" + OPRE + r"\s*(\d+)\s*\{", "read_weights too many weights")
    G.append(("hufTooManyWeights", m.group("op"), "huff0_decoder.rs read_weights `if self.weights.len() OP K` (then-branch = TooManyWeights)"))
    N.append(("hufTooManyWeightsBound", int(m.group(2)), "huff0_decoder.rs read_weights TooManyWeights bound"))
    ends = re.findall(r"if\s+br\.bits_remaining\(\)\s*(>=|<=|==|!=|>|<)\s*(-?\d+)\s*\{", b)
    if len(ends) != 2 or ends[0] != ends[1]:
        raise ExtractError("extract:huf:read_weights termination rule")
    G.append(("hufFseStreamEnd", ends[0][0], "huff0_decoder.rs read_weights `if br.bits_remaining() OP K` (then-branch = stop), a = bits_remaining + offset, b = K + offset (offset 4096 keeps both in Nat)"))
    N.append(("hufFseStreamEndK", int(ends[0][1]) + 4096, "huff0_decoder.rs read_weights termination constant + 4096"))
    m = need(b, r"if\s+idx\s*%\s*2\s*==\s*0\s*\{\s*self\.weights\[idx as usize\]\s*=\s*weights_raw\[idx as usize / 2\]\s*(>>\s*4|&\s*0xF)\s*;", "read_weights nibble order")
    dec_even_high = m.group(1).startswith(">>")
    m = need(b, r"if\s+val\s*==\s*1\s*\|\|\s*skipped_bits\s*" + OPRE + r"\s*(\d+)", "read_weights padding loop")
    N.append(("hufMaxSkip", int(m.group(2)), "huff0_decoder.rs read_weights: padding loop stops when skipped_bits > K"))
    b = fn_body(dec, "build_table_from_weights", "huf")
    m = need(b, r"if\s+\*w\s*" + OPRE + r"\s*MAX_MAX_NUM_BITS", "build_table weight check")
    G.append(("hufWeightTooBig", m.group("op"), "huff0_decoder.rs build_table_from_weights `if *w OP MAX_MAX_NUM_BITS` (then-branch = reject)"))
    m = need(b, r"if\s+max_bits\s*" + OPRE + r"\s*MAX_MAX_NUM_BITS", "build_table max_bits check")
    G.append(("hufMaxBitsTooHigh", m.group("op"), "huff0_decoder.rs build_table_from_weights `if max_bits OP MAX_MAX_NUM_BITS` (then-branch = reject)"))
    b = fn_body(dec, "new", "huf")
    m = need(dec, r"fse_table\s*:\s*FSETable::new\(\s*(\d+)\s*\)", "HuffmanTable::new fse max symbol")
    N.append(("hufFseMaxSymbol", int(m.group(1)), "huff0_decoder.rs HuffmanTable::new: FSETable::new(K)"))
    # --- literals section decoder
    b = fn_body(lsd, "decompress_literals", "huf")
    m = need(b, r"if\s+source\.len\(\)\s*" + OPRE + r"\s*(\d+)\s*\{\s*return\s+Err\(err::MissingBytesForJumpHeader", "decompress_literals jump header")
    G.append(("hufJumpHeaderMissing", m.group("op"), "literals_section_decoder.rs `if source.len() OP 6` (then-branch = MissingBytesForJumpHeader)"))
    N.append(("hufJumpHeaderLen", int(m.group(2)), "literals_section_decoder.rs jump header length"))
    m = need(b, r"if\s+source\.len\(\)\s*" + OPRE + r"\s*jump3\s*\{", "decompress_literals jump3 check")
    G.append(("hufJumpTooFar", m.group("op"), "literals_section_decoder.rs `if source.len() OP jump3` (then-branch = MissingBytesForLiterals)"))
    L = ["/- GENERATED by tools/extract.py from /repo — do not edit. -/", "namespace Zstd.Gen", ""]
    for name, val, where in N:
        L.append(f"/-- `{where}` -/")
        L.append(f"def {name} : Nat := {val}")
    for name, op, where in G:
        L.append(f"/-- `{where}`; source operator `{op}` -/")
        L.append(f"def {name} (a b : Nat) : Bool := decide ({OPS[op]})")
    L.append("/-- `write_table` direct form: is `weight2` (the second weight of a pair) written first, i.e. into the LOW nibble? -/")
    L.append(f"def hufPairSecondLow : Bool := {'true' if order[0] == 'weight2' else 'false'}")
    L.append("/-- `read_weights` direct form: does an even index take the HIGH nibble (`>> 4`)? -/")
    L.append(f"def hufEvenIdxHigh : Bool := {'true' if dec_even_high else 'false'}")
    L += ["", "end Zstd.Gen", ""]
    return "\n".join(L)


def gen_enc():
    """Frame/block-level encoder facts (C02, C15, C16): presence of the per-frame resets, the raw
    fallback and its Huffman-table reset, literals thresholds, block-header and window-descriptor
    arithmetic.  Guards are `Nat -> Nat -> Bool`; presence facts are `Bool` (absence is a value, not
    an extraction error: the theorems that need the statement then stop checking)."""
    fc = strip_comments(read("ruzstd/src/encoding/frame_compressor.rs"))
    fa = strip_comments(read("ruzstd/src/encoding/levels/fastest.rs"))
    co = strip_comments(read("ruzstd/src/encoding/blocks/compressed.rs"))
    bh = strip_comments(read("ruzstd/src/encoding/block_header.rs"))
    fh = strip_comments(read("ruzstd/src/encoding/frame_header.rs"))
    OPRE = r"(?P<op>>=|<=|==|!=|>|<)"
    L = ["/- GENERATED by tools/extract.py from /repo — do not edit. -/", "import Zstd.Gen.Headers", "namespace Zstd.Gen", ""]

    def B(name, val, doc):
        L.append(f"/-- {doc} -/")
        L.append(f"def {name} : Bool := {'true' if val else 'false'}")

    def N(name, val, doc):
        L.append(f"/-- {doc} -/")
        L.append(f"def {name} : Nat := {val}")

    def G(name, op, doc):
        L.append(f"/-- {doc}; source operator `{op}` -/")
        L.append(f"def {name} (a b : Nat) : Bool := decide ({OPS[op]})")

    # ---- FrameCompressor::compress: per-frame resets happen before the source is touched
    body = fn_body(fc, "compress", "enc")
    cut = body.find("let source")
    if cut < 0:
        raise ExtractError("extract:enc:compress: `let source` anchor")
    pre = body[:cut]
    B("frameResetsMatcher", re.search(r"self\.state\.matcher\.reset\(\s*self\.compression_level\s*\)\s*;", pre) is not None,
      "`FrameCompressor::compress` calls `self.state.matcher.reset(self.compression_level)` before reading")
    B("frameResetsHuff", re.search(r"self\.state\.last_huff_table\s*=\s*None\s*;", pre) is not None,
      "`FrameCompressor::compress` sets `self.state.last_huff_table = None` before reading")
    B("frameReseedsHasher", re.search(r"self\.hasher\s*=\s*XxHash64::with_seed\(\s*0\s*\)\s*;", pre) is not None,
      "`FrameCompressor::compress` re-seeds `self.hasher = XxHash64::with_seed(0)` before reading")
    # what is hashed: the block just read
    B("hashesInputBlock", re.search(r"self\.hasher\.write\(\s*&uncompressed_data\s*\)\s*;", body) is not None,
      "`self.hasher.write(&uncompressed_data)` (the block read from the source is what is hashed)")
    # header fields
    m = re.search(r"FrameHeader\s*\{\s*frame_content_size:\s*None\s*,\s*single_segment:\s*false\s*,\s*content_checksum:\s*cfg!\(feature\s*=\s*\"hash\"\)\s*,\s*dictionary_id:\s*None\s*,\s*window_size:\s*Some\(\s*self\s*\.state\s*\.matcher\s*\.window_size\(\)\s*(?P<max>\.max\(\s*u64::from\(\s*crate::common::MAX_BLOCK_SIZE\s*\)\s*\)\s*,?\s*)?\)\s*,?\s*\}", body)
    if not m:
        raise ExtractError("extract:enc:compress: FrameHeader literal")
    B("frameDeclaresAtLeastMaxBlock", m.group("max") is not None,
      "`window_size: Some(matcher.window_size().max(u64::from(MAX_BLOCK_SIZE)))`: the declared window covers every block (repair of F13)")
    # last-block logic of the read loop: `new_bytes == 0 -> last_block = true`, `read_bytes == len -> false`
    m = re.search(r"if\s+new_bytes\s*==\s*0\s*\{\s*last_block\s*=\s*(true|false)\s*;\s*break\s+'read_loop\s*;\s*\}\s*read_bytes\s*\+=\s*new_bytes\s*;\s*if\s+read_bytes\s*" + OPRE + r"\s*uncompressed_data\.len\(\)\s*\{\s*last_block\s*=\s*(true|false)\s*;\s*break\s+'read_loop\s*;", body)
    if not m:
        raise ExtractError("extract:enc:compress: read loop")
    B("readZeroMeansLast", m.group(1) == "true", "read loop: `new_bytes == 0` sets `last_block` to this value")
    G("readFullGuard", m.group("op"), "read loop: `read_bytes OP uncompressed_data.len()` ends the block")
    B("readFullMeansLast", m.group(3) == "true", "read loop: a full block sets `last_block` to this value")
    # ---- compress_fastest
    m = re.search(r"if\s+compressed_size\s*(>=|<=|==|!=|>|<)\s*block_size as usize\s*\|\|\s*compressed_size\s*(>=|<=|==|!=|>|<)\s*MAX_BLOCK_SIZE as usize\s*\{(?P<then>.*?)\}\s*else\s*\{", fa, flags=re.S)
    present = m is not None and "BlockType::Raw" in m.group("then") and "get_last_space()" in m.group("then")
    B("fastestRawFallbackPresent", present, "`compress_fastest` has the raw-fallback branch (`if compressed_size .. || .. { Raw }`)")
    B("fastestRawForgetsHuff", present and re.search(r"state\.last_huff_table\s*=\s*None\s*;", m.group("then")) is not None,
      "the raw-fallback branch sets `state.last_huff_table = None` (repair of F5)")
    # ---- compress_block
    body = fn_body(co, "compress_block", "enc")
    m = re.search(r"of:\s*\(\s*offset\s*\+\s*(\d+)\s*\)\s*as u32", body)
    if not m:
        raise ExtractError("extract:enc:compress_block: of: (offset + K)")
    N("offsetAdd", int(m.group(1)), "`compress_block`: `of: (offset + K) as u32`")
    m = re.search(r"if\s+literals_vec\.len\(\)\s*" + OPRE + r"\s*(\d+)\s*\{", body)
    if not m:
        raise ExtractError("extract:enc:compress_block: literals threshold")
    G("litHuffGuard", m.group("op"), "`compress_block`: `if literals_vec.len() OP K` (then = compress_literals, else raw_literals)")
    N("litHuffThreshold", int(m.group(2)), "`compress_block`: the K of the guard above")
    # ---- choose_table: today always a new table (previous / predefined tables are never used)
    body = fn_body(co, "choose_table", "enc")
    if not re.search(r"let use_new_table\s*=\s*true\s*;\s*let use_previous_table\s*=\s*false\s*;", body):
        raise ExtractError("extract:enc:choose_table: strategy changed (model assumes: always a new table)")
    # ---- raw_literals: 2 bits type 0, 2 bits size format 0b11, 20 bits size
    body = fn_body(co, "raw_literals", "enc")
    m = re.search(r"writer\.write_bits\(\s*0u8\s*,\s*2\s*\)\s*;\s*writer\.write_bits\(\s*0b11u8\s*,\s*2\s*\)\s*;\s*writer\.write_bits\(\s*literals\.len\(\) as u32\s*,\s*(\d+)\s*\)\s*;\s*writer\.append_bytes\(\s*literals\s*\)\s*;", body)
    if not m:
        raise ExtractError("extract:enc:raw_literals")
    _unused_raw_lit_bits = ("rawLitSizeBits", int(m.group(1)), "`raw_literals`: type 0 (2 bits), size format 0b11 (2 bits), size in this many bits")
    # ---- compress_literals
    body = fn_body(co, "compress_literals", "enc")
    m = re.search(r"if\s+diff\s*" + OPRE + r"\s*(\d+)\s*\{", body)
    if not m:
        raise ExtractError("extract:enc:compress_literals: diff guard")
    G("treelessDiffGuard", m.group("op"), "`compress_literals`: `if diff OP K` (then = new table)")
    N("treelessDiffK", int(m.group(2)), "`compress_literals`: the K of the guard above")
    m = re.search(r"if\s+total_len\s*" + OPRE + r"\s*literals\.len\(\)\s*\{", body)
    if not m:
        raise ExtractError("extract:enc:compress_literals: raw fallback guard")
    G("litRawFallbackGuard", m.group("op"), "`compress_literals`: `if total_len OP literals.len()` (then = reset and write raw literals)")
    arms = re.findall(r"(\d+)\s*\.\.\s*(\d+)\s*=>\s*\(\s*(0b[01]+)(?:u8)?\s*,\s*(\d+)\s*\)", body)
    if len(arms) != 4 or not re.search(r"_\s*=>\s*unimplemented!", body):
        raise ExtractError("extract:enc:compress_literals: size format arms")
    # ---- BlockHeader::serialize
    body = fn_body(bh, "serialize", "enc")
    rows = re.findall(r"BlockType::(\w+)\s*=>\s*(\d+)", body)
    if [r[0] for r in rows] != ["Raw", "RLE", "Compressed"] or "BlockType::Reserved => panic!" not in body:
        raise ExtractError("extract:enc:BlockHeader::serialize: type arms")
    names = {"Raw": "blockTypeRaw", "RLE": "blockTypeRle", "Compressed": "blockTypeCompressed"}
    for n, v in rows:
        N(names[n], int(v), f"`BlockHeader::serialize`: `BlockType::{n} => {v}`")
    m = re.search(r"let mut block_header\s*=\s*self\.block_size\s*<<\s*(\d+)\s*;\s*block_header\s*\|=\s*encoded_block_type\s*<<\s*(\d+)\s*;\s*block_header\s*\|=\s*self\.last_block as u32\s*;\s*output\.extend_from_slice\(\s*&block_header\.to_le_bytes\(\)\[0\.\.(\d+)\]\s*\)", body)
    if not m:
        raise ExtractError("extract:enc:BlockHeader::serialize: shifts")
    N("blockSizeShift", int(m.group(1)), "`block_header = self.block_size << K`")
    N("blockTypeShift", int(m.group(2)), "`block_header |= encoded_block_type << K`")
    N("blockHeaderBytes", int(m.group(3)), "`to_le_bytes()[0..K]`")
    # ---- FrameHeader::serialize: window descriptor
    body = fn_body(fh, "serialize", "enc")
    m = re.search(r"let log\s*=\s*window_size\.next_power_of_two\(\)\.ilog2\(\)\s*;\s*let exponent\s*=\s*if\s+log\s*" + OPRE + r"\s*(\d+)\s*\{\s*log\s*-\s*(\d+)\s*\}\s*else\s*\{\s*(\d+)\s*\}\s*as u8\s*;\s*output\.push\(\s*exponent\s*<<\s*(\d+)\s*\)", body)
    if not m:
        raise ExtractError("extract:enc:FrameHeader::serialize: window descriptor")
    G("windowLogGuard", m.group("op"), "`FrameHeader::serialize`: `if log OP K { log - S } else { E }`")
    N("windowLogK", int(m.group(2)), "K of the guard above")
    N("windowLogSub", int(m.group(3)), "S of the guard above")
    N("windowLogElse", int(m.group(4)), "E of the guard above")
    N("windowExpShift", int(m.group(5)), "`output.push(exponent << K)`")
    L += ["", "end Zstd.Gen", ""]
    return "\n".join(L)


def gen_ring():
    """C04: chunk size and guard operators of the unsafe output window (ringbuffer.rs)."""
    rb = strip_comments(read("ruzstd/src/decoding/ringbuffer.rs"))
    OPRE = r"(?P<op>>=|<=|==|!=|>|<)"
    cbo = fn_body(rb, "copy_bytes_overshooting", "ring")
    m = re.search(r'#\[cfg\(target_feature\s*=\s*"sse2"\)\]\s*type\s+CopyType\s*=\s*(u128|u64|u32|u16|u8)\s*;', cbo)
    if not m:
        raise ExtractError("extract:ring:CopyType under target_feature sse2")
    copy_type = m.group(1)
    chunk = int(copy_type[1:]) // 8
    if not re.search(r"const\s+COPY_AT_ONCE_SIZE\s*:\s*usize\s*=\s*core::mem::size_of::<CopyType>\(\)\s*;", cbo):
        raise ExtractError("extract:ring:COPY_AT_ONCE_SIZE = size_of::<CopyType>()")
    if not re.search(r"let\s+min_buffer_size\s*=\s*usize::min\(\s*src\.1\s*,\s*dst\.1\s*\)\s*;", cbo):
        raise ExtractError("extract:ring:min_buffer_size = min(src.1, dst.1)")
    if not re.search(r"let\s+copy_multiple\s*=\s*copy_at_least\.next_multiple_of\(\s*COPY_AT_ONCE_SIZE\s*\)\s*;", cbo):
        raise ExtractError("extract:ring:copy_multiple = copy_at_least.next_multiple_of(COPY_AT_ONCE_SIZE)")
    m = re.search(r"if\s+min_buffer_size\s*(?P<op1>>=|<=|==|!=|>|<)\s*COPY_AT_ONCE_SIZE\s*&&\s*copy_at_least\s*(?P<op2>>=|<=|==|!=|>|<)\s*COPY_AT_ONCE_SIZE\s*\{", cbo)
    if not m:
        raise ExtractError("extract:ring:one-chunk guard of copy_bytes_overshooting")
    G = []
    G.append(("ringCboOneChunkMin", m.group("op1"), "ringbuffer.rs copy_bytes_overshooting `min_buffer_size OP COPY_AT_ONCE_SIZE` (one-chunk path, first conjunct)"))
    G.append(("ringCboOneChunkN", m.group("op2"), "ringbuffer.rs copy_bytes_overshooting `copy_at_least OP COPY_AT_ONCE_SIZE` (one-chunk path, second conjunct)"))
    G.append(("ringCboMultiMin", guard(cbo, r"if\s+min_buffer_size\s*" + OPRE + r"\s*copy_multiple\s*\{", "ring: min_buffer_size ? copy_multiple"),
              "ringbuffer.rs copy_bytes_overshooting `min_buffer_size OP copy_multiple` (chunked path)"))
    G.append(("ringReserveEnough", guard(fn_body(rb, "reserve", "ring"), r"if\s+free\s*" + OPRE + r"\s*amount\s*\{", "ring: reserve free ? amount"),
              "ringbuffer.rs reserve `if free OP amount` (then-branch = nothing to do)"))
    ra = fn_body(rb, "reserve_amortized", "ring")
    if not re.search(r"usize::max\(\s*self\.cap\.next_power_of_two\(\)\s*,\s*\(self\.cap\s*\+\s*amount\)\.next_power_of_two\(\)\s*,?\s*\)\s*\+\s*1\s*;", ra):
        raise ExtractError("extract:ring:new_cap = max(cap.npow2, (cap+amount).npow2) + 1")
    ef = fn_body(rb, "extend_from_within_unchecked", "ring")
    G.append(("ringEfwuCase1", guard(ef, r"if\s+self\.head\s*" + OPRE + r"\s*self\.tail\s*\{", "ring: efwu self.head ? self.tail"),
              "ringbuffer.rs extend_from_within_unchecked `if self.head OP self.tail` (case 1)"))
    G.append(("ringEfwuCase2", guard(ef, r"if\s+self\.head\s*\+\s*start\s*" + OPRE + r"\s*self\.cap\s*\{", "ring: efwu self.head + start ? self.cap"),
              "ringbuffer.rs extend_from_within_unchecked `if self.head + start OP self.cap` (case 2)"))
    G.append(("ringEfwuTailSplit", guard(ef, r"if\s+after_tail\s*" + OPRE + r"\s*len\s*\{", "ring: efwu after_tail ? len"),
              "ringbuffer.rs extend_from_within_unchecked `if after_tail OP len` (second copy of case 1)"))
    G.append(("ringEfwuStartSplit", guard(ef, r"if\s+after_start\s*" + OPRE + r"\s*len\s*\{", "ring: efwu after_start ? len"),
              "ringbuffer.rs extend_from_within_unchecked `if after_start OP len` (second copy of case 3)"))
    L = ["/- GENERATED by tools/extract.py from /repo — do not edit. -/", "namespace Zstd.Gen", ""]
    L.append("/-- `ringbuffer.rs copy_bytes_overshooting`: `size_of::<CopyType>()` with `CopyType = " + copy_type + "` under `target_feature = \"sse2\"` -/")
    L.append(f"def ringCopyChunk : Nat := {chunk}")
    for name, op, where in G:
        L.append(f"/-- `{where}`; source operator `{op}` -/")
        L.append(f"def {name} (a b : Nat) : Bool := decide ({OPS[op]})")
    L += ["", "end Zstd.Gen", ""]
    return "\n".join(L)


MODULES = {
    "Consts": gen_consts,
    "DecTables": gen_dectables,
    "EncTables": gen_enctables,
    "Dists": gen_dists,
    "Fse": gen_fse,
    "Guards": gen_guards,
    "Headers": gen_headers,
    "Ring": gen_ring,
    "Enc": gen_enc,
    "Huf": gen_huf,
    "Reset": gen_reset,
    "Matcher": gen_matcher,
}


# C18 / C19 / C20 modules (Io, Cli, DictBuilder) live in tools/extract_misc.py
sys.path.insert(0, os.path.dirname(os.path.abspath(__file__)))
import extract_misc  # noqa: E402

extract_misc.register(MODULES, sys.modules[__name__])


def main():
    os.makedirs(OUT, exist_ok=True)
    errors = []
    changed = []
    for name, fn in MODULES.items():
        path = os.path.join(OUT, name + ".lean")
        try:
            text = fn()
        except ExtractError as e:
            errors.append(str(e))
            continue
        old = open(path).read() if os.path.exists(path) else None
        if old != text:
            with open(path, "w") as f:
                f.write(text)
            changed.append(name)
    print(json.dumps({"changed": changed, "errors": errors}))
    return 2 if errors else 0


if __name__ == "__main__":
    sys.exit(main())
