"""Per-property configuration of the check driver."""

PROPS = {}

# commits in /repo that add the (feature-gated, add-only) hooks
HOOK_COMMITS = ["4c30ba9", "f08949f"]

ENGINES = [
    {"name": "lean", "path": "/verif/lean", "serves_properties": [], "kind_free_text": "Lean 4 project: Spec (RFC transcription), Model (mirror of the Rust), Gen (regenerated from /repo), Props (theorems), zmodel driver"},
    {"name": "extract", "path": "/verif/tools/extract.py", "serves_properties": [], "kind_free_text": "source-text extractor: tables, constants, guards -> Zstd/Gen"},
    {"name": "harness", "path": "/verif/harness", "serves_properties": [], "kind_free_text": "Rust crate linking the real ruzstd in-process (feature verif_hooks): case generators, implementation-only oracles (libzstd, XXH64, VecDeque, shadow memory), line protocol for the model"},
]


def prop(pid, **kw):
    kw["id"] = pid
    kw.setdefault("lean_module", f"Zstd.Props.{pid}")
    PROPS[pid] = kw


prop(
    "C14",
    level_text="Theorems for every value of the quantifier (no bound): the code tables extracted from the source equal the RFC tables, encoder and decoder mappings are mutual inverses on the whole range, the offset-history step equals the RFC rule for every offset value/history, sequence counts and headers round-trip. The hand-written shape of the lookups is tied to the code by dumping the real functions over their whole domain.",
    engines=[{"name": "tables"}],
    modelled="shape of the table lookups, offset-history step, sequence-count writer/parser, header parsers/writers are hand-written mirrors of the Rust; every table row, range arm, constant and guard operator is extracted from the source text on every run",
    assumptions=["RFC 8878 tables typed by hand into Zstd/Spec/Tables.lean are a faithful copy of the RFC"],
)

prop(
    "C17",
    level_text="Theorems for every value of the quantifier (no bound): for EVERY hash function of the suffix store (the hash is a parameter of the model), for EVERY finite history of Matcher-trait calls on a driver created with any (slice_size, max_slices) — reset, get_next_space, commit_space of any vector, start_matching, skip_matching, in any order that does not panic — the sequences reported for a block tile it, every match is true at its distance in the retained window, distance <= advertised window, <= retained bytes, >= 1, match_len >= MIN_MATCH_LEN (extracted), executing the sequences decoder-style reproduces the block; base-offset / window-size / suffix-store invariants hold in every reachable state; no panic and termination under the documented call order for every hash that stays inside the slot array (proved for the code's hash). The hand-written model is tied to the code by running the real MatchGeneratorDriver (hook constructor, public Matcher trait) and the model on the same operation sequences (exhaustive over 2-3 symbol alphabets on scaled-down windows, random, production size) and comparing every reported sequence, verif_stats and space contents; an implementation-only oracle re-checks the property's own words on the code's output.",
    engines=[{"name": "matcher"}],
    modelled="MatchGenerator (next_sequence, add_suffixes_till, skip_matching, add_data, reserve, reset), SuffixStore (get/insert-if-absent/key), MatchGeneratorDriver (pools, store selection, recycling) are hand-written mirrors of match_generator.rs; MIN_MATCH_LEN, SUFFIX_STORE_MIN_CAPACITY, the hash constants, the production constructor arguments and every comparison operator of next_sequence / reserve / commit_space are extracted from the source text on every run, and the shape of the statements the model mirrors (offset formula, slices, base-offset update, eviction, store clearing) is anchored by the extractor",
    assumptions=[
        "vec![x; n] has capacity exactly n and shrinking a Vec keeps its capacity (so a recycled slot vector keeps its length and get_next_space hands out vectors at their capacity)",
        "usize arithmetic does not overflow for the sizes involved (max_slices * slice_size, idx + 1, next_power_of_two)",
        "the #[cfg(debug_assertions)] concat_window shadow copy is not modelled; its debug_assert_eq! is theorem true_match",
    ],
)


prop(
    "C07",
    level_text="Theorems for every history (no bound): every field of every state-carrying struct (FrameDecoderState, DecoderScratch, FSEScratch, HuffmanScratch, DecodeBuffer, FSETable, HuffmanTable, RingBuffer) is touched by its reset — the field lists and the sets of fields each reset assigns/clears are extracted from the source text on every run, so a forgotten field breaks a theorem; on the model, the state a successful reset leaves is a function of (source, dictionaries, limit) only, operations never change dictionaries or limit, hence after ANY history the next frame is decoded exactly as by a fresh decoder (reuse_eq_fresh). That each Rust clearing statement clears what the model says is tied by the reuse/hostile engines: hook state dump right after reset and full transcripts of probe frames that need a clean state, reused vs fresh.",
    engines=[{"name": "reuse"}, {"name": "hostile"}],
    also_reports=[],
    modelled="Decoder.reset / resetCore mirror FrameDecoder::reset, FrameDecoderState::{new,reset}; the per-field effect of the reset statements is not modelled individually — it is covered by the extracted field-coverage theorems plus the state-dump correspondence",
    assumptions=["Vec::clear / Option = None / XxHash64::with_seed(0) do what their names say", "ring-buffer capacity and positions are unobservable through the byte-queue interface (C04)"],
)


prop(
    "C09",
    level_text="Theorems on the decoder model for every frame header, dictionary registry and buffer state: a frame naming an unregistered dictionary is refused with DictNotProvided before any block is decoded (missing_dict_error); with the dictionary registered reset seeds exactly entropy tables, repeat offsets and content (init_from_dict_state); a header without dictionary id starts from the empty state whatever is registered (no_dict_without_id; later frames: C07 reuse_eq_fresh); offsets beyond dictionary+output and dictionary reach-back after more than a window of output are rejected. The byte-level equality of reaching into the dictionary with the RFC copy (repeat_from_dict_eq_spec) is not yet proved: partial. Tie to the code: engine dict (reference trainer dictionaries, libzstd dictionary frames with/without id, several dictionaries, synthetic frames straddling the dictionary boundary at every alignment; model replays every operation), engine reuse (dictionary leaks).",
    engines=[{"name": "dict"}, {"name": "reuse"}],
    modelled="dictionary selection (resetCore/applyDictChoice/forceDict) and DecodeBuffer::repeat_from_dict on the abstract buffer mirror the Rust; the dictionary FILE parser in the executable model is the Spec parser (strict) — ruzstd's Dictionary::decode_dict is compared with it on every trained dictionary",
    assumptions=["libzstd (zstd crate) as referee for dictionary frames; note libzstd lets matches reach into the dictionary header bytes, the harness counts a frame as valid only if its RFC executor accepts it too"],
)


prop(
    "C01",
    level_text="Refinement of the RFC 8878 transcription (Zstd.Spec, validated against libzstd on every run) by the model of the decoder, proved component by component for all inputs: block headers (all byte patterns; table and guard from the source), window descriptors (all descriptors; operators from the source), offset-history step = RFC rule for every offset value/history, offset values >= 1; code tables = RFC (C14), FSE (C12), Huffman (C13), sequence execution and the composed frame theorem as far as merged (C01_full stays visible; partial). The executable model is replayed against the real decoder on libzstd frames of every level/window/flag/flush pattern, ruzstd frames, and synthetic frames using features no compressor emits on demand (all sequence-count encodings, repeat offsets in both literal-length cases, offsets at exactly the window distance, every header layout), under several drivers; oracles: original data, libzstd, reference executor.",
    engines=[{"name": "spec"}, {"name": "dec"}, {"name": "hostile"}],
    modelled="frame/block plumbing, sequence execution and the decode buffer (abstract content) are hand-written mirrors of the Rust; literals and sequence DECODING in the executable model currently go through the Spec functions (the faithful FSE/Huffman mirrors are verified separately in C12/C13)",
    assumptions=["Zstd.Spec is a faithful transcription of RFC 8878 (validated against libzstd 1.5.7 frames on every run, not proved against the English text)"],
)

prop(
    "C03",
    level_text="Every Rust panic site the frame-level model can reach is a Fault value; theorems (all inputs, all states): execute_sequences never faults because the only panic site (offset_value - 3 underflow) needs an offset value 0 which no decoded sequence carries (decodeSeqLoop_ov_pos, executeSequences_no_fault); frame-level no-fault/fuel theorems and the entropy-stage no-fault theorems (C12/C13) and the raw-pointer window (C04) complete the picture — C03_full stays visible; partial. Tie to the code: engine hostile runs every decoding entry point (decode_blocks loops, StreamingDecoder, decode_all_to_vec, decode_from_to, Dictionary::decode_dict, decoding with hostile dictionaries) on the repo's fuzz artefacts, structure-aware hostile frames (one field broken on purpose per frame), mutated libzstd frames and random bytes under catch_unwind, a watchdog deadline and a counting allocator, then resets the same decoder and requires it to behave like a fresh one.",
    engines=[{"name": "hostile"}, {"name": "dec"}],
    modelled="see C01; panics inside the entropy decoders are covered by C12/C13 models, raw memory by C04",
    assumptions=["wall-clock time is represented by fuel (loop iterations) in the theorems and by a watchdog deadline in the harness", "allocation failure aborts the process and is outside the model"],
)
