"""Per-property configuration of the check driver."""

PROPS = {}

# commits in /repo that add the (feature-gated, add-only) hooks
HOOK_COMMITS = ["4c30ba9", "f08949f"]

ENGINES = [
    {"name": "lean", "path": "/verif/lean", "serves_properties": [], "kind_free_text": "Lean 4 project: Spec (RFC transcription), Model (mirror of the Rust), Gen (regenerated from /repo), Props (theorems), zmodel driver"},
    {"name": "extract", "path": "/verif/tools/extract.py", "serves_properties": [], "kind_free_text": "source-text extractor: tables, constants, guards -> Zstd/Gen"},
    {"name": "harness", "path": "/verif/harness", "serves_properties": [], "kind_free_text": "Rust crate linking the real ruzstd in-process (feature verif_hooks): case generators, implementation-only oracles (libzstd, XXH64, VecDeque, shadow memory), line protocol for the model"},
]


def prop(pid, **kw):
    kw["id"] = pid
    kw.setdefault("lean_module", f"Zstd.Props.{pid}")
    PROPS[pid] = kw


prop(
    "C14",
    level_text="Theorems for every value of the quantifier (no bound): the code tables extracted from the source equal the RFC tables, encoder and decoder mappings are mutual inverses on the whole range, the offset-history step equals the RFC rule for every offset value/history, sequence counts and headers round-trip. The hand-written shape of the lookups is tied to the code by dumping the real functions over their whole domain.",
    engines=[{"name": "tables"}],
    modelled="shape of the table lookups, offset-history step, sequence-count writer/parser, header parsers/writers are hand-written mirrors of the Rust; every table row, range arm, constant and guard operator is extracted from the source text on every run",
    assumptions=["RFC 8878 tables typed by hand into Zstd/Spec/Tables.lean are a faithful copy of the RFC"],
)
