"""Per-property configuration of the check driver."""

PROPS = {}

# commits in /repo that add the (feature-gated, add-only) hooks
HOOK_COMMITS = ["4c30ba9", "f08949f"]

ENGINES = [
    {"name": "lean", "path": "/verif/lean", "serves_properties": [], "kind_free_text": "Lean 4 project: Spec (RFC transcription), Model (mirror of the Rust), Gen (regenerated from /repo), Props (theorems), zmodel driver"},
    {"name": "extract", "path": "/verif/tools/extract.py", "serves_properties": [], "kind_free_text": "source-text extractor: tables, constants, guards -> Zstd/Gen"},
    {"name": "harness", "path": "/verif/harness", "serves_properties": [], "kind_free_text": "Rust crate linking the real ruzstd in-process (feature verif_hooks): case generators, implementation-only oracles (libzstd, XXH64, VecDeque, shadow memory), line protocol for the model"},
]


def prop(pid, **kw):
    kw["id"] = pid
    kw.setdefault("lean_module", f"Zstd.Props.{pid}")
    PROPS[pid] = kw


prop(
    "C14",
    level_text="Theorems for every value of the quantifier (no bound, no sampling): the code tables extracted from the source equal the RFC tables; encoder and decoder mappings for literal lengths 0..=131071, match lengths 3..=131074 and offset values 1..2^32-1 are mutual inverses (finite check on the extracted rows by `decide`, lifted to the whole range by induction over the row list; the `unreachable!` arms are shown unreachable in range and faulting outside it); the offset-history step equals the RFC rule for every offset value >= 1, both literal-length cases and every history; every sequence count 1..=98047 round-trips and the count parser equals the RFC on every byte sequence; block, literals-section and frame header parsers equal a hand-written RFC bit-field transcription on EVERY byte pattern (all 2^24 block headers, all 4 literals types x all size formats x every following byte, all 256 descriptors x every field content), every header the compressor can write is read back to the same values (block: every last/type/size<2^21; literals: raw < 2^20, compressed/treeless for every (regenerated, compressed) size that fits the format the source's thresholds select; frame: every requested window <= 2^41, declared window legal, >= requested and < 2x requested), sizes the format forbids are refused. The hand-written control flow of the model is tied to the code by dumping the real functions over their whole domain (all LL/ML values, all sequence counts, all 256x256 descriptor/window bytes, all first bytes of literals headers x sampled tails x truncations, 2^18 sampled + all boundary block headers; thorough: all 2^24) and by parse(write(x)) = x on the real code, including headers produced by the public compressor driven by a scripted Matcher.",
    engines=[{"name": "tables"}, {"name": "headers"}],
    modelled="control flow of the table lookups, offset-history step, sequence-count writer/parser, header parsers/writers and of the BitWriter calls they make are hand-written mirrors of the Rust; every table row, range arm, shift/mask expression (translated mechanically from the Rust expression text), size-format threshold, field-width table, constant and guard operator is extracted from the source text on every run",
    assumptions=[
        "RFC 8878 tables and header layouts typed by hand into Zstd/Spec/Tables.lean and Zstd/Spec/Headers.lean are a faithful copy of the RFC (the harness carries a second, independent Rust transcription of the header layouts as implementation-only oracle)",
        "the entropy coder's output inside compress_literals ends byte aligned (script parameter `payload` of compressedLiteralsPatched); change_bits patching of the compressed size is tied by correspondence only (no theorem)",
        "usize = u64; debug assertions and overflow checks on (the profile the harness and the test-suite build with)",
    ],
)

prop(
    "C11",
    level_text="Theorems for every decoder value (any history of earlier frames, any registered dictionaries, any limit), every source and both construction paths: reset/init gets past the window check IFF the header's window is legal per RFC 8878 and <= the decoder's limit (accept_iff; first-use and reuse path; single-segment frames with window = content size, no lower bound); the limit is 128 MiB by default, set_max_window_size stores min(requested, format maximum) and every reachable decoder's limit is <= the format maximum; a frame that does not get past the check leaves the decoder EXACTLY as it was - allocation log, state and limit unchanged (reject_before_alloc, no hypothesis on the source) - and the error reports the requested window and the effective limit; StreamingDecoder::new / new_with_max_window_size / new_with_decoder and every frame of decode_all go through the same reset. The comparison operator, the order check-before-allocation on both paths, the clamp, which limit each path passes and what the error carries are extracted from the source text. Correspondence: the real FrameDecoder, decode_all and StreamingDecoder on all 256 window descriptors and 22 single-segment content sizes x limits {w-1, w, w+1, default, format max, u64::MAX} x 4 histories x 3 front ends; a counting global allocator observes that a rejecting call allocates 0 bytes; ring-buffer allocations (from the verif_hooks memory trace) are compared with the model's allocation log.",
    engines=[{"name": "window"}],
    modelled="control flow of FrameDecoderState::new/reset, FrameDecoder::new/set_max_window_size/reset/decode_all (frames with an empty last raw block), StreamingDecoder constructors, RingBuffer::reserve on a cleared buffer, read_frame_header and FrameHeader::window_size are hand-written mirrors; operators, order of check vs allocation, clamp, default, constants and header field expressions are extracted from the source text on every run",
    assumptions=[
        "RFC 8878 window formula and legal range typed by hand into Zstd/Spec/Tables.lean",
        "acceptance on the reuse path allocates the window: exercised on the real code only for windows <= 128 MiB (memory budget ~300 MiB); above that the reuse path is covered by the theorem and by rejection cases only",
        "DecoderScratch::new / reset allocate nothing window-sized other than the ring buffer (observed by the counting allocator for the exercised cases)",
    ],
)

prop(
    "C17",
    level_text="Theorems for every value of the quantifier (no bound): for EVERY hash function of the suffix store (the hash is a parameter of the model), for EVERY finite history of Matcher-trait calls on a driver created with any (slice_size, max_slices) — reset, get_next_space, commit_space of any vector, start_matching, skip_matching, in any order that does not panic — the sequences reported for a block tile it, every match is true at its distance in the retained window, distance <= advertised window, <= retained bytes, >= 1, match_len >= MIN_MATCH_LEN (extracted), executing the sequences decoder-style reproduces the block; base-offset / window-size / suffix-store invariants hold in every reachable state; no panic and termination under the documented call order for every hash that stays inside the slot array (proved for the code's hash); common_prefix_len (8-byte chunks, then bytes) is exactly the maximal common prefix; lifted to the compressor: driven the way FrameCompressor::compress / compress_fastest drive it (Model/EncCoders.lean builtinFrame), from every matcher state that protocol can produce (any history of frames at any level through one compressor), the built-in matcher never panics and the script of a Fastest frame satisfies the encoder model's ValidMatcher for every input (builtin_valid_matcher, builtin_no_fault; discharges the matcher obligation of C02). The hand-written model is tied to the code by running the real MatchGeneratorDriver (hook constructor, public Matcher trait) and the model on the same operation sequences (exhaustive over 2-3 symbol alphabets on scaled-down windows, random, production size) and comparing every reported sequence, verif_stats and space contents; an implementation-only oracle re-checks the property's own words on the code's output.",
    engines=[{"name": "matcher"}],
    modelled="MatchGenerator (next_sequence, add_suffixes_till, skip_matching, add_data, reserve, reset), SuffixStore (get/insert-if-absent/key), MatchGeneratorDriver (pools, store selection, recycling) are hand-written mirrors of match_generator.rs; MIN_MATCH_LEN, SUFFIX_STORE_MIN_CAPACITY, the hash constants, the production constructor arguments and every comparison operator of next_sequence / reserve / commit_space are extracted from the source text on every run, and the shape of the statements the model mirrors (offset formula, slices, base-offset update, eviction, store clearing) is anchored by the extractor",
    assumptions=[
        "vec![x; n] has capacity exactly n and shrinking a Vec keeps its capacity (so a recycled slot vector keeps its length and get_next_space hands out vectors at their capacity)",
        "usize arithmetic does not overflow for the sizes involved (max_slices * slice_size, idx + 1, next_power_of_two)",
        "the #[cfg(debug_assertions)] concat_window shadow copy is not modelled; its debug_assert_eq! is theorem true_match",
    ],
)


prop(
    "C07",
    level_text="Theorems for every history (no bound): every field of every state-carrying struct (FrameDecoderState, DecoderScratch, FSEScratch, HuffmanScratch, DecodeBuffer, FSETable, HuffmanTable, RingBuffer) is touched by its reset — the field lists and the sets of fields each reset assigns/clears are extracted from the source text on every run, so a forgotten field breaks a theorem; on the model, the state a successful reset leaves is a function of (source, dictionaries, limit) only, operations never change dictionaries or limit, hence after ANY history the next frame is decoded exactly as by a fresh decoder (reuse_eq_fresh). That each Rust clearing statement clears what the model says is tied by the reuse/hostile engines: hook state dump right after reset and full transcripts of probe frames that need a clean state, reused vs fresh.",
    engines=[{"name": "reuse"}, {"name": "hostile"}],
    modelled="Decoder.reset / resetCore mirror FrameDecoder::reset, FrameDecoderState::{new,reset}; the per-field effect of the reset statements is not modelled individually — it is covered by the extracted field-coverage theorems plus the state-dump correspondence",
    assumptions=["Vec::clear / Option = None / XxHash64::with_seed(0) do what their names say", "ring-buffer capacity and positions are unobservable through the byte-queue interface (C04)"],
)


prop(
    "C09",
    level_text="Theorems on the decoder model for every frame header, dictionary registry and buffer state: a frame naming an unregistered dictionary is refused with DictNotProvided before any block is decoded (missing_dict_error); with the dictionary registered reset seeds exactly entropy tables, repeat offsets and content (init_from_dict_state); a header without dictionary id starts from the empty state whatever is registered (no_dict_without_id; later frames: C07 reuse_eq_fresh); offsets beyond dictionary+output and dictionary reach-back after more than a window of output are rejected. Reaching into the dictionary is byte-for-byte the RFC copy from dict++output for every buffer state, offset >= 1 and match length — inside the output (overlapping included), inside the dictionary, straddling the boundary at every alignment (repeat_eq_matchCopy, repeat_ok_matchCopy, repeat_accepts_iff, repeat_shape); the slice/chunk statements of the Rust code (extend_from_within, repeat_in_chunks, the re-entry with offset = buffer length) compute the same (repeat_eq_rust_statements); total_output_counter never over-counts, so the window test never refuses a reach-back the RFC allows (repeat_totalOut_le, totalOut_le_produced, dict_copy_of_valid_frame); a whole block's sequence execution refines the RFC executor with dictionary, window tests and offset history, in every buffer state that keeps two invariants which reset, every block and every drain-to-window preserve (executeSequences_refines_dict, invariants_reset, decodeOneBlock_keeps_invariants, invariants_drain_to_window). The dictionary parser of the executable model (Blk.decodeDict = Dictionary::decode_dict): every dictionary the Spec parses (§5) it parses to the same id, content, repeat offsets and coupled tables (parsed_dictionary_is_the_specs), so decoders whose dictionaries were registered through add_dict of parsed bytes need no coupling hypothesis in the dictionary forms of C01/C06/C08/C10 (parsed_dicts_coupled); on ANY bytes it never panics and returns only well-formed entropy states, whatever the three repeat offsets (hostile_dictionary_is_harmless). Tie to the code: engine dict (reference trainer dictionaries, libzstd dictionary frames with/without id, several dictionaries, synthetic frames straddling the dictionary boundary at every alignment; model replays every operation), engine reuse (dictionary leaks).",
    engines=[{"name": "dict"}, {"name": "reuse"}],
    also_reports={"dict": ["C01", "C06", "C08", "C10"]},
    modelled="dictionary selection (resetCore/applyDictChoice/forceDict) and DecodeBuffer::repeat_from_dict on the abstract buffer mirror the Rust; the dictionary FILE parser of the executable model is the mirror of Dictionary::decode_dict (Blk.decodeDict, Model/FrameFaithful.lean: same build_decoder functions as the block decoder, same leniencies), compared with the real one on every dictionary the engines register (adddict lines)",
    assumptions=["libzstd (zstd crate) as referee for dictionary frames; note libzstd lets matches reach into the dictionary header bytes, the harness counts a frame as valid only if its RFC executor accepts it too"],
)

prop(
    "C01",
    level_text="Refinement of the RFC 8878 transcription (Zstd.Spec, validated against libzstd on every run) by the model of the decoder, proved component by component for all inputs: block headers (all byte patterns; table and guard from the source), window descriptors (all descriptors; operators from the source), offset-history step = RFC rule for every offset value/history, offset values >= 1; code tables = RFC (C14), FSE (C12), Huffman (C13), sequence execution and the composed frame theorem: C01_full is PROVED over the EXECUTABLE model (DecB = frame-level model over the faithful block decoder; decoder_reproduces_content: for every byte string that is exactly one frame the Spec accepts (r.consumed = f.length), window within the decoder's limit, decode_all into any target at least as large as the content returns exactly the content, and reset + decode_blocks(All) + collect() report the frame finished and hand out exactly the content; with dictionaries registered through add_dict of parsed bytes: C01_full_dicts / decoder_reproduces_content_dicts, from decodeDict_refines — Dictionary::decode_dict parses every dictionary the Spec parses to the same id, content, repeat offsets and coupled Huffman/FSE tables; every drain schedule and every mix of decode_blocks / StreamingDecoder::read / decode_from_to: C06 schedule_independent_full). BLOCK LEVEL on the faithful block decoder model (Model/BlockDecode.lean): decodeSequences_refines (full: every count encoding, Predefined/RLE/FSE_Compressed/Repeat per table, the interleaved three-state bitstream; tables left in the scratch stay coupled with the Spec's), literalsHeader_refines and decodeLiterals_refines_raw_rle (full), decodeLiterals_refines_huffman (full: Compressed and Treeless sections, tree description in direct and FSE-compressed form = Spec.Huffman.readWeights, table = canonical table (C13), one stream and four streams with the jump table = Spec.Huffman.decodeStream), blk_decodeLiterals_refines (decodeLiterals_refines_full is a theorem), blk_decompressBlock_refines (decompressBlock_refines_full is a theorem: for every block the RFC semantics decodes, decompress_block returns Ok, appends the same bytes, leaves the same offset history and a coupled entropy state for the next block); decompressBlock_refines_raw_rle / decompressBlock_refines_partial are kept as the intermediate statements. The executable model is replayed against the real decoder on libzstd frames of every level/window/flag/flush pattern, ruzstd frames, and synthetic frames using features no compressor emits on demand (all sequence-count encodings, repeat offsets in both literal-length cases, offsets at exactly the window distance, every header layout), under several drivers; oracles: original data, libzstd, reference executor.",
    engines=[{"name": "spec"}, {"name": "dec"}, {"name": "hostile"}, {"name": "blk"}, {"name": "bits"}, {"name": "fse"}, {"name": "huf"}, {"name": "ring"}],
    # the decoder is only as right as its components: a wrong bit read, FSE/Huffman table or window copy found by a
    # component engine is a violation of C01 as well
    also_reports={"bits": ["C12"], "fse": ["C12"], "huf": ["C13"], "ring": ["C04"]},
    modelled="frame/block plumbing, sequence execution and the decode buffer (abstract content) are hand-written mirrors of the Rust; the frame-level model is parametric in the block decoder (class BlockDec); the executable model behind the dec request lines is instance B = the FAITHFUL block decoder Model/BlockDecode.lean (real literals-header parser, Huffman decoder, FSE tables, reversed bit reader, sequence loop: every leniency and error variant, state kept on error paths), so model = code is checked on valid AND malformed frames (same error variant family, same state left behind; engine dec: directed + mutated + structure-aware hostile frames) and block by block (engine blk); the frame-level theorems are proved for every block decoder satisfying BlockContract / NoFaultContract / RefinesSpec, and Proofs/FrameFaithful.lean proves all three contracts for instance B without hypotheses (from Proofs/BlockNoFault.lean and Proofs/BlkLitFull.lean): the model in the theorems IS the model the engine compares with the code (instance A, the Spec stand-in, also satisfies them: Proofs/FrameDecoderStandIn.lean)",
    assumptions=["Zstd.Spec is a faithful transcription of RFC 8878 (validated against libzstd 1.5.7 frames on every run, not proved against the English text)"],
)

prop(
    "C03",
    level_text="Every Rust panic site the frame-level model can reach is a Fault value; theorems (all inputs, all states): execute_sequences never faults because the only panic site (offset_value - 3 underflow) needs an offset value 0 which no decoded sequence carries (decodeSeqLoop_ov_pos, executeSequences_no_fault); frame-level no-fault/fuel theorems and the entropy-stage no-fault theorems (C12/C13) and the raw-pointer window (C04) complete the picture — C03_full is PROVED over the EXECUTABLE model (no_fault_from_legal_states: from every decoder state reachable by a legal call sequence of the public API — Legal, Proofs/FrameLegal.lean: new, set_max_window_size, add_dict of ANY bytes decode_dict accepts, force_dict, reset/init, every drain, decode_blocks, decode_from_to, StreamingDecoder::read, decode_all, decode_all_to_vec, on any byte arguments — Dictionary::decode_dict, reset, decode_all and decode_all_to_vec never fault, and decode_blocks / decode_from_to / StreamingDecoder::read never fault unless the current frame's last decode call ended in err literals / err sequences (after which only drain, query, reset, decode_all are legal — necessary, see the witnesses below); dictionary parsing: decodeDict_no_fault / decodeDict_wf on ANY bytes, the three repeat offsets being copied unchecked is harmless (zero_history_is_harmless: do_offset_history saturates, execute_sequences rejects offset 0)). BLOCK LEVEL, proved in full on the faithful block decoder model (Model/BlockDecode.lean, the one engine blk compares with the real code): decompressBlock_no_fault — for every byte string as block content, every well-formed entropy state (Blk.WF: FSE tables uninitialised or built, RLE symbols within the alphabets, Huffman table empty or built) and every buffer, decompress_block (literals header, Raw/RLE/Huffman literals in 1 or 4 streams incl. table build from direct or FSE-compressed weights, sequence header, table update in all four modes, the three-state sequence loop, sequence execution) returns a value or an error, never a Fault, and no loop runs out of fuel (termination); decompressBlock_keeps_WF, decompressBlock_err_state, scratch_new_WF, reset_reestablishes_WF, blockChain_no_fault, legal_history_no_fault (any number of frames on one scratch, each reset + blocks up to the first error). The clause (stop at the first error) is necessary: decompressBlock_no_fault_any_history_false with two concrete witnesses (a failed FSE / Huffman table build leaves accuracy_log / max_num_bits set over an empty table; FrameDecoder::decode_blocks called again after the Err panics in a Repeat-mode / Treeless block) — confirmed on the real FrameDecoder, outside the property's legal call sequences, reported as an observation. Tie to the code: engine hostile runs every decoding entry point (decode_blocks loops, StreamingDecoder, decode_all_to_vec, decode_from_to, Dictionary::decode_dict, decoding with hostile dictionaries) on the repo's fuzz artefacts, structure-aware hostile frames (one field broken on purpose per frame), mutated libzstd frames and random bytes under catch_unwind, a watchdog deadline and a counting allocator, then resets the same decoder and requires it to behave like a fresh one.",
    engines=[{"name": "hostile"}, {"name": "dec"}, {"name": "blk"}],
    modelled="see C01; panics inside the entropy decoders are covered by C12/C13 models, raw memory by C04",
    assumptions=["wall-clock time is represented by fuel (loop iterations) in the theorems and by a watchdog deadline in the harness", "allocation failure aborts the process and is outside the model"],
)


def c12_spec_lines_are_oracle(chk):
    """Engine `fse`, request lines `fse spec …`: the model side of these lines is NOT the mirror of the code
    but the RFC transcription (Spec.readDescription + Spec.buildTable) run on a table description that
    libzstd or the real encoder wrote, and the implementation side is the table the real decoder built
    from the same bytes.  A disagreement there is what the property forbids ("the decoding table built
    from its serialized description is the one the specification defines"), so it is reported as an
    implementation-vs-oracle failure with the description as the replay, not as a broken mirror."""
    for rep in chk.engine_reports:
        if rep.get("engine") != "fse":
            continue
        for d in rep.get("disagreements", []) or []:
            case = d.get("case", "")
            if case.startswith("fse spec ") or case.startswith("fse specprobs "):
                chk.violations.append({
                    "kind": "implementation-vs-oracle (Spec table)",
                    "engine": "fse",
                    "what": "decoder table built by the real code differs from the table the Spec builds from the same description: impl `%s` / Spec `%s`" % (d.get("impl", "")[:200], d.get("model", "")[:200]),
                    "replay": (case.replace("fse specprobs ", "fse fromprobs ", 1) if case.startswith("fse specprobs ") else case.replace("fse spec ", "fse dec ", 1)) + "\n" + case,
                    "signature": "spec_table_mismatch",
                })
                break


prop(
    "C12",
    level_text="Machine-checked theorems (Lean 4 kernel) about a hand-written mirror of the FSE and bit-I/O code: bit reader/writer refine the RFC bit order for all sources/requests (n <= 56 reversed, <= 64 forward, <= 63 writer); the closed form of calc_baseline_and_numbits equals the RFC procedure, the spreading walk is a permutation and the per-symbol state ranges partition the table for every accuracy log the format allows (finite cores evaluated by the kernel, AL <= 9); decoder table = Spec table and encoder table = decoder table for every valid distribution; predefined tables = RFC; the normaliser yields a valid distribution for every histogram with production parameters except the single-symbol-0 histogram (finding F4, proved to fault); stream round trips (single and two-state) consume exactly all bits. The mirror is tied to the code by the correspondence engines bits and fse (production parameters).",
    engines=[{"name": "bits"}, {"name": "fse"}, {"name": "enc", "args": ["--focus", "entropy"], "model": False}],
    post_engines=[c12_spec_lines_are_oracle],
    modelled="BitReader/BitReaderReversed/BitWriter, FSE decoder table reader/builder, FSE encoder normaliser/table builder/description writer/stream encoders and the two decode loops are hand-written mirrors of the Rust; spreading-step constants, accuracy-log offset, max logs, production arguments of the table builder (max log 9/9/8/6, zero-bit avoidance flag) and the six predefined distribution arrays are extracted from the source text on every run",
    assumptions=[
        "RFC 8878 FSE transcription in Zstd/Spec/Fse.lean and the default distributions in Zstd/Spec/Tables.lean are faithful (validated against libzstd by engine spec)",
        "symbol counts and probabilities fit i32 (a block has at most 2^17 sequences); the model computes in Nat/Int",
        "the forward reader is never asked for 0 bits exactly at the end of its source (the Rust code would index out of bounds; no caller does)",
    ],
)

prop(
    "C13",
    level_text="Kernel-checked theorems about the Lean model of the Huffman coder.  Finite table (kernel evaluation, 26 modules): for every number n = 2..256 of distinct literal values the weight shape redistribute(distribute(n), log2 n + 2) is computed without panic, has n weights >= 1, ascending from 1, Kraft sum 2^m with m <= 11.  General theorems (no bound): Kraft-complete weights give a complete prefix-free code of lengths m+1-w (codes_prefix_free); every table build_from_counts returns for a histogram with 2..256 non-zero entries is canonical, i.e. such a code of depth <= 11 (compressor_table_valid/_canon/_kraft); the decoder's rank-index construction yields the RFC's canonical table cell by cell (huf_table_eq_canonical) and every weight list that cannot form a complete code of depth <= 11 is rejected with the named error and never a panic (bad_weights_rejected, spec_rejected_is_rejected, build_table_never_panics); the direct weight description round-trips exactly (weights_roundtrip_direct) and so does the FSE-compressed one, UNCONDITIONALLY for the real FSE coder with the production parameters (weights_roundtrip_fse: composition of the C12 theorems normalize_valid, enc_table_eq_dec_table, write_read_table, encode_decode_interleaved over the shared BitIO/FSE models); one stream and four streams (split ceil(len/4), jump table) decode to exactly the literals, each stream exactly consumed, with table and treeless, for every canonical table and every literal string the encoder accepts (encode_decode_1stream, encode_decode_4streams, one_stream_exact, literals_roundtrip_compressor).  fse_weights_lt_128 is proved in full (write_table_total_on_compressor_tables, fse_weights_lt_128_full_holds): write_table with the real FSE coder is total on every table build_from_counts returns - analytic size bound of the FSE-compressed weights from the normalised distribution alone (per-symbol worst-case bits AL - log2 p from the closed form of the FSE table, description <= 4+(AL+3)*symbols+7 bits) evaluated by the kernel for every alphabet size x number of unused symbols x dropped weight (118 664 normaliser runs in 91 generated modules, largest bound 632 of 1023 bits); hence literals_roundtrip_compressor has no 'or hits the assert' alternative.",
    engines=[{"name": "huf"}],
    modelled="weight-shape generation and depth limiting, code assignment, weight description writer/reader (direct and FSE-compressed; the decoder side uses the shared FSE decoder and reversed bit reader models and reports the individual FSETableError variants; the FSE encoder is a parameter that the correspondence feeds with the real bytes and that Model/EncCoders instantiates with the real coder), 1-/4-stream coders, decoder table construction incl. the state left behind by failed calls, HuffmanDecoder, decode_literals/decompress_literals are hand-written mirrors; constants and comparison operators come from the source text (Zstd/Gen/Huf.lean)",
    assumptions=[
        "Huffman literal streams are read through the abstract reversed reader of Zstd.Model.Huf.Bits (bit lists, zero fill past the beginning), tied to the real BitReaderReversed by the `huf rev` correspondence; the weights' FSE stream uses the faithful BitIO.BitReaderRev",
    ],
)

# --- C18 / C19 / C20 ------------------------------------------------------------------------------
import os as _os
import io_variants as _io_variants

_TOOLS = _os.path.dirname(_os.path.abspath(__file__))

prop(
    "C18",
    level_text="Theorems for every reader/writer script (no bound): the hand-written no_std helpers read_exact, Take::read, write_all and the slice/Vec impls equal the std::io contract (Spec written from the std documentation, validated on every run against the real std::io in the std builds); read_to_end equals it on every script without Interrupted (it differs with Interrupted; no codec path can observe that). The hash feature's footprint is proved on a model with an abstract block coder: frame without hash = frame with hash minus descriptor bit 2 minus the last 4 bytes; decoded bytes, stored checksum and consumed input are independent of the feature; all four compressor-build x decoder-build combinations round-trip. That the four real builds behave alike is OBSERVED (harness built four times, every digest compared), not proved.",
    engines=[{"name": "io", "bin": _os.path.join(_TOOLS, "io_variants.py")}],
    extra_builds=_io_variants.build_cmds(),
    modelled="io_nostd.rs default methods and impls (hand-written mirror, every match arm's shape extracted from the source), the cfg(feature = \"hash\") items of frame_compressor.rs / decode_buffer.rs / frame_decoder.rs (extracted: flag from cfg!, trailer last, bit index on both sides, decoder items only touch the hasher); the compile-time selection of the io module itself is observed by the four builds",
    assumptions=["readers/writers keep the std::io contract (never report more than requested)", "usize = u64 (Take on a 32-bit target truncates its limit: theorem nostd_take_32bit_differs)", "std's documentation was read in the nightly toolchain's rust-src (stable has no rust-src installed); the std builds run the real stable std::io"],
)

import cli_engine as _cli_engine

prop(
    "C19",
    level_text="The command-line tool is modelled as a decision procedure whose table (default level, level map, order of level check / open / create / library call, levels the library implements, empty-input shortcut) is extracted from cli/src/main.rs and frame_compressor.rs on every run. Proved for EVERY table that passes a decidable well-formedness test, then instantiated with today's source: a run that fails neither panics nor leaves an output file (all level options, missing input, uncreatable output); implemented levels and the absent level round-trip every content given that the library round-trips (C02); the progress wrapper passes reads through unchanged for every reader script. Exit statuses, files on disk and bytes are OBSERVED on the built binary (reference zstd -d as oracle).",
    engines=[{"name": "cli", "bin": _os.path.join(_TOOLS, "cli_engine.py"), "timeout": 1500}],
    extra_builds=_cli_engine.build_cmds(),
    modelled="cli/src/main.rs compress/decompress as a decision procedure (hand-written interpreter over the extracted table), ProgressMonitor::read, default output names (add_extension / file_stem); clap's argument parsing, color_eyre's exit status mapping (Err -> 1, panic -> 101, usage -> 2) and the file system are observed, not modelled",
    assumptions=["the library round-trips at the implemented levels (C02) — hypothesis hC02 of cli_roundtrip", "exit status 1 = main returned Err, 2 = clap usage error, 101 = panic"],
)

prop(
    "C20",
    level_text="Theorems for every source length, every pattern of short reads, every size estimate and dictionary size, every RNG script, every scoring function and every heap order (no bound): the builder's loops end within fuel 2*|source|+4, no panic site of the model is reached (all divisors non-zero, fastrand range non-empty, at least one segment, no counter underflow), the output is at most dict_size bytes and equals min(|source|, dict_size) on the small path and min(bytes in the pool, dict_size) on the sampled path. The model works on LENGTHS; contents, scoring, hash-map order and fastrand are abstract parameters. Constants and the presence of each guard are extracted from the source on every run. The real function is run on a grid of (length, estimate, dict size, reader fragmentation) with the length compared to the model and the bound/no-panic/deadline checked directly.",
    engines=[{"name": "dictbuilder", "timeout": 2400}],
    modelled="create_raw_dict_from_source, compute_epoch_info, Reservoir::fill (both loops), the epoch loop, the pool trimming and the write-out as a hand-written mirror over lengths; std's BufReader (one inner read per refill, bypass for requests >= capacity) and read_to_end/take are modelled from their documentation; estimate_frequency/score_segment (no panic site reachable: a k-mer window exists only inside a sample of at least K bytes) and fastrand are abstract",
    assumptions=["the reader keeps the std::io contract and does not return errors (an Err from the source is turned into a panic by .expect(\"can read input\") - documented behaviour, outside the property)", "usize = u64", "BufReader behaves as documented"],
)

_ENC_ASSUMPTIONS = [
    "Spec.decodeFrame (RFC 8878 transcription, validated against libzstd on every run by engine `spec`) is the meaning of 'valid Zstandard'",
    "the source obeys the Read contract (0 only at end of input, never more than the buffer); twox-hash streaming = one-shot XXH64; `vec![0; n]` has capacity n (so the built-in matcher's spaces are always slice_size bytes)",
    "user Matcher: `get_last_space()` returns the space committed last. (The built-in matcher does NOT behave like a fresh one after reset() at the byte level - recycled suffix stores change the parses - which is why compress_reuse_independent is stated relative to the matcher script and the correspondence threads the matcher model through histories; correctness is script independent.)",
]

prop(
    "C02",
    level_text="Theorems for all inputs, all read fragmentations, all prior states of the compressor object (so all histories) and both settings of the hash feature: at the Uncompressed level compress never panics and Spec.decodeFrame (strict RFC transcription) decodes the frame to exactly the input, consuming exactly the frame and verifying the checksum (full proof: header, raw blocks, last-block logic incl. the extra empty block, trailer); a reused compressor emits the same bytes as a fresh one (all levels, any block encoder); at the Fastest level the same round trip is proved for RLE blocks, raw-fallback blocks, the last_huff_table bookkeeping (F5) and all plumbing, with the block encoder a parameter constrained by the explicit contract BlockEncCorrect (= C16's statement) for blocks kept as compressed. The model is tied to the code by running both on the same inputs: since the entropy-coder models (C12/C13) and the matcher model (C17) were merged, the executable model contains ALL of compress (Model/EncCoders.lean) and every frame - Uncompressed and Fastest, fresh and reused compressors (the matcher model is threaded through the frames of a history), built-in and user-supplied matchers - is compared BYTE FOR BYTE; every emitted frame is decoded by ruzstd (2 decoders), libzstd and the Lean Spec walker.",
    engines=[{"name": "enc"}],
    modelled="FrameCompressor::compress (per-frame reset, header bytes, read loop, last_block logic, empty block, level dispatch, checksum), compress_fastest (RLE / compressed / raw fallback incl. the F5 repair), BlockHeader::serialize, the window-descriptor arithmetic of FrameHeader::serialize; compress_block and the matcher are parameters; comparison operators, constants and presence of the reset/fallback statements are extracted from the source text (Gen.Enc, Gen.Guards, Gen.Consts)",
    assumptions=_ENC_ASSUMPTIONS,
)

prop(
    "C15",
    level_text="Theorems with the block encoder an ARBITRARY function (nothing depends on what compress_block writes), for all inputs, fragmentations, compressor states, both hash settings: every emitted block is at most 3 bytes larger than the block it encodes (block_overhead; depends on the raw-fallback guard operators taken from the source: holds for >= and for >, fails without the fallback); frame size <= input + 6 + 3 per block + 4 with blocks = ceil(len/128K)+1 for the built-in matcher; an independent structure walk over the frame finds well-formed raw/RLE/compressed blocks with Block_Size and stored size <= 128 KiB, exactly the final block flagged last, and after it exactly the checksum of the input; the header parses (strict Spec) to magic / no dict / no FCS / checksum flag / declared window >= matcher window AND >= 128 KiB (repair of F13: no block can exceed the declared window; the harness checks every block of every frame against the window its header declares, incl. user matchers with tiny windows). The same facts are checked on every frame the real code emits (structure walk in Rust, size bound, strict Spec walker in Lean).",
    engines=[{"name": "enc"}],
    also_reports={"enc": ["C02"]},
    modelled="as C02; the structure walker (Proofs/EncStructure.lean walkBlocks) and the harness walker (engines/enc.rs walk_frame) are written independently of the encoder",
    assumptions=_ENC_ASSUMPTIONS,
)

prop(
    "C16",
    level_text="ValidMatcher (sequences tile each block, match length >= 3, 1 <= offset <= min(window, bytes before the match), matched bytes equal, non-empty spaces <= 128 KiB, window <= 2^41) is defined executably and checked by the model on every script the harness generates. Theorems for every matcher script satisfying it: the frame-level round trip holds given the block-encoder contract BlockEncCorrect (RLE, raw fallback, huff-table bookkeeping proved); in compress_block every sequence maps to in-range (code, extra) values, so the unreachable!() arms of encode_literal_length / encode_match_len / encode_seqnum cannot be hit (<= 43690 sequences per block); literals-size fields fit; the raw-literals path (<= 1024 literals) decodes by the strict Spec to exactly the literals; last_huff_table tracks the decoder's table over an abstract literal coder (the invariant F5 broke), and is forgotten when a block is stored raw. F4, F10 and F13 are repaired: their witnesses are corpus cases (corpus/matcher_script) that must round-trip, the generators no longer avoid those situations (hundreds of all-LL-0 / all-ML-3 blocks per run), the RLE-literals path of the F10 repair is proved against the strict Spec (f10_repaired_single_value_literals), ValidMatcher.space_le is just the trait's 128 KiB. The full statement is closed (real coders, Model/EncCoders.lean) and reduced to two named obligations (compress_with_matcher_correct_full_of); a kernel-evaluated end-to-end example shows a kept compressed block from the real coders decoding under the strict Spec. Scripted-matcher frames are compared byte for byte with the model.",
    engines=[{"name": "matcher_script"}],
    modelled="as C02 plus compress_block down to the entropy coders (literal gathering, u32 casts, offset + 3, literals threshold, raw_literals, sequence count, code mapping); FSE / Huffman coders are parameters with contracts (C12 / C13 slices)",
    assumptions=_ENC_ASSUMPTIONS,
)

prop(
    "C04",
    level_text="Theorems for every capacity, head, tail, memory content, operand and chunk size (no bound): a model of RingBuffer whose raw accesses fault on any out-of-bounds or uninitialised access keeps the documented invariants 1-4 and refines a byte queue under every operation and every operation sequence; copy_bytes_overshooting stays inside the regions handed to it on all three paths, and all five call sites hand it regions of the right geometry (readable source = occupied cells, whole destination = free cells); DecodeBuffer establishes every precondition for every offset > 0, repeat equals the byte-by-byte overlapping copy (dictionary variant included), drain_to delivers/drops/hashes exactly the accepted prefix under every sink script, and the allocation stays below 2*(len+requested)+2. The hand-written model is tied to the code by replaying corpus, random and exhaustive small-capacity op sequences on the real RingBuffer/DecodeBuffer and comparing (cap, head, tail), len, free, contents and the raw-memory access trace (alloc/dealloc/read/write events and every copy_bytes_overshooting call) after every op; a shadow memory driven by the real trace checks bounds and initialisation of every raw access independently of the model, a VecDeque checks the queue semantics, XXH64 checks the hash of delivered bytes.",
    engines=[{"name": "ring"}],
    modelled="RingBuffer and DecodeBuffer are hand-written mirrors of ringbuffer.rs / decode_buffer.rs (every method incl. the three geometric cases, the five call sites and the three paths of copy_bytes_overshooting, the dead branchless variant, DrainGuard, write_all_bytes); the chunk size (size_of::<u128>() = 16) and the comparison operators of the guards that select a copy path / geometric case / reallocation are extracted from the source text on every run (Zstd/Gen/Ring.lean)",
    assumptions=[
        "usize additions do not overflow (every sum is bounded by twice an allocation size <= isize::MAX); total_output_counter (u64) does not overflow",
        "the global allocator returns a valid block of the requested size or aborts",
        "Read/Write implementations obey the std::io contract (a sink never reports more than it was given); on a short reader the default read_exact has stored the bytes it got",
        "target is 64-bit with SSE2 or NEON (copy chunk = 16 bytes); the theorems hold for every chunk size > 0",
        "the harness runs with debug assertions on (as the test-suite does); the model's debug_assert!s are faults, and the theorems show they never fire inside the contracts",
    ],
)

# ---- agentH: frame-level proofs about Model.FrameDecoder (engine dec as is) ----
_FRAME_MODELLED = ("FrameDecoder / FrameDecoderState / BlockDecoder / execute_sequences / DecodeBuffer (abstract content) / "
                   "StreamingDecoder::read are hand-written statement-by-statement mirrors of the Rust (Zstd/Model/FrameDecoder.lean); "
                   "constants and guard operators (MAX_BLOCK_SIZE, block-size guard, window guards, magic numbers) are extracted from the source text on every run; "
                   "the mirror is tied to the code by engine dec (real FrameDecoder/StreamingDecoder under generated driver programs, every observable compared after every operation, on valid, truncated, mutated and structure-aware hostile frames: the block decoder behind the request lines is the faithful Blk.decompressBlock = instance B of the BlockDec parameter, and the theorems hold for every instance satisfying BlockContract, which Proofs/FrameFaithful.lean proves for instance B without hypotheses)")

prop(
    "C05",
    level_text="Theorems for all states, sources, strategies and read sizes (no bound): one block adds at most 131072 bytes to the decode buffer on the Ok path and on every error path (block_growth; through the four guards extracted from the source text — block header size, literals Regenerated_Size, running seq_sum before each sequence, trailing literals — operator and constant, anchored up to the opening brace); a compressed block is only accepted if literals+matches <= 128 KiB and then grew the buffer by exactly seq_sum (the assert cannot fire); decode_blocks(UptoBytes n) adds <= n+131072, UptoBlocks k <= max(k,1)*131072; collect leaves <= window; documented loop and StreamingDecoder::read stay <= window+n+131072 for ever; literals scratch <= 131072.",
    engines=[{"name": "dec"}, {"name": "hostile"}, {"name": "mem"}],
    modelled=_FRAME_MODELLED,
    assumptions=["buffer length (DecodeBuffer::len) stands for memory; capacity <= 2*len+2 is C04's cap_bound", "scratch vectors other than the literals buffer (block content <= 128 KiB by the header guard, sequences <= 2^17 entries) are bounded by format maxima, not by these theorems"],
)

prop(
    "C06",
    level_text="Theorems for all states, sink scripts, ring splits, sources and budgets (no bound): every drain path hands out exactly the first `written` buffered bytes and keeps exactly the rest, also when the sink stops early or fails (drainToSink_exact), the second ring segment is only offered after a complete first write; for total-budget sinks the outcome is independent of the ring split; unfinished frames retain the window under every drain; a match / a whole block's sequence execution appends the same bytes with or without already-drained bytes in front when offsets <= window <= retained (executeSequences_drop); decode_from_to reports exactly the counter advance, never more than it was given (F2 branch included); decode_blocks hands back exactly the unread suffix; schedule independence: a decoder drained in any way and its never-drained twin decode every block / every decode_blocks call / every decode_from_to chunk identically (twins again), StreamingDecoder::read is a program of decode_blocks+read calls; and for EVERY frame the Spec accepts and EVERY documented program of drain and decode_blocks calls: no call fails, delivered bytes (= hasher input) followed by buffered bytes are a prefix of the content, all of it once the last block is in, consumed = frame length, stored checksum = the frame's (valid_frame_any_schedule); schedule_independent_full is PROVED over the EXECUTABLE model (schedule_independent_full_holds): the same for every documented program over the WHOLE driver grammar — drains, decode_blocks, StreamingDecoder::read and decode_from_to with ANY chunking (the caller advancing by the reported count), also for dictionaries registered from parsed bytes (schedule_independent_full_parsed_dicts); 'documented' excludes only decode_blocks (directly or through StreamingDecoder::read) after the last block is in — necessary: checksum_taken_for_a_block shows, on a valid frame and confirmed on the real decoder, that after a decode_from_to chunk ending right before the checksum decode_blocks takes the four checksum bytes for an RLE block and buffers garbage.",
    engines=[{"name": "dec"}, {"name": "hostile"}],
    modelled=_FRAME_MODELLED,
    assumptions=["a Write implementation never reports more bytes than it was given", "the ring's first segment is empty only if the ring is empty (C04)"],
)

prop(
    "C08",
    level_text="Theorems for all states, operations, sink scripts and ring splits (no bound): every drain path feeds the hasher exactly the bytes it hands out; decode operations never touch the hasher; reset re-seeds it; hence after any interleaving of collect/read/collect_to_writer/decode_blocks/decode_from_to/StreamingDecoder::read the hasher input is the concatenation of everything delivered since the reset and get_calculated_checksum = low32(XXH64(seed 0)) of exactly those bytes; stated for an abstract streaming hash (only H(H(s,a),b)=H(s,a++b) is used); for every frame the Spec accepts and every documented program that finishes and drains it, calculated = low32(XXH64(content)) = the checksum stored in the frame (valid_frame_checksums_agree).  Compressor side: for every input, source fragmentation, block encoder, matcher and compressor state (fresh or left by ANY reuse history) the four bytes after the last block are low32(XXH64(input)) (compressor_checksum_of_input; rests on the extracted facts that compress() re-seeds the hasher before reading and hashes exactly each block read).",
    engines=[{"name": "dec"}, {"name": "enc"}],
    modelled=_FRAME_MODELLED,
    assumptions=["twox-hash's streaming XxHash64 equals one-shot XXH64 (cross-checked by the harness XXH64 on every delivered stream)", "Spec.Xxh64 is a faithful transcription of XXH64"],
)

prop(
    "C10",
    level_text="Theorems for all states, sources, strategies and cut points (no bound): exact-size reads; a block consumes exactly 3+content_size bytes; decode_blocks hands back exactly the unread suffix and counts exactly the consumed bytes (consumed_exact, from the frame header on); every strict prefix of a completed frame run ends in an error at a reader site (block header, body or checksum), never in a finished state, with the buffered bytes a prefix of the full run's (decodeBlocks_prefix); decode_all never writes past the target, reports a frame done only when finished and fully drained, fails on an undersized target, a truncated skippable frame and trailing garbage; frame boundaries are exact under appended data; decode_all over ANY list of valid frames and skippable frames returns the concatenated contents (decodeAll_concat, induction over the segment list); for every frame the Spec accepts every cut inside the header makes reset fail and every cut behind it makes decode_blocks(All) end in a reader error, unfinished, with the buffered bytes a prefix of the true content (valid_frame_prefix_errors); decode_all_to_vec (model Decoder.decodeAllToVec: resize to capacity, decode_all into the spare capacity, truncate back on BOTH paths; compared with the real function by engine dec, `dec allvec` lines): the vector is unchanged on every failure, its existing bytes are never touched, on success exactly the bytes decode_all reports are appended (never more than the spare capacity), any list of valid frames appends exactly the concatenated contents (decode_all_to_vec_unchanged_on_failure, _prefix_untouched, _appends_exactly, _concat); every loop's fuel suffices (termination).",
    engines=[{"name": "dec"}, {"name": "hostile"}],
    modelled=_FRAME_MODELLED,
    assumptions=["the source is a slice-like reader: read_exact either returns exactly n bytes or UnexpectedEof"],
)
